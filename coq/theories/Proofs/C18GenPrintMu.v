(* Proofs/C18GenPrintMu.v — C18, printinneritn clause for cp_apr (MU), tied to the GENERATED inner loops of Gen/GenCpAprMu.v
   (cp_apr_mu_loop4 = `for i in range(maxinneriters):`, regenerated from /repo/pyttb/cp_apr.py::tt_cp_apr_mu on every run).

   Proofs/C18GenPrint.v shows that the generated tt_cp_apr_mu does not read v_printitn / v_printinneritn.  Here the hand-written print
   driver's inner loop (Proofs/C18Print.v mu_inner_loop: the same loop WITH printinneritn and the "Mode = n, Inner Iter = i" status
   line as an event) is bridged to the generated loop: with the driver's oracles instantiated by the generated kernels on the state
   (M, Phi, kktModeViolations, world), for EVERY printinneritn the hand loop's result is the generated loop's result; the counter
   nInnerIters[iteration] of the generated code is the hand loop's count.  (The mode loop and the outer loop - trace arrays, clock -
   are not bridged: their print-independence over the generated code is gen_cp_apr_mu_print_indep.) *)
From Coq Require Import String List Arith Bool ZArith Lia.
From PV Require Import Model.W4SPrelude Gen.GenCpAprMu Proofs.C18Print Proofs.C18GenPrintHosvd.
Import ListNotations.
Local Open Scope nat_scope.

Section MuInnerBridge.
Variables T_W T_F T_Mat T_K T_X T_Pi : Type.
Variable c_leF : T_F -> T_F -> bool.
Variable k_calculate_phi : T_W -> T_X -> T_K -> nat -> nat -> T_Pi -> T_F -> T_W * T_Mat.
Variable k_kkt_mode : T_K -> nat -> list T_Mat -> T_F.
Variable k_mult_update : T_K -> nat -> list T_Mat -> T_K.
Notation gloop4 := (GenCpAprMu.cp_apr_mu_loop4 T_W T_F T_Mat T_K T_X T_Pi c_leF k_calculate_phi k_kkt_mode k_mult_update).

Variable X : T_X.
Variable eps : T_F.
Variable rank : nat.
Variable stoptol : T_F.

Definition mu_st : Type := T_K * list T_Mat * list T_F * T_W.      (* M, Phi, kktModeViolations, world *)

(* Phi[n] = calculate_phi(...); kktModeViolations[n] = max|min(M[n], 1 - Phi[n])| *)
Definition m_calc_phi (n : nat) (pi : T_Pi) (s : mu_st) : mu_st * T_F :=
  let '(M, Phi, km, w) := s in
  let '(w', ph) := k_calculate_phi w X M rank n pi eps in
  let Phi' := g_setf T_Mat Phi n ph in
  let kk := k_kkt_mode M n Phi' in
  ((M, Phi', g_setf T_F km n kk, w'), kk).
(* M.factor_matrices[n] *= Phi[n] *)
Definition m_mulupd (n : nat) (s : mu_st) : mu_st := let '(M, Phi, km, w) := s in (k_mult_update M n Phi, Phi, km, w).
Definition m_ltb (a b : T_F) : bool := negb (c_leF b a).

Notation hinner q := (mu_inner_loop mu_st T_Pi T_F m_calc_phi m_mulupd m_ltb stoptol q).

Lemma g_setf_length {A} (l : list A) i v : length (g_setf A l i v) = length l.
Proof. unfold g_setf. destruct (sk_set l i v) as [l'|] eqn:E; [exact (c18_sk_set_length _ _ _ _ E)|reflexivity]. Qed.

(* BRIDGE of the inner loop, for every printinneritn q *)
Theorem mu_inner_print_bridge (q : Z) (Pi : T_Pi) (it n : nat) : forall fuel i M Phi cv km ni w cnt,
  n < length Phi -> n < length km -> nth_error ni it = Some cnt ->
  let '(s', cv', cnt', _) := hinner q fuel i n Pi (M, Phi, km, w) cv cnt in
  let '(M', Phi', km', w') := s' in
  exists ni', gloop4 Pi eps X it n rank stoptol fuel i (M, Phi, cv, km, ni, w) = Some (M', Phi', cv', km', ni', w') /\
              nth_error ni' it = Some cnt' /\ (forall j, j <> it -> nth_error ni' j = nth_error ni j).
Proof.
  induction fuel as [|fuel IH]; intros i M Phi cv km ni w cnt HP Hk Hn.
  - cbn. exists ni. auto.
  - assert (Hit : it < length ni) by (apply nth_error_Some; rewrite Hn; discriminate).
    destruct (c18_sk_set_some ni it (cnt + 1) Hit) as [ni1 E1].
    destruct (k_calculate_phi w X M rank n Pi eps) as [w1 ph] eqn:Ephi.
    destruct (c18_sk_set_some Phi n ph HP) as [Phi1 E2].
    destruct (c18_sk_set_some km n (k_kkt_mode M n Phi1) Hk) as [km1 E3].
    assert (Ecp : m_calc_phi n Pi (M, Phi, km, w) = ((M, Phi1, km1, w1), k_kkt_mode M n Phi1)).
    { unfold m_calc_phi. rewrite Ephi. unfold g_setf. rewrite E2, E3. reflexivity. }
    cbn [mu_inner_loop GenCpAprMu.cp_apr_mu_loop4].
    rewrite Hn, E1, Ephi, E2, E3, (c18_sk_set_same _ _ _ _ E3), !Ecp. cbn [fst snd]. unfold m_ltb at 1.
    pose proof (c18_sk_set_same _ _ _ _ E1) as S1. rewrite Nat.add_1_r in S1.
    destruct (negb (c_leF stoptol (k_kkt_mode M n Phi1))).
    + cbv beta iota. exists ni1. split; [reflexivity|]. split; [exact S1|]. intros j Hj. exact (c18_sk_set_other _ _ _ _ _ E1 Hj).
    + cbn [m_mulupd].
      assert (HP1 : n < length Phi1) by (rewrite (c18_sk_set_length _ _ _ _ E2); exact HP).
      assert (Hk1 : n < length km1) by (rewrite (c18_sk_set_length _ _ _ _ E3); exact Hk).
      specialize (IH (S i) (k_mult_update M n Phi1) Phi1 false km1 ni1 w1 (S cnt) HP1 Hk1 S1).
      destruct (hinner q fuel (S i) n Pi (k_mult_update M n Phi1, Phi1, km1, w1) false (S cnt)) as [[[s' cv'] cnt'] l'].
      destruct s' as [[[M' Phi'] km'] w']. destruct IH as (ni' & Eg & Hc & Ho).
      exists ni'. split; [exact Eg|]. split; [exact Hc|]. intros j Hj. rewrite (Ho j Hj). exact (c18_sk_set_other _ _ _ _ _ E1 Hj).
Qed.

(* hence the generated inner loop never raises on valid indices, and its result is the same whatever the hand driver prints *)
Corollary gen_mu_inner_print_pair (q1 q2 : Z) (Pi : T_Pi) (it n : nat) : forall fuel i M Phi cv km ni w cnt,
  n < length Phi -> n < length km -> nth_error ni it = Some cnt ->
  fst (hinner q1 fuel i n Pi (M, Phi, km, w) cv cnt) = fst (hinner q2 fuel i n Pi (M, Phi, km, w) cv cnt) /\
  gloop4 Pi eps X it n rank stoptol fuel i (M, Phi, cv, km, ni, w) <> None.
Proof.
  intros fuel i M Phi cv km ni w cnt HP Hk Hn. split.
  - apply mu_inner_indep.
  - pose proof (mu_inner_print_bridge q1 Pi it n fuel i M Phi cv km ni w cnt HP Hk Hn) as H.
    destruct (hinner q1 fuel i n Pi (M, Phi, km, w) cv cnt) as [[[s' cv'] cnt'] l']. destruct s' as [[[M' Phi'] km'] w'].
    destruct H as (ni' & Eg & _). rewrite Eg. discriminate.
Qed.
End MuInnerBridge.
