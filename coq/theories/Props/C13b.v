(* Props/C13b.v — C13, wave 5 additions: the L-BFGS-B option dictionary across solves, the failed-epoch test's reference (hand state
   machine and the skeleton GENERATED from /repo), the gcp_opt driver as a decision procedure.  Only statements, `exact`,
   Print Assumptions. *)
From Coq Require Import String List ZArith Arith Bool.
From PV Require Import Model.W4SPrelude Gen.GenSolver Alg.C13Solver Alg.C13Solver2 Alg.C13Gen Alg.C13Opts Alg.C13Driver.
From PV Require Import Base.Index Alg.C13Samplers Alg.C13Harness Alg.C13Direct.
Import ListNotations.

(* ================================ LBFGSB: the options handed to scipy ================================ *)
(* in EVERY sequence of solves on one LBFGSB object (data of any sizes, same or different) each solve hands scipy exactly the
   constructor's options without the None ones, the callback slot holding the monitor — what a fresh object would hand over; the
   dictionary is back to its constructor value after every solve; the size of the data never enters *)
Theorem C13_lbfgsb_options : forall (Val : Type) (pg_default : Z -> Val) (monitor_of : option Val -> Val) (c : ctor Val) (sizes : list Z),
  handed_seq Val pg_default monitor_of (ctor_kwargs Val c) sizes = map (fun _ => handed_ctor Val monitor_of c) sizes /\
  (forall size, solve_after Val pg_default monitor_of (ctor_kwargs Val c) size = ctor_kwargs Val c) /\
  (forall s1 s2, handed Val pg_default monitor_of (ctor_kwargs Val c) s1 = handed Val pg_default monitor_of (ctor_kwargs Val c) s2).
Proof. exact lbfgsb_options. Qed.
Print Assumptions C13_lbfgsb_options.

(* pgtol reaches scipy exactly when the caller gave one (the size-derived default is dead code for a constructor-built dictionary) *)
Theorem C13_lbfgsb_pgtol : forall (Val : Type) (pg_default : Z -> Val) (monitor_of : option Val -> Val) (c : ctor Val) (size : Z) (v : Val),
  In ("pgtol"%string, v) (handed Val pg_default monitor_of (ctor_kwargs Val c) size) <-> c_pgtol Val c = Some v.
Proof. exact pgtol_only_from_caller. Qed.
Print Assumptions C13_lbfgsb_pgtol.

(* ================================ the failed-epoch test ================================ *)
(* self._nfails of a finished solve = number of trace entries that exceed the smallest value BEFORE them (not the previous entry);
   the test's reference f_est_prev is the smallest value of the whole trace *)
Theorem C13_nfails_vs_best : forall (M O E : Type) (leb : E -> E -> bool),
  (forall a b, leb a b = true \/ leb b a = true) -> (forall a b c, leb a b = true -> leb b c = true -> leb a c = true) ->
  forall (fest : M -> E) (epoch : nat -> nat -> O -> M -> M * O) (on_fail : O -> O) (max_fails : nat) (tol : option E) max_iters m0 o0,
  let s := solve M O E leb fest epoch on_fail max_fails tol max_iters m0 o0 in
  nfails _ _ _ s = fails_vs_min E leb (fest m0) (trace _ _ _ s) /\
  fprev _ _ _ s = emin E leb (fest m0) (trace _ _ _ s) /\
  is_min E leb (fprev _ _ _ s) (full_trace M O E fest m0 s).
Proof. exact nfails_vs_best. Qed.
Print Assumptions C13_nfails_vs_best.

(* the same over the control-flow skeleton of StochasticSolver.solve regenerated from /repo on every run (all kernels arbitrary) *)
Theorem C13_gen_nfails_vs_best : forall (T_W T_M T_E T_Data T_FH T_LB T_Sampler T_Subs T_Vals T_Wgts T_G T_FM T_Step T_Crng : Type)
  (c_leE : T_E -> T_E -> bool),
  (forall a b, c_leE a b = true \/ c_leE b a = true) -> (forall a b c, c_leE a b = true -> c_leE b c = true -> c_leE a c = true) ->
  forall c_zeroE c_zeroStep k_GCPSampler k_function_sample k_estimate_f k_reset_state k_gradient_sample k_crng k_estimate_g k_any_inf
         k_update_step k_set_factor_matrices k_set_failed_epoch
         w0 max_iters epoch_iters max_fails tol printitn m0 data fh gh lb smp model ftrace strace nep nf bestm w,
  GenSolver.solve T_W T_M T_E T_Data T_FH T_LB T_Sampler T_Subs T_Vals T_Wgts T_G T_FM T_Step T_Crng
    c_leE c_zeroE c_zeroStep k_GCPSampler k_function_sample k_estimate_f k_reset_state k_gradient_sample k_crng k_estimate_g k_any_inf
    k_update_step k_set_factor_matrices k_set_failed_epoch
    w0 max_iters epoch_iters max_fails tol printitn m0 data fh gh lb smp = Some (model, (ftrace, strace, nep), nf, bestm, w) ->
  exists f0 rest, ftrace = f0 :: rest /\ nf = fails_vs_min T_E c_leE f0 rest /\ is_min T_E c_leE (emin T_E c_leE f0 rest) ftrace.
Proof. exact gen_nfails_vs_best. Qed.
Print Assumptions C13_gen_nfails_vs_best.

(* ================================ the gcp_opt driver ================================ *)
(* the driver reaches a solver exactly on the admissible requests *)
Theorem C13_driver_accepts_iff : forall r, (exists c g, gcp_opt r = Call c g) <-> admissible r = true.
Proof. exact driver_accepts_iff. Qed.
Print Assumptions C13_driver_accepts_iff.

(* a stochastic solver: never a mask, the data as given, the caller's sampler, the loss's bound; L-BFGS-B: dense data only, a tensor
   mask is applied to the data and handed on as its ARRAY, an array mask as it is; the initial guess is the one asked for *)
Theorem C13_driver_call_sound : forall r c g, gcp_opt r = Call c g ->
  init_ok (r_init r) = Some g /\
  match c with
  | CStochastic lb masked fwd =>
      r_opt r = SStochastic /\ r_mask r = MNone /\ masked = false /\ fwd = true /\ objective_ok r = Some lb /\ r_data r <> DOther
  | CLbfgsb lb masked ma =>
      r_opt r = SLbfgsb /\ r_data r = DDense /\ objective_ok r = Some lb /\
      match r_mask r with
      | MNone => masked = false /\ ma = MaNone
      | MTensor => masked = true /\ ma = MaTensorData
      | MArray => masked = false /\ ma = MaArray
      end
  end.
Proof. exact driver_call_sound. Qed.
Print Assumptions C13_driver_call_sound.

(* the three rejections the solver clauses rest on, each with the checks that precede it in the source *)
Theorem C13_driver_rejections : forall r,
  (gcp_opt r = Raise ESparseLbfgsb <->
     objective_ok r <> None /\ r_data r = DSparse /\ r_mask r = MNone /\ init_ok (r_init r) <> None /\ r_opt r = SLbfgsb) /\
  (gcp_opt r = Raise EStochasticMask <->
     objective_ok r <> None /\ r_data r = DDense /\ r_mask r <> MNone /\ init_ok (r_init r) <> None /\ r_opt r = SStochastic) /\
  (gcp_opt r = Raise ESparseMask <-> objective_ok r <> None /\ r_data r = DSparse /\ r_mask r <> MNone).
Proof. exact driver_rejections. Qed.
Print Assumptions C13_driver_rejections.

(* the bound handed to the solver for a predefined objective is setup's table *)
Theorem C13_driver_bound_table : forall o v d m i s c g, gcp_opt (mkReq (OEnum o) v d m i s) = Call c g ->
  setup_lb o = Some (match c with CStochastic lb _ _ => lb | CLbfgsb lb _ _ => lb end) /\
  (match c with CStochastic lb _ _ => lb | CLbfgsb lb _ _ => lb end) <> UserLb.
Proof. exact driver_bound_table. Qed.
Print Assumptions C13_driver_bound_table.

(* ================================ samplers.nonzeros / samplers.zeros called directly ================================ *)
(* nonzeros: refused exactly for more samples than nonzeros WITHOUT replacement; samples = nnz takes every stored entry once *)
Theorem C13_nonzeros_mode : forall nnz samples wr,
  (nonzeros_mode nnz samples wr = NzReject <-> wr = false /\ nnz < samples) /\
  (nonzeros_mode nnz samples wr = NzIdentity <-> samples = nnz).
Proof. exact nonzeros_mode_spec. Qed.
Print Assumptions C13_nonzeros_mode.

(* zeros: never more rows than requested, every row one of the drawn subscripts and no nonzero's, without replacement no row twice
   (np.unique = any duplicate-free selection of its input) *)
Theorem C13_zeros_rows : forall (uniq : list (list Z) -> list (list Z)),
  (forall l, NoDup (uniq l)) -> (forall l, incl (uniq l) l) ->
  forall s nzidx wr draws req,
  let rows := zeros_rows uniq s nzidx wr draws req in
  length rows <= req /\
  (forall r, In r rows -> In r (map (draw_row D53 s) draws) /\ is_zero_row s nzidx r = true) /\
  (wr = false -> NoDup rows).
Proof. exact zeros_rows_spec. Qed.
Print Assumptions C13_zeros_rows.

(* zeros without replacement: a request above the number of zeros (or needing as many draws as the tensor has cells) is refused, not
   silently short-changed; with replacement only an oversampling rate below 1.1 is refused *)
Theorem C13_zeros_accept_bound : forall rate_ok size numz samples ntmp1,
  zeros_decide rate_ok false size numz samples ntmp1 = None -> (samples <= numz /\ ntmp1 < size)%Z /\ rate_ok = true.
Proof. exact zeros_accept_bound. Qed.
Print Assumptions C13_zeros_accept_bound.
