(* Props/C11w5b.v — C11 (wave 5), PDNR search direction. Only statements, `exact`, Print Assumptions. *)
From Coq Require Import List Arith Bool ZArith QArith Qcanon.
From PV Require Import Base.Index Base.Sum Np.Array Model.Sparse Model.Repr Model.Harness Model.C11Check Model.C11Replay Model.C11Lbfgs Model.C11Pdnr
                       Proofs.C11Pdnr.
Import ListNotations.

(* PDNR: the transliterated damped-Newton direction (Model/C11Pdnr.v search_dir_pdnr, compared with get_search_dir_pdnr on direct calls by op pdnr_dir):
   whenever it returns, its free part x solves the damped Newton system (Hessian_free + mu I) x = -g_free EXACTLY (the Gaussian elimination of the
   model is sound), the predicted reduction is g_free . x + 1/2 x^T (Hessian_free + mu I) x, and the direction is -g when that is positive, else x
   scattered over the free variables with the fixed ones moving by -g_r (m_r <> 0) or staying (m_r = 0) *)
Theorem C11_pdnr_newton_system : forall (eps mu : Qc) (Pi : list (list Qc)) (ups m g d : list Qc) (pred : Qc),
  search_dir_pdnr eps mu Pi ups m g = Some (d, pred) ->
  let fx := fixed_vars eps m g in
  let free := free_of fx in
  let A := damped mu Pi ups free in
  let gf := map (vget g) free in
  let d0 := map (fun r => if nth r fx false then (if qisz (vget m r) then q0 else (- vget g r)%Qc) else q0) (seq 0 (length m)) in
  exists x, length x = length free /\
    Forall2 (fun row bi => qdot row x = bi) A (map Qcopp gf) /\
    pred = (qdot x gf + Q2Qc (1 # 2) * qdot x (map (fun row => qdot row x) A))%Qc /\
    d = (if qlt q0 pred then map Qcopp g else scatter free x d0).
Proof. exact pdnr_dir_newton. Qed.
Print Assumptions C11_pdnr_newton_system.

(* non-vacuity: three variables, the third fixed at 0, a coupled 2 x 2 damped system: direction (2, -3/2, 0), predicted reduction -9/2;
   a wrong second entry is rejected *)
Example C11_example_pdnr_dir :
  let z := fun (n : Z) => Q2Qc (inject_Z n) in
  search_dir_pdnr_ok q0 (Q2Qc (1 # 8)) (z 1%Z) [[z 1%Z; z 1%Z; z 2%Z]; [z 0%Z; z 1%Z; z 1%Z]] [z 2%Z; z 1%Z] [z 1%Z; z 2%Z; z 0%Z] [z (-3)%Z; z 2%Z; z 5%Z]
                     [z 2%Z; Q2Qc (-3 # 2); z 0%Z] (Q2Qc (-9 # 2)) = true /\
  search_dir_pdnr_ok q0 (Q2Qc (1 # 8)) (z 1%Z) [[z 1%Z; z 1%Z; z 2%Z]; [z 0%Z; z 1%Z; z 1%Z]] [z 2%Z; z 1%Z] [z 1%Z; z 2%Z; z 0%Z] [z (-3)%Z; z 2%Z; z 5%Z]
                     [z 2%Z; Q2Qc (-1 # 2); z 0%Z] (Q2Qc (-9 # 2)) = false.
Proof. exact search_dir_pdnr_ex. Qed.
