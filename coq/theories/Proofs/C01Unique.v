(* Proofs/C01Unique.v — the np.unique + accumarray + nonzero step of sptenmat.__init__ (Model/C01Unique.v):
   output rows strictly increasing (hence pairwise distinct), every position denotes the sum of the input values stored
   there, zero sums dropped, a permutation of the input when the input rows are distinct and no value is zero,
   the identity on input that is already strictly sorted without zeros. *)
From Coq Require Import List Arith Lia Bool Permutation Ring.
From PV Require Import Base.Index Base.Perm Base.Sum Np.Array Model.Sparse Model.Repr Model.C07Ops Model.C01Conv
  Model.C01Unique Proofs.C07Index Proofs.C07Proofs Proofs.C01Proofs.
Import ListNotations.

(* ------------------------------------------------------------------ the lexicographic row order *)
Lemma idx_ltb_irrefl i : idx_ltb i i = false.
Proof. induction i as [|x i IH]; cbn [idx_ltb]; auto. rewrite Nat.ltb_irrefl, Nat.eqb_refl, IH. reflexivity. Qed.

Lemma idx_ltb_trans i j k : idx_ltb i j = true -> idx_ltb j k = true -> idx_ltb i k = true.
Proof.
  revert j k; induction i as [|x i IH]; intros [|y j] [|z k] H1 H2; cbn [idx_ltb] in *; try discriminate.
  apply orb_true_iff in H1. apply orb_true_iff in H2. apply orb_true_iff.
  destruct H1 as [H1|H1], H2 as [H2|H2].
  - left. apply Nat.ltb_lt in H1, H2. apply Nat.ltb_lt. lia.
  - apply andb_true_iff in H2 as [E _]. apply Nat.eqb_eq in E. subst. now left.
  - apply andb_true_iff in H1 as [E _]. apply Nat.eqb_eq in E. subst. now left.
  - apply andb_true_iff in H1 as [E1 L1]. apply andb_true_iff in H2 as [E2 L2]. apply Nat.eqb_eq in E1, E2. subst.
    right. rewrite Nat.eqb_refl. cbn. eauto.
Qed.

Lemma idx_ltb_neq i j : idx_ltb i j = true -> idx_eqb i j = false.
Proof. intros H. apply idx_eqb_neq. intros ->. now rewrite idx_ltb_irrefl in H. Qed.

Lemma idx_ltb_asym i j : idx_ltb i j = true -> idx_ltb j i = false.
Proof.
  intros H. destruct (idx_ltb j i) eqn:E; auto. pose proof (idx_ltb_trans _ _ _ H E) as C. now rewrite idx_ltb_irrefl in C.
Qed.

(* total on rows of one length *)
Lemma idx_ltb_total i j : length i = length j -> idx_eqb i j = false -> idx_ltb i j = false -> idx_ltb j i = true.
Proof.
  revert j; induction i as [|x i IH]; intros [|y j] HL He Hl; cbn [idx_ltb idx_eqb length] in *; try discriminate.
  apply orb_false_iff in Hl as [L1 L2]. apply Nat.ltb_ge in L1.
  destruct (Nat.eqb_spec x y) as [->|Hne].
  - rewrite Nat.eqb_refl in *. cbn [andb] in *. rewrite Nat.ltb_irrefl. cbn [orb]. apply IH; auto.
  - apply orb_true_iff. left. apply Nat.ltb_lt. lia.
Qed.

Lemma ssortedb_spec l : ssortedb l = true <-> ssorted l.
Proof.
  induction l as [|i r IH]; cbn; [tauto|]. rewrite andb_true_iff, forallb_forall, Forall_forall, IH. tauto.
Qed.

Lemma ssorted_NoDup l : ssorted l -> NoDup l.
Proof.
  induction l as [|i r IH]; cbn; intros H; constructor.
  - destruct H as [H _]. rewrite Forall_forall in H. intros Hin. specialize (H _ Hin). now rewrite idx_ltb_irrefl in H.
  - apply IH. tauto.
Qed.

Lemma ssorted_app a b : ssorted (a ++ b) -> ssorted a /\ ssorted b /\ forall x y, In x a -> In y b -> idx_ltb x y = true.
Proof.
  induction a as [|i a IH]; cbn [app ssorted]; intros H.
  - split; [exact I|]. split; [exact H|]. intros x y [].
  - destruct H as [H1 H2]. destruct (IH H2) as (Sa & Sb & Hab). apply Forall_app in H1 as [F1 F2].
    split; [split; auto|]. split; auto. intros x y [<-|Hx] Hy; auto. rewrite Forall_forall in F2. auto.
Qed.

Lemma ssorted_filter (f : idx -> bool) l : ssorted l -> ssorted (filter f l).
Proof.
  induction l as [|i r IH]; cbn; auto. intros [H1 H2]. destruct (f i); cbn; auto. split; auto.
  rewrite Forall_forall in *. intros j Hj. apply filter_In in Hj as [Hj _]. auto.
Qed.

Section Uniq.
Variable V : Type.
Variables (v0 v1 : V) (vadd vmul vsub : V -> V -> V) (vopp : V -> V) (isz : V -> bool).
Hypothesis Vring : ring_theory v0 v1 vadd vmul vsub vopp (@eq V).
Hypothesis isz_spec : forall v, isz v = true <-> v = v0.
Add Ring Vr01u : Vring.
Notation ent := (idx * V)%type.
Notation keys := (map (@fst idx V)).
Notation ins := (ins_acc vadd).
Notation vsum := (vsum_at v0 vadd).

(* ---------------- keys of the accumulator *)
Lemma ins_keys (e : ent) l k : In k (keys (ins e l)) <-> k = fst e \/ In k (keys l).
Proof.
  induction l as [|f r IH]; cbn [ins_acc map In]; [intuition|].
  destruct (idx_eqb (fst e) (fst f)) eqn:E.
  - apply idx_eqb_spec in E. cbn [map In fst]. rewrite E. intuition.
  - destruct (idx_ltb (fst e) (fst f)); cbn [map In]; [intuition|]. rewrite IH. intuition.
Qed.

Lemma ins_sorted k (e : ent) l : length (fst e) = k -> Forall (fun i => length i = k) (keys l) ->
  ssorted (keys l) -> ssorted (keys (ins e l)).
Proof.
  intros He. induction l as [|f r IH]; intros HL Hs; cbn [ins_acc map ssorted]; [split; auto|].
  cbn [map] in HL, Hs. inversion HL as [|? ? Hf HL']; subst. destruct Hs as [Hs1 Hs2].
  destruct (idx_eqb (fst e) (fst f)) eqn:E; [cbn [map ssorted fst]; auto|].
  destruct (idx_ltb (fst e) (fst f)) eqn:L; cbn [map ssorted].
  - split; [|split; auto]. constructor; auto. rewrite Forall_forall in *. intros j Hj. eapply idx_ltb_trans; eauto.
  - assert (G : idx_ltb (fst f) (fst e) = true).
    { apply idx_ltb_total; [now rewrite Hf|exact E|exact L]. }
    split; [|now apply IH]. rewrite Forall_forall in *. intros j Hj. apply ins_keys in Hj as [->|Hj]; auto.
Qed.

Lemma fold_ins_sorted k (es acc : list ent) : Forall (fun i => length i = k) (keys es) ->
  Forall (fun i => length i = k) (keys acc) -> ssorted (keys acc) ->
  ssorted (keys (fold_left (fun a e => ins e a) es acc)) /\
  Forall (fun i => length i = k) (keys (fold_left (fun a e => ins e a) es acc)).
Proof.
  revert acc; induction es as [|e es IH]; intros acc He Ha Hs; cbn [fold_left]; auto.
  cbn [map] in He. inversion He as [|? ? He1 He2]; subst. apply IH; auto.
  - rewrite Forall_forall in *. intros j Hj. apply ins_keys in Hj as [->|Hj]; auto.
  - now apply (ins_sorted (length (fst e))).
Qed.

Theorem uniq_acc_sorted k (es : list ent) : Forall (fun i => length i = k) (keys es) -> ssorted (keys (uniq_acc vadd es)).
Proof. intros H. apply (fold_ins_sorted k es []); auto; cbn; auto. Qed.

Lemma fold_ins_keys (es acc : list ent) k :
  In k (keys (fold_left (fun a e => ins e a) es acc)) <-> In k (keys es) \/ In k (keys acc).
Proof.
  revert acc; induction es as [|e es IH]; intros acc; cbn [fold_left map In]; [intuition|].
  rewrite IH, ins_keys. intuition.
Qed.

Lemma uniq_acc_keys (es : list ent) k : In k (keys (uniq_acc vadd es)) <-> In k (keys es).
Proof. unfold uniq_acc. rewrite fold_ins_keys. cbn. intuition. Qed.

(* ---------------- values: every position keeps the sum of what was stored there *)
Lemma vsum_cons i (e : ent) l : vsum i (e :: l) = vadd (if idx_eqb i (fst e) then snd e else v0) (vsum i l).
Proof. unfold vsum_at. cbn [filter]. destruct (idx_eqb i (fst e)); cbn [map sumv]; ring. Qed.

Lemma vsum_nil i : vsum i [] = v0.
Proof. reflexivity. Qed.

Lemma ins_vsum i (e : ent) l : vsum i (ins e l) = vadd (vsum i l) (if idx_eqb i (fst e) then snd e else v0).
Proof.
  induction l as [|f r IH]; cbn [ins_acc].
  - rewrite vsum_cons, vsum_nil. ring.
  - destruct (idx_eqb (fst e) (fst f)) eqn:E.
    + apply idx_eqb_spec in E. rewrite !vsum_cons. cbn [fst snd]. rewrite E. destruct (idx_eqb i (fst f)); ring.
    + destruct (idx_ltb (fst e) (fst f)); rewrite !vsum_cons; [ring|]. rewrite IH. ring.
Qed.

Lemma fold_ins_vsum i (es acc : list ent) :
  vsum i (fold_left (fun a e => ins e a) es acc) = vadd (vsum i acc) (vsum i es).
Proof.
  revert acc; induction es as [|e es IH]; intros acc; cbn [fold_left].
  - rewrite vsum_nil. ring.
  - rewrite IH, ins_vsum, vsum_cons. ring.
Qed.

Theorem uniq_acc_vsum i (es : list ent) : vsum i (uniq_acc vadd es) = vsum i es.
Proof. unfold uniq_acc. rewrite fold_ins_vsum, vsum_nil. ring. Qed.

Lemma vsum_notin i (l : list ent) : ~ In i (keys l) -> vsum i l = v0.
Proof.
  induction l as [|f r IH]; intros H; [reflexivity|]. rewrite vsum_cons. cbn [map In] in H.
  rewrite idx_eqb_neq by (intros ->; apply H; auto). rewrite IH by tauto. ring.
Qed.

Lemma vsum_in i v (l : list ent) : NoDup (keys l) -> In (i, v) l -> vsum i l = v.
Proof.
  induction l as [|f r IH]; intros Hn Hin; [contradiction|]. cbn [map] in Hn. inversion Hn as [|? ? Hf Hn']; subst.
  rewrite vsum_cons. destruct Hin as [->|Hin].
  - cbn [fst snd]. rewrite idx_eqb_refl, vsum_notin by auto. ring.
  - rewrite idx_eqb_neq, IH; auto; [ring|]. intros ->. apply Hf. now apply (in_map fst) in Hin.
Qed.

Lemma vsum_filter_nz i (l : list ent) : vsum i (filter (fun e => negb (isz (snd e))) l) = vsum i l.
Proof.
  induction l as [|f r IH]; [reflexivity|]. cbn [filter]. destruct (isz (snd f)) eqn:Z; cbn [negb].
  - rewrite vsum_cons, IH. apply isz_spec in Z. rewrite Z. destruct (idx_eqb i (fst f)); ring.
  - rewrite !vsum_cons, IH. reflexivity.
Qed.

(* coordinate list with distinct rows: last-write-wins reading = the sum reading *)
Lemma combine_fst_snd (l : list ent) : combine (map fst l) (map snd l) = l.
Proof. induction l as [|[a b] l IH]; cbn; auto. now rewrite IH. Qed.

Lemma last_match_vsum i (l : list ent) : NoDup (keys l) -> last_match i l v0 = vsum i l.
Proof.
  intros Hn. destruct (in_dec (list_eq_dec Nat.eq_dec) i (keys l)) as [Hin|Hout].
  - apply in_map_iff in Hin as ([j v] & E & Hin). cbn in E. subst j.
    rewrite (last_match_in i v l v0 Hn Hin). symmetry. now apply vsum_in.
  - rewrite vsum_notin by auto. apply last_match_notin. intros e He Hfe. apply Hout. rewrite <- Hfe. now apply in_map.
Qed.

(* ---------------- distinct input rows: only a reordering *)
Lemma ins_perm (e : ent) l : ~ In (fst e) (keys l) -> Permutation (ins e l) (e :: l).
Proof.
  induction l as [|f r IH]; intros H; cbn [ins_acc]; [reflexivity|]. cbn [map In] in H.
  rewrite idx_eqb_neq by (intros E; apply H; auto).
  destruct (idx_ltb (fst e) (fst f)); [reflexivity|]. rewrite IH by tauto. apply perm_swap.
Qed.

Lemma fold_ins_perm (es acc : list ent) : NoDup (keys es) -> (forall k, In k (keys es) -> ~ In k (keys acc)) ->
  Permutation (fold_left (fun a e => ins e a) es acc) (acc ++ es).
Proof.
  revert acc; induction es as [|e es IH]; intros acc Hn Hd; cbn [fold_left]; [now rewrite app_nil_r|].
  cbn [map] in Hn. inversion Hn as [|? ? He Hn']; subst.
  rewrite IH; auto.
  - rewrite (ins_perm e acc) by (apply Hd; cbn; auto). cbn [app]. apply Permutation_middle.
  - intros k Hk Hin. apply ins_keys in Hin as [->|Hin]; [contradiction|]. apply (Hd k); cbn; auto.
Qed.

Theorem uniq_acc_perm (es : list ent) : NoDup (keys es) -> Permutation (uniq_acc vadd es) es.
Proof. intros H. unfold uniq_acc. rewrite fold_ins_perm; auto. Qed.

(* ---------------- strictly sorted input: nothing moves *)
Lemma ins_last (e : ent) l : Forall (fun f => idx_ltb (fst f) (fst e) = true) l -> ins e l = l ++ [e].
Proof.
  induction l as [|f r IH]; intros H; cbn [ins_acc app]; auto. inversion H as [|? ? Hf Hr]; subst.
  assert (E : idx_eqb (fst e) (fst f) = false).
  { destruct (idx_eqb (fst e) (fst f)) eqn:E; auto. apply idx_eqb_spec in E. rewrite E, idx_ltb_irrefl in Hf. discriminate. }
  rewrite E, (idx_ltb_asym _ _ Hf), IH; auto.
Qed.

Lemma fold_ins_sorted_id (es acc : list ent) : ssorted (keys (acc ++ es)) ->
  fold_left (fun a e => ins e a) es acc = acc ++ es.
Proof.
  revert acc; induction es as [|e es IH]; intros acc Hs; cbn [fold_left]; [now rewrite app_nil_r|].
  rewrite ins_last.
  - rewrite IH; rewrite <- app_assoc; auto.
  - rewrite map_app in Hs. apply ssorted_app in Hs as (_ & _ & Hab). rewrite Forall_forall. intros f Hf.
    apply Hab; [now apply in_map|cbn; auto].
Qed.

Theorem uniq_acc_sorted_id (es : list ent) : ssorted (keys es) -> uniq_acc vadd es = es.
Proof. intros H. unfold uniq_acc. now rewrite fold_ins_sorted_id. Qed.

Lemma filter_all {A} (f : A -> bool) l : Forall (fun a => f a = true) l -> filter f l = l.
Proof. induction 1 as [|a l Ha _ IH]; cbn; auto. now rewrite Ha, IH. Qed.

(* ------------------------------------------------------------------ the normalisation of a sptenmat's triples *)
Notation stmn := (stm_norm vadd isz).
Definition stm_entries (M : sptenmat V) : list ent := combine (stm_subs M) (stm_vals M).

Lemma keys_combine (subs : list idx) (vals : list V) : length subs = length vals -> keys (combine subs vals) = subs.
Proof. revert vals; induction subs as [|i l IH]; intros [|v vs] H; cbn in *; try discriminate; auto. f_equal. apply IH. lia. Qed.

Lemma keys_filter_sub (f : ent -> bool) (l : list ent) k : In k (keys (filter f l)) -> In k (keys l).
Proof. intros H. apply in_map_iff in H as (e & <- & He). apply filter_In in He as [He _]. now apply in_map. Qed.

Lemma ssorted_keys_filter (f : ent -> bool) (l : list ent) : ssorted (keys l) -> ssorted (keys (filter f l)).
Proof.
  induction l as [|e r IH]; cbn; auto. intros [H1 H2]. destruct (f e); cbn; auto. split; auto.
  rewrite Forall_forall in *. intros j Hj. apply keys_filter_sub in Hj. auto.
Qed.

Theorem stm_norm_correct (M : sptenmat V) k : length (stm_subs M) = length (stm_vals M) ->
  Forall (fun rc => length rc = k) (stm_subs M) ->
  let M' := stmn M in
  stm_r M' = stm_r M /\ stm_c M' = stm_c M /\ stm_tshape M' = stm_tshape M /\
  length (stm_subs M') = length (stm_vals M') /\
  ssorted (stm_subs M') /\ NoDup (stm_subs M') /\
  Forall (fun v => isz v = false) (stm_vals M') /\
  (forall rc, In rc (stm_subs M') -> In rc (stm_subs M)) /\
  (forall rc, den_sp v0 (stm_sp M') rc = vsum rc (stm_entries M)) /\
  (NoDup (stm_subs M) -> Forall (fun v => isz v = false) (stm_vals M) ->
     Permutation (stm_entries M') (stm_entries M) /\ forall rc, den_sp v0 (stm_sp M') rc = den_sp v0 (stm_sp M) rc) /\
  (ssorted (stm_subs M) -> Forall (fun v => isz v = false) (stm_vals M) -> M' = M).
Proof.
  intros HL Hk M'. unfold M', stm_norm, norm_triples. cbn [stm_r stm_c stm_tshape stm_subs stm_vals].
  set (es := combine (stm_subs M) (stm_vals M)).
  assert (Hkeys : keys es = stm_subs M) by (now apply keys_combine).
  set (u := uniq_acc vadd es). set (fl := filter (fun e => negb (isz (snd e))) u).
  assert (Su : ssorted (keys u)) by (apply (uniq_acc_sorted k); now rewrite Hkeys).
  assert (Sf : ssorted (keys fl)) by (now apply ssorted_keys_filter).
  repeat (split; [reflexivity|]). split; [now rewrite !map_length|]. split; [exact Sf|]. split; [now apply ssorted_NoDup|].
  split; [|split; [|split; [|split]]].
  - rewrite Forall_forall. intros v Hv. apply in_map_iff in Hv as (e & <- & He). apply filter_In in He as [_ He].
    now apply negb_true_iff in He.
  - intros rc Hrc. apply keys_filter_sub in Hrc. apply (proj1 (uniq_acc_keys es rc)) in Hrc. rewrite <- Hkeys. exact Hrc.
  - intros rc. unfold den_sp, entries, stm_sp. cbn [ssubs svals stm_subs stm_vals]. rewrite combine_fst_snd.
    rewrite last_match_vsum by (now apply ssorted_NoDup). unfold fl. rewrite vsum_filter_nz. unfold u. apply uniq_acc_vsum.
  - intros Hn Hz.
    assert (Pu : Permutation u es) by (apply uniq_acc_perm; now rewrite Hkeys).
    assert (Hfl : fl = u).
    { apply filter_all. rewrite Forall_forall. intros [a b] He. apply negb_true_iff.
      eapply Permutation_in in He; [|exact Pu]. unfold es in He. apply in_combine_r in He.
      rewrite Forall_forall in Hz. cbn [snd]. auto. }
    split.
    + unfold stm_entries. cbn [stm_subs stm_vals]. rewrite combine_fst_snd, Hfl. exact Pu.
    + intros rc. unfold den_sp, entries, stm_sp. cbn [ssubs svals stm_subs stm_vals]. rewrite combine_fst_snd.
      rewrite last_match_vsum by (now apply ssorted_NoDup). fold es.
      rewrite last_match_vsum by (now rewrite Hkeys). unfold fl. rewrite vsum_filter_nz. unfold u. apply uniq_acc_vsum.
  - intros Hs Hz.
    assert (Hu : u = es) by (apply uniq_acc_sorted_id; now rewrite Hkeys).
    assert (Hfl : fl = es).
    { unfold fl. rewrite Hu. apply filter_all. rewrite Forall_forall. intros [a b] He. apply negb_true_iff.
      unfold es in He. apply in_combine_r in He. rewrite Forall_forall in Hz. cbn [snd]. auto. }
    rewrite Hfl. destruct M as [subs vals r c ts]. cbn [stm_subs stm_vals stm_r stm_c stm_tshape] in *. f_equal.
    + exact Hkeys.
    + unfold es. clear -HL. revert vals HL; induction subs as [|i l IH]; intros [|v vs] H; cbn in *; try discriminate; auto.
      f_equal. apply IH. lia.
Qed.

End Uniq.
