(* Proofs/C02IndicatorProofs.v — the defining sum of ttv as ONE sum over all subscripts of the operand with an indicator:
     spec_ttv f s dims vs i' = Σ_{a in allsubs s} f a * [a agrees with i' on the remaining modes] * Π_k vs_k[a[dims_k]]
   and, from it, sptensor.ttv over several modes at once (gather, scale, project, accumulate) = spec_ttv on the array the
   sptensor denotes, for all shapes, stored orders and values of a commutative ring. *)
From Coq Require Import List Arith Lia Bool Permutation Ring.
From PV Require Import Base.Index Base.Perm Base.Sum Np.Array Model.Sparse Model.Repr Model.C02Spec Model.C02Dense Model.C02Sparse
                       Model.C02SpKernels Model.C02SpMore Proofs.C02DenseProofs Proofs.C02SparseProofs Proofs.C02MttkrpProofs Proofs.C02ModesProofs
                       Proofs.C02TenmatProofs Proofs.C02PermProofs.
Import ListNotations.

(* a and j agree on every position below N that is not one of the modes *)
Definition agree (N : nat) (modes : list nat) (a j : idx) : bool :=
  forallb (fun q => existsb (Nat.eqb q) modes || Nat.eqb (nth q a 0) (nth q j 0)) (seq 0 N).

Lemma c02_forallb_ext_in (f g : nat -> bool) l : (forall q, In q l -> f q = g q) -> forallb f l = forallb g l.
Proof. induction l as [|x l IH]; intros H; [reflexivity|]. cbn [forallb]. rewrite (H x) by (cbn; auto). rewrite IH; auto. intros; apply H; cbn; auto. Qed.

Lemma forallb_point (f g : nat -> bool) m c : forall l, NoDup l -> In m l ->
  (forall q, In q l -> q <> m -> f q = g q) -> g m = true -> f m = c ->
  forallb f l = forallb g l && c.
Proof.
  induction l as [|x l IH]; intros Hnd Hin Hne Hg Hf; [contradiction|].
  apply NoDup_cons_iff in Hnd as [Hx Hnd']. cbn [forallb]. destruct Hin as [->|Hin].
  - rewrite Hg, Hf. cbn [andb].
    assert (E : forallb f l = forallb g l).
    { apply c02_forallb_ext_in. intros q Hq. apply Hne; [cbn; auto|]. intros ->. contradiction. }
    rewrite E. apply andb_comm.
  - rewrite (Hne x) by (cbn; auto; intros ->; contradiction).
    rewrite (IH Hnd' Hin) by (auto; intros; apply Hne; cbn; auto). now rewrite andb_assoc.
Qed.

Lemma existsb_eqb_in q l : existsb (Nat.eqb q) l = true <-> In q l.
Proof.
  rewrite existsb_exists. split.
  - intros (x & Hx & E). apply Nat.eqb_eq in E. now subst.
  - intros H. exists q. split; auto. apply Nat.eqb_refl.
Qed.

Lemma existsb_eqb_notin q l : ~ In q l -> existsb (Nat.eqb q) l = false.
Proof. intros H. destruct (existsb (Nat.eqb q) l) eqn:E; auto. apply existsb_eqb_in in E. contradiction. Qed.

Lemma agree_upd N m r a j k : m < N -> ~ In m r -> length j = N ->
  agree N r a (upd j m k) = agree N (m :: r) a j && Nat.eqb (nth m a 0) k.
Proof.
  intros Hm Hnin HL. unfold agree. apply (forallb_point _ _ m).
  - apply seq_NoDup.
  - apply in_seq. lia.
  - intros q _ Hq. cbn [existsb]. rewrite nth_upd_ne by exact Hq.
    destruct (Nat.eqb_spec q m); [contradiction|]. reflexivity.
  - cbn [existsb]. now rewrite Nat.eqb_refl.
  - rewrite existsb_eqb_notin by exact Hnin. cbn [orb].
    rewrite nth_upd by lia. now rewrite Nat.eqb_refl.
Qed.

Lemma agree_nil N a j : length a = N -> length j = N -> (agree N [] a j = true <-> a = j).
Proof.
  intros Ha Hj. unfold agree. rewrite forallb_forall. split.
  - intros H. apply (nth_ext _ _ 0 0); [lia|]. intros q Hq.
    specialize (H q ltac:(apply in_seq; lia)). cbn in H. now apply Nat.eqb_eq in H.
  - intros -> q _. cbn. apply Nat.eqb_refl.
Qed.

(* agreement outside dims = equality of the projections onto the remaining modes *)
Lemma agree_pick N dims a j : agree N dims a j = idx_eqb (pick 0 (compl N dims) a) (pick 0 (compl N dims) j).
Proof.
  unfold agree, compl, pick. induction (seq 0 N) as [|q l IH]; [reflexivity|].
  cbn [forallb filter]. destruct (existsb (Nat.eqb q) dims); cbn [negb orb map idx_eqb]; now rewrite IH.
Qed.

Section P.
Variable V : Type.
Variables (v0 v1 : V) (vadd vmul vsub : V -> V -> V) (vopp : V -> V).
Hypothesis Vring : ring_theory v0 v1 vadd vmul vsub vopp (@eq V).
Add Ring Vr9 : Vring.
Variable isz : V -> bool.

Local Notation "x + y" := (vadd x y).
Local Notation "x * y" := (vmul x y).
Local Notation Sn := (sum_n v0 vadd).
Local Notation So := (sum_over v0 vadd).
Local Notation sat := (sum_at V v0 vadd vmul).
Local Notation pp := (pprod v0 v1 vmul).

Lemma sum_n_single' n x (A : nat -> V) : x < n -> Sn n (fun y => if Nat.eqb x y then A y else v0) = A x.
Proof.
  intros H. unfold sum_n. rewrite (sum_over_single _ _ _ _ _ _ _ Vring (seq 0 n) x).
  - now rewrite Nat.eqb_refl.
  - apply seq_NoDup.
  - apply in_seq. lia.
  - intros a _ Ha. destruct (Nat.eqb_spec x a); [congruence|reflexivity].
Qed.

Lemma sum_at_indicator (f : idx -> V) s : forall pairs j,
  NoDup (map fst pairs) -> (forall m, In m (map fst pairs) -> m < length s) -> length j = length s ->
  (forall q, q < length s -> ~ In q (map fst pairs) -> nth q j 0 < nth q s 0) ->
  sat s pairs j f =
  So (allsubs s) (fun a => f a * (if agree (length s) (map fst pairs) a j then pp pairs a else v0)).
Proof.
  induction pairs as [|[m v] r IH]; intros j Hnd Hr HL Hb.
  - cbn [sum_at map pprod].
    assert (Hin : inb s j = true).
    { apply c02_inb_nth. split; [exact HL|]. intros k Hk. apply Hb; auto. }
    rewrite (sum_over_single _ _ _ _ _ _ _ Vring (allsubs s) j).
    + rewrite (proj2 (agree_nil (length s) j j HL HL) eq_refl). ring.
    + apply allsubs_NoDup.
    + now apply in_allsubs.
    + intros a Ha Hne. apply in_allsubs, inb_length in Ha.
      destruct (agree (length s) [] a j) eqn:E; [|ring].
      apply (agree_nil (length s) a j Ha HL) in E. contradiction.
  - cbn [map fst] in *. inversion Hnd as [|? ? Hm Hnd']; subst.
    assert (HmN : m < length s) by (apply Hr; cbn; auto).
    cbn [sum_at].
    transitivity (Sn (nth m s 0) (fun k => So (allsubs s)
                    (fun a => f a * (if agree (length s) (map fst r) a (upd j m k) then pp r a else v0) * nth k v v0))).
    { apply sum_n_ext. intros k Hk. rewrite IH; auto.
      - now rewrite (sum_over_scale_r _ _ _ _ _ _ _ Vring).
      - intros x Hx. apply Hr. cbn; auto.
      - now rewrite upd_length.
      - intros q Hq Hnq. destruct (Nat.eq_dec q m) as [->|Hqm].
        + rewrite nth_upd by lia. now rewrite Nat.eqb_refl.
        + rewrite nth_upd_ne by exact Hqm. apply Hb; auto. intros [E|E]; [congruence|contradiction]. }
    unfold sum_n. rewrite (sum_over_swap _ _ _ _ _ _ _ Vring).
    apply sum_over_ext. intros a Ha. apply in_allsubs in Ha.
    assert (Ham : nth m a 0 < nth m s 0) by (apply c02_inb_nth in Ha as [_ Hk]; now apply Hk).
    fold (Sn (nth m s 0) (fun k => f a * (if agree (length s) (map fst r) a (upd j m k) then pp r a else v0) * nth k v v0)).
    transitivity (Sn (nth m s 0) (fun k => if Nat.eqb (nth m a 0) k then
                    (fun k' => f a * (if agree (length s) (m :: map fst r) a j then pp r a else v0) * nth k' v v0) k else v0)).
    { apply sum_n_ext. intros k Hk. rewrite (agree_upd (length s) m (map fst r) a j k HmN Hm HL).
      destruct (agree (length s) (m :: map fst r) a j); destruct (Nat.eqb (nth m a 0) k); cbn [andb]; ring. }
    rewrite sum_n_single' by exact Ham. cbn [pprod].
    destruct (agree (length s) (m :: map fst r) a j); ring.
Qed.

(* the base subscript of spec_ttv_as_sum_at projects onto i' *)
Lemma base_idx_facts s dims (i' : idx) :
  is_perm (compl (length s) dims ++ dims) (length s) -> inb (pick 0 (compl (length s) dims) s) i' = true ->
  let j0 := unpick (compl (length s) dims ++ dims) (i' ++ repeat 0 (length dims)) in
  length j0 = length s /\ pick 0 (compl (length s) dims) j0 = i' /\
  (forall q, q < length s -> ~ In q dims -> nth q j0 0 < nth q s 0).
Proof.
  intros Hp Hi. set (rem := compl (length s) dims) in *. set (p := rem ++ dims) in *. cbn zeta.
  set (x := i' ++ repeat 0 (length dims)).
  pose proof (is_perm_length _ _ Hp) as HpL.
  assert (HLi : length i' = length rem) by (apply inb_length in Hi; now rewrite pick_length in Hi).
  assert (HLx : length x = length s).
  { unfold x. rewrite app_length, repeat_length, HLi. unfold p in HpL. now rewrite app_length in HpL. }
  assert (HL0 : length (unpick p x) = length s) by (unfold unpick; now rewrite pick_length, invperm_length).
  assert (Hpk : pick 0 p (unpick p x) = x) by (unfold unpick; now apply (pick_pick_invperm 0 p (length s))).
  assert (Hrem : pick 0 rem (unpick p x) = i').
  { unfold p in Hpk at 1. rewrite c02_pick_app in Hpk. unfold x in Hpk.
    apply app_inv_len in Hpk; [tauto|]. now rewrite pick_length. }
  split; [exact HL0|]. split; [exact Hrem|].
  intros q Hq Hnq.
  assert (Hqr : In q rem).
  { unfold rem, compl. apply filter_In. split; [apply in_seq; lia|]. now rewrite existsb_eqb_notin. }
  apply In_nth with (d := 0) in Hqr as (t & Ht & <-).
  apply c02_inb_nth in Hi as [_ Hk]. rewrite pick_length in Hk. specialize (Hk t Ht).
  rewrite <- Hrem in Hk at 1. rewrite !nth_pick in Hk by exact Ht. exact Hk.
Qed.

(* ---- the defining sum of ttv as one sum over all subscripts ---- *)
Theorem spec_ttv_indicator (f : idx -> V) s dims vs i' :
  NoDup dims -> (forall x, In x dims -> x < length s) -> length vs = length dims ->
  inb (ttv_shape s dims) i' = true ->
  spec_ttv v0 vadd vmul f s dims vs i' =
  So (allsubs s) (fun a => f a * (if idx_eqb (pick 0 (compl (length s) dims) a) i' then pp (combine dims vs) a else v0)).
Proof.
  intros Hnd Hr HL Hi. unfold ttv_shape in Hi.
  pose proof (compl_perm (length s) dims Hnd Hr) as Hp.
  destruct (base_idx_facts s dims i' Hp Hi) as (L0 & P0 & B0). cbn zeta in *.
  rewrite (spec_ttv_as_sum_at V v0 vadd vmul); auto.
  2:{ apply inb_length in Hi. now rewrite pick_length in Hi. }
  rewrite sum_at_indicator; rewrite ?map_fst_combine by exact HL; auto.
  apply sum_over_ext. intros a _. now rewrite agree_pick, P0.
Qed.

(* ---- sptensor.ttv over several modes at once ---- *)
Theorem impl_ttv_sp_correct (S : sparse V) dims vs i' : wf_sp isz S ->
  NoDup dims -> (forall x, In x dims -> x < length (sshape S)) -> length vs = length dims ->
  inb (ttv_shape (sshape S) dims) i' = true ->
  impl_ttv_sp v0 v1 vadd vmul S dims vs i' = spec_ttv v0 vadd vmul (den_sp v0 S) (sshape S) dims vs i'.
Proof.
  intros W Hnd Hr HL Hi. rewrite spec_ttv_indicator by assumption.
  rewrite (sparse_sum V v0 v1 vadd vmul vsub vopp Vring isz S _ W).
  unfold impl_ttv_sp. apply sum_over_ext. intros e _.
  destruct (idx_eqb (pick 0 (compl (length (sshape S)) dims) (fst e)) i'); ring.
Qed.

End P.
