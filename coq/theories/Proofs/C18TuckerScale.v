(* Proofs/C18TuckerScale.v — C18 "scaling the data by a positive constant scales the Tucker model and leaves the fit unchanged" for the
   WHOLE main loop of tucker_als on dense real arrays (concrete mode update and core of Proofs/C18TuckerPerm.v, fit from sums of
   squares, stopping test, iteration count): the contracts upd_scale / A_lin / innerF_smul of the abstract C18_tucker_als_loop_scale
   discharged.  The eigen step is an oracle with the homogeneity contract eig n (k G) = eig n G (eigenvectors of k G are those of G). *)
From Coq Require Import List Arith Lia Bool Reals Lra Ring RealField.
From PV Require Import Base.Index Base.Perm Base.Sum Np.Array Np.NpR Model.Sparse Model.Repr Model.C10Tucker Model.C14Nvecs
                       Proofs.C10Proofs Proofs.C18Tucker Proofs.C18TuckerPerm Proofs.C18HosvdRel Proofs.C18TuckerLoop Proofs.C18HosvdScale.
Import ListNotations.
Local Open Scope R_scope.

Lemma mttm_ext dims U ms : forall (Y1 Y2 : idx -> R) j, (forall i, Y1 i = Y2 i) ->
  mttm_den R 0 Rplus Rmult dims U ms Y1 j = mttm_den R 0 Rplus Rmult dims U ms Y2 j.
Proof. induction ms as [|m ms IH]; intros Y1 Y2 j H; [apply H|]. rewrite !mttm_cons. apply IH. intros i. now apply ttmd_ext. Qed.

Lemma utilde_dscale c s U n X j : dshape X = s -> utilde_den R 0 Rplus Rmult s U n (dscale c X) j = c * utilde_den R 0 Rplus Rmult s U n X j.
Proof.
  intros HX. unfold utilde_den. rewrite <- mttm_scale. apply mttm_ext. intros i. apply den_dscale.
Qed.

Lemma gram_matrix_scale c st (Y1 Y2 : idx -> R) n : (forall j, Y1 j = c * Y2 j) ->
  gram_matrix 0 Rplus Rmult st Y1 n = mscale (c * c) (gram_matrix 0 Rplus Rmult st Y2 n).
Proof.
  intros H. unfold gram_matrix, mscale, mtab. rewrite map_map. apply map_ext. intros a. rewrite map_map. apply map_ext. intros b.
  unfold gram_spec. rewrite <- (sum_over_scale_l R 0 1 Rplus Rmult Rminus Ropp RTheory).
  apply sum_over_ext. intros i _. rewrite !H. ring.
Qed.

Section Scale.
Variables (s rk : list nat) (eig : nat -> rmatrix -> rmatrix) (dimorder : list nat) (X : dense R) (stoptol c : R).
Hypothesis HX : dshape X = s.
Hypothesis cpos : 0 < c.
Hypothesis Xnz : 0 < dinnerR X X.                                            (* normX > 0 *)
Hypothesis eig_hom : forall n G, eig n (mscale (c * c) G) = eig n G.

(* upd_scale *)
Lemma updR_scale n U : updR s rk eig n U (dscale c X) = updR s rk eig n U X.
Proof.
  unfold updR, upd_c. f_equal.
  rewrite (gram_matrix_scale c _ _ (utilde_den R 0 Rplus Rmult s U n X)) by (intros j; now apply utilde_dscale).
  apply eig_hom.
Qed.

(* A_lin *)
Lemma coreR_scale U : coreR s rk U (dscale c X) = dscale c (coreR s rk U X).
Proof.
  unfold coreR, core_c. unfold dscale at 2. rewrite dshape_tabulate.
  apply tabulate_ext. intros i Hi. rewrite den_tabulate by exact Hi.
  rewrite <- mttm_scale. apply mttm_ext. intros j. apply den_dscale.
Qed.

Lemma sweep_scale_dense U : sweep (dense R) (list rmatrix) (updR s rk eig) dimorder U (dscale c X)
                          = sweep (dense R) (list rmatrix) (updR s rk eig) dimorder U X.
Proof.
  unfold sweep. revert U. induction dimorder as [|n ms IH]; intros U; cbn [fold_left]; [reflexivity|]. rewrite updR_scale. apply IH.
Qed.

Lemma dinnerR_dscale Y : dinnerR (dscale c Y) (dscale c Y) = c * c * dinnerR Y Y.
Proof. exact (normsq_dscale c Y). Qed.

Local Notation LOOP := (als_loop (dense R) dinnerR (list rmatrix) (dense R) (coreR s rk) dinnerR (updR s rk eig) stoptol dimorder).

(* tucker_als(c X) performs the same number of iterations, reports the same fit and returns the same factor matrices; its core is c
   times the core (so the Tucker model is scaled by c) *)
Theorem tucker_als_loop_scale_dense (maxiters : nat) : forall (U : list rmatrix) (fit0 : R),
  let r := LOOP maxiters U fit0 X in
  let r' := LOOP maxiters U fit0 (dscale c X) in
  fst (fst r') = fst (fst r) /\ snd (fst r') = snd (fst r) /\ snd r' = snd r /\
  coreR s rk (fst (fst r')) (dscale c X) = dscale c (coreR s rk (fst (fst r)) X).
Proof.
  induction maxiters as [|k IH]; intros U fit0; cbv zeta; cbn [als_loop].
  - cbn [fst snd]. repeat split. apply coreR_scale.
  - rewrite sweep_scale_dense, coreR_scale.
    set (U1 := sweep (dense R) (list rmatrix) (updR s rk eig) dimorder U X).
    assert (Hfit : fit_of (dense R) dinnerR (dense R) dinnerR (dscale c X) (dscale c (coreR s rk U1 X))
                   = fit_of (dense R) dinnerR (dense R) dinnerR X (coreR s rk U1 X)).
    { unfold fit_of, resid2, nrm2. apply (tucker_fit_scale c (dinnerR X X) (dinnerR (coreR s rk U1 X) (coreR s rk U1 X))); auto;
        apply dinnerR_dscale. }
    rewrite Hfit. destruct (Rltb _ stoptol).
    + cbn [fst snd]. repeat split. apply coreR_scale.
    + specialize (IH U1 (fit_of (dense R) dinnerR (dense R) dinnerR X (coreR s rk U1 X))). cbv zeta in IH.
      destruct IH as (I1 & I2 & I3 & I4). cbn [fst snd]. repeat split; congruence.
Qed.
End Scale.

(* ---------- non-vacuity of the hypotheses: 2 x 3 x 2 data, c = 4, an eigen step that ignores the magnitude of G (sign pattern) ---------- *)
Module C18TuckerScaleExample.
Definition Xr := mkDense [2; 3; 2]%nat [1; 2; 3; 4; 5; 6; 7; 8; 9; 10; 11; 13].
Definition eigs_sign (n : nat) (G : rmatrix) : rmatrix := map (map (fun x => if Rltb 0 x then 1 else 0)) G.
Lemma eigs_sign_hom n G : eigs_sign n (mscale (4 * 4) G) = eigs_sign n G.
Proof.
  unfold eigs_sign, mscale. rewrite map_map. apply map_ext. intros row. rewrite map_map. apply map_ext. intros x.
  unfold Rltb. destruct (Rlt_dec 0 (4 * 4 * x)), (Rlt_dec 0 x); try reflexivity; exfalso; nra.
Qed.
Example tucker_scale_example : forall (U : list rmatrix) (maxiters : nat),
  let r := als_loop (dense R) dinnerR (list rmatrix) (dense R) (coreR [2; 3; 2]%nat [2; 2; 1]%nat) dinnerR
                    (updR [2; 3; 2]%nat [2; 2; 1]%nat eigs_sign) (1 / 10) [1; 0; 2]%nat maxiters U 0 Xr in
  let r' := als_loop (dense R) dinnerR (list rmatrix) (dense R) (coreR [2; 3; 2]%nat [2; 2; 1]%nat) dinnerR
                    (updR [2; 3; 2]%nat [2; 2; 1]%nat eigs_sign) (1 / 10) [1; 0; 2]%nat maxiters U 0 (dscale 4 Xr) in
  fst (fst r') = fst (fst r) /\ snd (fst r') = snd (fst r) /\ snd r' = snd r.
Proof.
  intros U maxiters. cbv zeta.
  assert (Hnz : 0 < dinnerR Xr Xr).
  { unfold dinnerR, Xr, sum_over. cbn. lra. }
  destruct (tucker_als_loop_scale_dense [2; 3; 2]%nat [2; 2; 1]%nat eigs_sign [1; 0; 2]%nat Xr (1 / 10) 4 eq_refl ltac:(lra) Hnz
              eigs_sign_hom maxiters U 0) as (H1 & H2 & H3 & _).
  auto.
Qed.
End C18TuckerScaleExample.
