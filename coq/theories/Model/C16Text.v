(* Model/C16Text.v — from the CHARACTERS of a file to the token stream of Model/C16Lines.v.
   A file is cut into atoms: the white-space characters blank, CR, LF one by one, and the maximal pieces free of white space
   (each classified as word / integer text / number text by the harness); tab / VT / FF are the atom AOws (below).
   import_data opens the file with newline="\n" (/repo a0b5a3f, repairing finding C16-N3): LF alone ends a line, a CR is an
   ordinary white-space character of the line it stands in — exactly like tab / VT / FF (below): the CR of a CR LF line end
   is dropped by strip() with the other white space at the end of the line, a lone CR (old Mac line ends) does NOT end a
   line.  It reads header and sparse-entry lines with   fp.readline().strip().split(" ")
       strip():     white space (and the line break) at both ends of the line is dropped
       split(" "):  the pieces between SINGLE blanks; k adjacent blanks inside the line give k-1 empty pieces, and int("") /
                    float("") / np.int64("") raise — the GAP marker [Word ""]: unreadable where an integer, a subscript or a
                    value is expected on such a line, not a type word, ignored where the rest of a line is ignored
     values with    np.fromfile(fp, count, sep=" "), for which any run of white space (gaps and line breaks) is a separator.
   [lex] is that tokenisation as one pass over the atoms.
   Definitions only. *)
From Coq Require Import String.
From Coq Require Import List Arith ZArith Lia Bool.
From PV Require Import Base.Index Np.Array Model.Sparse Model.Repr Model.C16IO Model.C16Lines.
Import ListNotations.

Section X.
Variables (D T : Type) (d0 : D) (parse : T -> D) (ofZ : Z -> D).
Notation token := (token T).
Notation line := (list token).

(* AOws: one of the OTHER white-space characters tab / VT / FF; ACR (carriage return) is read in exactly the same way
   everywhere ([cr_ows], Proofs/C16Text.v lex_cr_ows) and is kept as an atom of its own only to spell CR LF line ends.  strip() drops them at both ends of a line like blanks;
   split(" ") does NOT cut at them: inside a line they stay in the piece.  int() / np.int64() / float() ignore white space at
   both ends of the text they are given, so an integer or number text with such characters attached is read as if they were
   not there ("2 \t3" = 2, 3); a piece holding nothing else is unreadable ("2 \t 3"), a piece holding two texts joined by
   them is unreadable as ONE item ("2\t3"), and the type word is compared as it stands ("tensor\t x" is not "tensor").
   np.fromfile treats them as white space between values ("1.5\t2.5" = two values).
   One token stream serves both ways of reading: an unreadable piece is announced by the gap marker standing BEFORE its
   first text (and before each further text of the piece) — unreadable for every readline() site, which looks at whole
   items, skipped as white space by np.fromfile, which then finds the texts one by one. *)
Inductive atom := ABlank | ACR | ALF | ATok (t : token) | AOws.
Definition gap : option token := Some (Word EmptyString).

(* look-ahead on the rest of the line *)
Fixpoint has_tok (r : list atom) : bool :=         (* a piece follows before the line ends *)
  match r with ABlank :: r' | AOws :: r' | ACR :: r' => has_tok r' | ATok _ :: _ => true | _ => false end.
Fixpoint after_ows (r : list atom) : bool :=       (* tab / VT / FF only, then a text: the same piece goes on *)
  match r with AOws :: r' | ACR :: r' => after_ows r' | ATok _ :: _ => true | _ => false end.
Definition is_word (t : token) : bool := match t with Word _ => true | _ => false end.
(* the piece that starts with text t is unreadable as one item: another text is joined to it by tab / VT / FF, or t is a
   word with such a character attached inside the line (only the type word is ever compared) *)
Definition marked (t : token) (r : list atom) : bool :=
  match r with AOws :: r' | ACR :: r' => if is_word t then has_tok r' else after_ows r' | _ => false end.

(* started: a piece has been seen on the current line; pend: blanks seen since the last text *)
Fixpoint lex_aux (started : bool) (pend : nat) (a : list atom) : stream T :=
  match a with
  | [] => []
  | ABlank :: r => lex_aux started (if started then S pend else 0) r
  | AOws :: r | ACR :: r => lex_aux started pend r
  | ATok t :: r =>
      (if started then
         match pend with
         | O => [gap]                                                (* joined to the previous text: same piece *)
         | S k => repeat gap k ++ (if marked t r then [gap] else [])  (* k empty / white-space-only pieces in between *)
         end
       else if marked t r then [gap] else []) ++ Some t :: lex_aux true 0 r
  | ALF :: r => None :: lex_aux false 0 r
  end.
Definition lex (a : list atom) : stream T := lex_aux false 0 a.

(* every CR replaced by a tab *)
Definition cr_ows (a : atom) : atom := match a with ACR => AOws | _ => a end.

(* import_data(filename, index_base = b) on the characters of the file *)
Definition import_text (b : Z) (a : list atom) : option (obj D) := import_stream D T d0 parse ofZ b (lex a).

(* ---- how a file may be WRITTEN: every line with its own leading / trailing blanks and its own line end ---- *)
Inductive eol := LF | CRLF.
Record style := mkStyle { lead : nat; trail : nat; brk : eol }.
Definition eol_atoms (e : eol) : list atom := match e with LF => [ALF] | CRLF => [ACR; ALF] end.
Fixpoint join_toks (l : line) : list atom :=
  match l with
  | [] => []
  | [t] => [ATok t]
  | t :: r => ATok t :: ABlank :: join_toks r
  end.
Definition render_line (ls : line * style) : list atom :=
  repeat ABlank (lead (snd ls)) ++ join_toks (fst ls) ++ repeat ABlank (trail (snd ls)) ++ eol_atoms (brk (snd ls)).
Definition render (f : list (line * style)) : list atom := flat_map render_line f.
(* what export_data writes: no extra blanks, LF *)
Definition plain : style := mkStyle 0 0 LF.
Definition render_plain (f : list line) : list atom := render (map (fun l => (l, plain)) f).

(* ---- the same with tab / VT / FF among the padding: true = blank, false = one of the other white-space characters ---- *)
Record wstyle := mkWstyle { wlead : list bool; wtrail : list bool; wbrk : eol }.
Definition ws_atoms (w : list bool) : list atom := map (fun b : bool => if b then ABlank else AOws) w.
Definition render_line_ws (ls : line * wstyle) : list atom :=
  ws_atoms (wlead (snd ls)) ++ join_toks (fst ls) ++ ws_atoms (wtrail (snd ls)) ++ eol_atoms (wbrk (snd ls)).
Definition render_ws (f : list (line * wstyle)) : list atom := flat_map render_line_ws f.
End X.

Arguments ABlank {T}.
Arguments ACR {T}.
Arguments ALF {T}.
Arguments ATok {T} t.
Arguments AOws {T}.
