(* Model/C01W5Sum.v — fifth wave: HISTORIES of a sumtensor before it is converted (pyttb/sumtensor.py):
       sumtensor(parts, copy)      assert all(parts[0].shape == p.shape for p in parts[1:]); keeps (a deep copy of) the list
       S + p, p + S                sumtensor(S.parts + [p], copy=False)        (__radd__ = __add__: the part is APPENDED either way)
       S + [p, q], [p, q] + S      sumtensor(S.parts + [p, q], copy=False)
       -S                          sumtensor([-part for part in S.parts], copy=False)   with, class by class,
                                   -tensor = tensor(-1 * data), -sptensor = sptensor(subs, -1 * vals, shape),
                                   -ktensor = ktensor(factor_matrices, -weights), -ttensor = ttensor(-core, factor_matrices)
       +S, S.copy()                sumtensor(S.parts, copy=True)
   followed by full() as executed (Model/C01W4.v sum_full_code). Definitions only; proofs in Proofs/C01W5Sum.v. *)
From Coq Require Import List Arith Lia Bool.
From PV Require Import Base.Index Base.Perm Base.Sum Np.Array Model.Sparse Model.Repr Model.C07Ops Model.C01Conv Model.C01Unique
  Model.C01Coo Model.C02Spec Model.C02Dense Model.C01Ttm Model.C01W3 Model.C01W4.
Import ListNotations.

Section W5Sum.
Context {V : Type} (v0 v1 : V) (vadd vmul : V -> V -> V) (vopp : V -> V) (isz : V -> bool).

Definition neg_dense (T : dense V) : dense V := mkDense (dshape T) (map vopp (ddata T)).
Definition neg_sparse (G : sparse V) : sparse V := mkSp (sshape G) (ssubs G) (map vopp (svals G)).
(* -part, by the part's own class *)
Definition neg_part (p : part4 V) : part4 V :=
  match p with
  | QD T => QD (neg_dense T)
  | QS Sp => QS (neg_sparse Sp)
  | QK K => QK (mkK (map vopp (kweights K)) (kfactors K))
  | QT T => QT (mkT (neg_dense (tcore T)) (tfactors T))
  | QTS G Us => QTS (neg_sparse G) Us
  end.

(* part.shape *)
Definition part4_shape (p : part4 V) : shape :=
  match p with
  | QD T => dshape T | QS Sp => sshape Sp | QK K => kshape K | QT T => tshape T
  | QTS G Us => map (nrows (V:=V)) Us
  end.

(* the constructor's shape assertion *)
Definition sum_ctor (ps : list (part4 V)) : option (list (part4 V)) :=
  match ps with
  | [] => Some []
  | p :: rest => if forallb (fun q => shape_eqb (part4_shape p) (part4_shape q)) rest then Some ps else None
  end.

Inductive sop := OAdd (p : part4 V) | OAddList (ps : list (part4 V)) | ONeg | OCopy.

Definition sop_step (st : list (part4 V)) (o : sop) : option (list (part4 V)) :=
  match o with
  | OAdd p => sum_ctor (st ++ [p])
  | OAddList ps => sum_ctor (st ++ ps)
  | ONeg => sum_ctor (map neg_part st)
  | OCopy => sum_ctor st
  end.

Fixpoint run_history (st : list (part4 V)) (ops : list sop) : option (list (part4 V)) :=
  match ops with
  | [] => Some st
  | o :: ops' => match sop_step st o with Some st' => run_history st' ops' | None => None end
  end.

(* sumtensor(parts).<history>.full() *)
Definition sum_history_full (parts : list (part4 V)) (ops : list sop) : option (dense V) :=
  match sum_ctor parts with
  | Some st => match run_history st ops with Some st' => sum_full_code v0 vadd vmul isz st' | None => None end
  | None => None
  end.

(* what a part denotes, and the value the history must produce at subscript i from the value x of the initial sum *)
Definition part4_den (p : part4 V) : idx -> V := part_den v0 v1 vadd vmul (part4_spec v0 p).
Fixpoint hist_val (x : V) (ops : list sop) (i : idx) : V :=
  match ops with
  | [] => x
  | o :: ops' =>
      hist_val (match o with
                | OAdd p => vadd x (part4_den p i)
                | OAddList ps => vadd x (den_sum v0 vadd (map part4_den ps) i)
                | ONeg => vopp x
                | OCopy => x
                end) ops' i
  end.

End W5Sum.

Arguments sop V : clear implicits.
Arguments OAdd {V} p. Arguments OAddList {V} ps. Arguments ONeg {V}. Arguments OCopy {V}.
