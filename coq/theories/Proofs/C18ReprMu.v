(* Proofs/C18ReprMu.v — C18, clause "the same model whether the data are supplied as a dense or as a sparse tensor", for
   cp_apr with multiplicative updates (tt_cp_apr_mu), on the numerical model of C11 (Model/C11Apr.v: outer loop, mode loop with the
   inadmissible-zero repair, redistribute, inner loop with KKT test and break, normalize(normtype=1, mode=n); Model/C11Sparse.v: the
   sparse branch of calculate_pi / calculate_phi with one Pi row per STORED nonzero and the accumarray over the mode-n subscripts).

   The only place where tt_cp_apr_mu looks at the data holder is calculate_pi / calculate_phi (cp_apr.py: `if isinstance(Data,
   ttb.sptensor)` branches), so the loop is written once, generic in the function [phi : mode -> state -> matrix] that produces
   Phi[n]; the dense instance is definitionally the C11 model ([muG_dense]), the sparse instance [cp_apr_mu_sp] uses
   calc_phi_sp_code.  Proved (value-generic: any commutative ring, any oracles for division / scaling / abs / min / max /
   comparisons, any shape, order, rank, stored order of the nonzeros, any maxiters / maxinneriters):

     cp_apr_mu_sp S K maxiters = cp_apr_mu X K maxiters        (final state: weights, factors, Phi, per-mode KKT, converged flag;
                                                                 and the KKT trace = number of outer iterations performed)

   whenever the dense holder X and the well-formed sparse holder S denote the same array, the guess K has the shape of the data and
   the division oracle maps a zero count to zero (0 / max(v, eps) = 0).  The invariant carried through all loops is "factor n keeps
   shape[n] rows" (what C11_phi_sparse needs to read row A_n[xsubs[k], :]). *)
From Coq Require Import List Arith Lia Bool ZArith Ring.
From PV Require Import Base.Index Base.Sum Np.Array Model.Sparse Model.Repr Model.C14Nvecs Model.C11Apr Model.C11Sparse
                       Proofs.C11Pairing Proofs.C18Print.
Import ListNotations.

Section ReprMu.
Variable V : Type.
Variables (v0 v1 : V) (vadd vmul vsub : V -> V -> V) (vopp : V -> V).
Hypothesis Vring : ring_theory v0 v1 vadd vmul vsub vopp (@eq V).
(* oracles of Model/C11Apr.v *)
Variables (vdivmax vscale : V -> V -> V) (vabs : V -> V) (vmin vmax : V -> V -> V) (vgt0 : V -> bool) (vltb : V -> V -> bool).
Variables (kappa kappatol stoptol : V) (maxinner : nat).
Variable isz : V -> bool.
Notation matrix := (list (list V)).
Notation state := (@state V).
Notation mg := (mget v0).

(* ------------------------------------------------------------------------------------------------ the loop, generic in Phi *)
Section Generic.
Variable phi : nat -> state -> matrix.      (* Phi[n] = calculate_phi(Data, M, rank, n, Pi, epsDivZero) with Pi = calculate_pi(...) *)

Fixpoint innerG (fuel : nat) (n : nat) (st : state) : state :=
  match fuel with
  | O => st
  | S f =>
      let A := fac st n in
      let Phi := phi n st in
      let kkt := kkt_mode v0 v1 vsub vabs vmin vmax A Phi (rankof st) in
      let st1 := mkSt (sw st) (sA st) (upd (sPhi st) n Phi) (upd (skkt st) n kkt) (sconv st) in
      if vltb kkt stoptol then st1
      else innerG f n (mkSt (sw st1) (upd (sA st1) n (mtab (length A) (rankof st) (fun a r => vmul (mg A a r) (mg Phi a r))))
                            (sPhi st1) (skkt st1) false)
  end.

Definition mode_stepG (iter n : nat) (st : state) : state :=
  let st1 := match iter with O => st | _ => kappa_fix v0 vadd vgt0 vltb kappa kappatol n st end in
  normalize_mode v0 vadd vmul vscale vabs n (innerG maxinner n (redistribute v0 v1 vmul n st1)).

Definition sweepG (iter : nat) (st : state) : state :=
  fold_left (fun s n => mode_stepG iter n s) (seq 0 (length (sA st)))
            (mkSt (sw st) (sA st) (sPhi st) (skkt st) true).

Fixpoint outerG (fuel : nat) (iter : nat) (st : state) (kkts : list V) : state * list V :=
  match fuel with
  | O => (st, kkts)
  | S f =>
      let st' := sweepG iter st in
      let kkts' := kkts ++ [maxlist v0 vmax (skkt st')] in
      if sconv st' then (st', kkts') else outerG f (S iter) st' kkts'
  end.

Definition cp_apr_muG (K : ktensor V) (maxiters : nat) : state * list V :=
  outerG maxiters 0 (init_state v0 vadd vmul vscale vabs K) [].
End Generic.

(* the dense instance IS the C11 model *)
Lemma innerG_dense (X : dense V) fuel : forall n st,
  innerG (fun n st => calc_phi v0 v1 vadd vmul vdivmax X n st) fuel n st =
  inner v0 v1 vadd vmul vsub vdivmax vabs vmin vmax vltb stoptol fuel X n st.
Proof. induction fuel as [|f IH]; intros n st; cbn [innerG inner]; [reflexivity|]. destruct (vltb _ stoptol); [reflexivity|apply IH]. Qed.

Lemma muG_dense (X : dense V) (K : ktensor V) (maxiters : nat) :
  cp_apr_muG (fun n st => calc_phi v0 v1 vadd vmul vdivmax X n st) K maxiters =
  cp_apr_mu v0 v1 vadd vmul vsub vdivmax vscale vabs vmin vmax vgt0 vltb kappa kappatol stoptol maxinner X K maxiters.
Proof.
  unfold cp_apr_muG, cp_apr_mu. generalize (init_state v0 vadd vmul vscale vabs K). generalize (@nil V). generalize 0.
  induction maxiters as [|f IH]; intros it kk st; cbn [outerG outer]; [reflexivity|].
  assert (E : sweepG (fun n st => calc_phi v0 v1 vadd vmul vdivmax X n st) it st =
              sweep v0 v1 vadd vmul vsub vdivmax vscale vabs vmin vmax vgt0 vltb kappa kappatol stoptol maxinner X it st).
  { unfold sweepG, sweep. generalize (mkSt (sw st) (sA st) (sPhi st) (skkt st) true). generalize (seq 0 (length (sA st))).
    intros l; induction l as [|n l IHl]; intros s; cbn [fold_left]; [reflexivity|].
    rewrite <- IHl. f_equal. unfold mode_stepG, mode_step. now rewrite innerG_dense. }
  rewrite E. destruct (sconv _); [reflexivity|apply IH].
Qed.

(* the sparse instance: tt_cp_apr_mu on an sptensor *)
Definition cp_apr_mu_sp (S : sparse V) (K : ktensor V) (maxiters : nat) : state * list V :=
  cp_apr_muG (fun n st => calc_phi_sp_code v0 v1 vadd vmul vdivmax S n st) K maxiters.

(* ------------------------------------------------------------------------------------------------ the row-count invariant *)
Definition rows_of (st : state) : list nat := map (@length (list V)) (sA st).

Lemma map_length_upd' (l : list matrix) : forall n (A' : matrix),
  length A' = length (nth n l []) -> map (@length (list V)) (upd l n A') = map (@length (list V)) l.
Proof. induction l as [|x l IH]; intros [|n] A' H; cbn in *; auto; [now rewrite H|now rewrite IH]. Qed.

Lemma mtab_len m k (f : nat -> nat -> V) : length (mtab m k f) = m.
Proof. unfold mtab. now rewrite map_length, seq_length. Qed.

Lemma rows_redistribute n st : rows_of (redistribute v0 v1 vmul n st) = rows_of st.
Proof. unfold rows_of, redistribute, fac. cbn. apply map_length_upd'. now rewrite mtab_len. Qed.

Lemma rows_normalize n st : rows_of (normalize_mode v0 vadd vmul vscale vabs n st) = rows_of st.
Proof. unfold rows_of, normalize_mode, fac. cbn. apply map_length_upd'. now rewrite mtab_len. Qed.

Lemma rows_kappa n st : rows_of (kappa_fix v0 vadd vgt0 vltb kappa kappatol n st) = rows_of st.
Proof. unfold rows_of, kappa_fix, set_fac, fac. cbn. apply map_length_upd'. now rewrite mtab_len. Qed.

Lemma rows_innerG phi fuel : forall n st, rows_of (innerG phi fuel n st) = rows_of st.
Proof.
  induction fuel as [|f IH]; intros n st; cbn [innerG]; [reflexivity|].
  destruct (vltb _ stoptol); [reflexivity|]. rewrite IH. unfold rows_of, fac. cbn. apply map_length_upd'. now rewrite mtab_len.
Qed.

Lemma rows_mode_step phi iter n st : rows_of (mode_stepG phi iter n st) = rows_of st.
Proof. unfold mode_stepG. rewrite rows_normalize, rows_innerG, rows_redistribute. destruct iter; [reflexivity|apply rows_kappa]. Qed.

Lemma rows_fac st n : length (fac st n) = nth n (rows_of st) 0.
Proof. unfold rows_of, fac. change 0 with (length (@nil (list V))). now rewrite map_nth. Qed.

Lemma rows_init (K : ktensor V) : rows_of (init_state v0 vadd vmul vscale vabs K) = kshape K.
Proof.
  unfold init_state.
  set (s0 := mkSt _ _ _ _ _).
  assert (H0 : rows_of s0 = kshape K) by reflexivity. clearbody s0. revert s0 H0.
  generalize (seq 0 (length (kfactors K))). intros l; induction l as [|n l IH]; intros s H; cbn [fold_left]; [exact H|].
  apply IH. now rewrite rows_normalize.
Qed.

(* ------------------------------------------------------------------------------------------------ agreement of the two loops *)
Section Agree.
Variables (phi1 phi2 : nat -> state -> matrix) (shp : list nat).
Hypothesis phi_agree : forall n st, n < length shp -> rows_of st = shp -> phi1 n st = phi2 n st.

Lemma innerG_agree fuel : forall n st, n < length shp -> rows_of st = shp -> innerG phi1 fuel n st = innerG phi2 fuel n st.
Proof.
  induction fuel as [|f IH]; intros n st Hn Hr; cbn [innerG]; [reflexivity|].
  rewrite (phi_agree n st Hn Hr). destruct (vltb _ stoptol); [reflexivity|]. apply IH; [exact Hn|].
  rewrite <- Hr. unfold rows_of, fac. cbn. apply map_length_upd'. now rewrite mtab_len.
Qed.

Lemma mode_stepG_agree iter n st : n < length shp -> rows_of st = shp -> mode_stepG phi1 iter n st = mode_stepG phi2 iter n st.
Proof.
  intros Hn Hr. unfold mode_stepG. f_equal. apply innerG_agree; [exact Hn|].
  rewrite rows_redistribute. destruct iter; [exact Hr|now rewrite rows_kappa].
Qed.

Lemma sweepG_agree iter st : rows_of st = shp -> sweepG phi1 iter st = sweepG phi2 iter st.
Proof.
  intros Hr. unfold sweepG.
  assert (HL : length (sA st) = length shp) by (rewrite <- Hr; unfold rows_of; now rewrite map_length).
  rewrite HL.
  set (s0 := mkSt (sw st) (sA st) (sPhi st) (skkt st) true).
  assert (H0 : rows_of s0 = shp) by exact Hr. clearbody s0. revert s0 H0.
  assert (Hall : forall n, In n (seq 0 (length shp)) -> n < length shp) by (intros n Hin; apply in_seq in Hin; lia).
  revert Hall. generalize (seq 0 (length shp)). intros l; induction l as [|n l IH]; intros Hall s H; cbn [fold_left]; [reflexivity|].
  rewrite (mode_stepG_agree iter n s (Hall n (or_introl eq_refl)) H).
  apply IH; [intros m Hm; apply Hall; now right|]. now rewrite rows_mode_step.
Qed.

Lemma rows_sweepG phi iter st : rows_of (sweepG phi iter st) = rows_of st.
Proof.
  unfold sweepG. set (s0 := mkSt (sw st) (sA st) (sPhi st) (skkt st) true).
  assert (H0 : rows_of s0 = rows_of st) by reflexivity. clearbody s0. revert s0 H0.
  generalize (seq 0 (length (sA st))). intros l; induction l as [|n l IH]; intros s H; cbn [fold_left]; [exact H|].
  apply IH. now rewrite rows_mode_step.
Qed.

Lemma outerG_agree fuel : forall iter st kk, rows_of st = shp -> outerG phi1 fuel iter st kk = outerG phi2 fuel iter st kk.
Proof.
  induction fuel as [|f IH]; intros iter st kk Hr; cbn [outerG]; [reflexivity|].
  rewrite (sweepG_agree iter st Hr). destruct (sconv _); [reflexivity|]. apply IH. now rewrite rows_sweepG.
Qed.
End Agree.

Lemma mtab_ext_in (m k : nat) (f g : nat -> nat -> V) :
  (forall a b, a < m -> b < k -> f a b = g a b) -> mtab m k f = mtab m k g.
Proof.
  intros H. unfold mtab. apply map_ext_in. intros a Ha. apply in_seq in Ha. apply map_ext_in. intros b Hb. apply in_seq in Hb.
  apply H; lia.
Qed.

(* Phi[n] of the sparse branch = Phi[n] of the dense branch, as matrices, on every state whose factor n has shape[n] rows *)
Lemma phi_sp_dense (S : sparse V) (X : dense V) (n : nat) (st : state) :
  wf_sp isz S -> dshape X = sshape S -> (forall i, den_dense v0 X i = den_sp v0 S i) -> (forall v, vdivmax v0 v = v0) ->
  n < length (sshape S) -> rows_of st = sshape S ->
  calc_phi_sp_code v0 v1 vadd vmul vdivmax S n st = calc_phi v0 v1 vadd vmul vdivmax X n st.
Proof.
  intros W Hs Hden Hdiv Hn Hr.
  assert (HA : length (fac st n) = nth n (sshape S) 0) by (rewrite rows_fac; now rewrite Hr).
  pose proof (fun a r (Ha : a < length (fac st n)) (Hrk : r < rankof st) =>
                calc_phi_sp_correct V v0 v1 vadd vmul vsub vopp Vring vdivmax isz S X n st a r W Hn Hs Hden Hdiv Ha HA Hrk) as E.
  rewrite (calc_phi_sp_code_eq V v0 v1 vadd vmul vdivmax).
  unfold calc_phi_sp, calc_phi in *. apply mtab_ext_in. intros a r Ha Hrk.
  specialize (E a r Ha Hrk). rewrite !(c11_mget_mtab V v0) in E by assumption. exact E.
Qed.


(* ------------------------------------------------------------------------------------------------ the print driver on this model *)
(* Proofs/C18Print.v transliterates the DRIVER of tt_cp_apr_mu (statement by statement, with the print events, the inner-iteration
   and violation counters, the epilogue) over abstract oracles.  Here its oracles are instantiated with the numerical operations of
   the C11 model (St = state; isConverged is the driver's own flag, the driver operations leave the state's flag alone) and the
   driver is proved to compute exactly what the model loop [cp_apr_muG phi] computes - so C18_print_cp_apr_mu and
   C18_repr_cp_apr_mu speak about the same object. *)
Section Driver.
Variable phi : nat -> state -> matrix.
Definition setc (c : bool) (st : state) : state := mkSt (sw st) (sA st) (sPhi st) (skkt st) c.
Hypothesis phi_conv : forall n c st, phi n (setc c st) = phi n st.      (* Phi does not look at the convergence flag *)

(* V = (Phi[n] > 0) & (M[n] < kappatol);  any(V) *)
Definition kappa_any (n : nat) (st : state) : bool :=
  let A := fac st n in let Phi := nth n (sPhi st) [] in
  existsb (fun b : bool => b)
    (concat (mtab (length A) (rankof st) (fun a r => vgt0 (mget v0 Phi a r) && vltb (mget v0 A a r) kappatol))).
Definition d_fixslack (iteration n : nat) (st : state) : state * bool :=
  match iteration with O => (st, false) | S _ => (kappa_fix v0 vadd vgt0 vltb kappa kappatol n st, kappa_any n st) end.
Definition d_calc_phi (n : nat) (_ : unit) (st : state) : state * V :=
  let Phi := phi n st in
  let kkt := kkt_mode v0 v1 vsub vabs vmin vmax (fac st n) Phi (rankof st) in
  (mkSt (sw st) (sA st) (upd (sPhi st) n Phi) (upd (skkt st) n kkt) (sconv st), kkt).
Definition d_mulupd (n : nat) (st : state) : state :=
  let A := fac st n in let Phi := nth n (sPhi st) [] in
  mkSt (sw st) (upd (sA st) n (mtab (length A) (rankof st) (fun a r => vmul (mg A a r) (mg Phi a r)))) (sPhi st) (skkt st) (sconv st).
Definition d_redist := redistribute v0 v1 vmul (V:=V).
Definition d_renorm := normalize_mode v0 vadd vmul vscale vabs (V:=V).
Definition d_kktmax (st : state) : V := maxlist v0 vmax (skkt st).

Variables (printitn printinneritn : Z) (N : nat).
Variables (finish : state -> state) (loglik : state -> state * V) (lsfit : state -> V).
Local Notation DINNER := (mu_inner_loop state unit V d_calc_phi d_mulupd vltb stoptol printinneritn).
Local Notation DMODES := (mu_modes state unit V d_fixslack d_redist (fun _ _ => tt) d_calc_phi d_mulupd d_renorm vltb stoptol maxinner
                                   printinneritn).
Local Notation DOUTER := (mu_outer state unit V N d_fixslack d_redist (fun _ _ => tt) d_calc_phi d_mulupd d_renorm d_kktmax vltb stoptol
                                   maxinner (fun _ => false) printitn printinneritn).
Local Notation DRUN := (mu_run state unit V N d_fixslack d_redist (fun _ _ => tt) d_calc_phi d_mulupd d_renorm d_kktmax vltb stoptol
                               maxinner (fun _ => false) finish loglik lsfit printitn printinneritn).

Lemma setc_eta (st : state) : setc (sconv st) st = st.
Proof. now destruct st. Qed.

Lemma inner_bridge rem : forall i n s conv cnt, n < length (sPhi s) ->
  let r := DINNER rem i n tt s conv cnt in
  setc (snd (fst (fst r))) (fst (fst (fst r))) = innerG phi rem n (setc conv s) /\
  sconv (fst (fst (fst r))) = sconv s /\ length (sPhi (fst (fst (fst r)))) = length (sPhi s).
Proof.
  induction rem as [|rem IH]; intros i n s conv cnt Hn; cbn [mu_inner_loop innerG]; [cbn; auto|].
  rewrite phi_conv. cbn [d_calc_phi fst snd]. change (fac (setc conv s) n) with (fac s n). change (rankof (setc conv s)) with (rankof s).
  destruct (vltb _ stoptol).
  - cbn [fst snd]. split; [reflexivity|]. split; [reflexivity|]. cbn [sPhi]. now rewrite upd_length.
  - set (s1 := mkSt (sw s) (sA s) (upd (sPhi s) n (phi n s)) (upd (skkt s) n _) (sconv s)).
    assert (Hn1 : n < length (sPhi (d_mulupd n s1))) by (cbn [d_mulupd sPhi s1]; now rewrite upd_length).
    specialize (IH (S i) n (d_mulupd n s1) false (S cnt) Hn1).
    destruct (DINNER rem (S i) n tt (d_mulupd n s1) false (S cnt)) as [[[a b] c] d]. cbn [fst snd] in IH |- *.
    destruct IH as (I1 & I2 & I3). split; [|split].
    + rewrite I1. f_equal. unfold d_mulupd, setc, s1, fac. cbn [sw sA sPhi skkt sconv].
      rewrite nth_upd by exact Hn. now rewrite Nat.eqb_refl.
    + rewrite I2. reflexivity.
    + rewrite I3. cbn [d_mulupd sPhi s1]. now rewrite upd_length.
Qed.

Lemma lenPhi_kappa n st : length (sPhi (kappa_fix v0 vadd vgt0 vltb kappa kappatol n st)) = length (sPhi st).
Proof. reflexivity. Qed.

Lemma modes_bridge it modes : forall s conv cnt nviol, (forall n, In n modes -> n < length (sPhi s)) ->
  let r := DMODES it modes s conv cnt nviol in
  setc (snd (fst (fst (fst r)))) (fst (fst (fst (fst r)))) = fold_left (fun s n => mode_stepG phi it n s) modes (setc conv s) /\
  sconv (fst (fst (fst (fst r)))) = sconv s /\ length (sPhi (fst (fst (fst (fst r))))) = length (sPhi s).
Proof.
  induction modes as [|n ms IH]; intros s conv cnt nviol Hm; cbn [mu_modes fold_left]; [cbn; auto|].
  set (s1 := fst (d_fixslack it n s)).
  assert (E1 : sconv s1 = sconv s /\ length (sPhi s1) = length (sPhi s)) by (unfold s1, d_fixslack; destruct it; cbn; auto).
  assert (E2 : redistribute v0 v1 vmul n (match it with O => setc conv s | S _ => kappa_fix v0 vadd vgt0 vltb kappa kappatol n (setc conv s) end)
               = setc conv (d_redist n s1)) by (unfold s1, d_fixslack; destruct it; reflexivity).
  assert (Hn : n < length (sPhi (d_redist n s1))).
  { unfold d_redist, redistribute. cbn [sPhi]. destruct E1 as [_ ->]. apply Hm. now left. }
  pose proof (inner_bridge maxinner 0 n (d_redist n s1) conv cnt Hn) as IB. cbv zeta in IB.
  destruct (DINNER maxinner 0 n tt (d_redist n s1) conv cnt) as [[[s3 c3] n3] l3]. cbn [fst snd] in IB.
  destruct IB as (B1 & B2 & B3).
  assert (Hms : forall m, In m ms -> m < length (sPhi (d_renorm n s3))).
  { intros m Hin. unfold d_renorm, normalize_mode. cbn [sPhi]. rewrite B3. unfold d_redist, redistribute. cbn [sPhi].
    destruct E1 as [_ ->]. apply Hm. now right. }
  specialize (IH (d_renorm n s3) c3 n3 (if snd (d_fixslack it n s) then S nviol else nviol) Hms).
  destruct (DMODES it ms (d_renorm n s3) c3 n3 _) as [[[[s5 c5] n5] v5] l5]. cbn [fst snd] in IH |- *.
  destruct IH as (I1 & I2 & I3). split; [|split].
  - rewrite I1. f_equal. unfold mode_stepG. rewrite E2, <- B1. reflexivity.
  - rewrite I2. unfold d_renorm, normalize_mode. cbn [sconv]. rewrite B2. unfold d_redist, redistribute. cbn [sconv]. apply E1.
  - rewrite I3. unfold d_renorm, normalize_mode. cbn [sPhi]. rewrite B3. unfold d_redist, redistribute. cbn [sPhi]. apply E1.
Qed.

Lemma outerG_setc fuel : forall k c s kk,
  setc true (fst (outerG phi fuel k (setc c s) kk)) = setc true (fst (outerG phi fuel k s kk)) /\
  snd (outerG phi fuel k (setc c s) kk) = snd (outerG phi fuel k s kk).
Proof. destruct fuel as [|f]; intros k c s kk; cbn [outerG]; [split; reflexivity|]. change (sweepG phi k (setc c s)) with (sweepG phi k s). split; reflexivity. Qed.

Lemma outer_bridge rem : forall k s kk ii vv, length (sA s) = N -> length (sPhi s) = N ->
  let r := DOUTER rem k s kk ii vv in
  setc true (fst (fst (fst (fst r)))) = setc true (fst (outerG phi rem k s kk)) /\
  snd (fst (fst (fst r))) = snd (outerG phi rem k s kk) /\
  sconv (fst (fst (fst (fst r)))) = sconv s.
Proof.
  induction rem as [|rem IH]; intros k s kk ii vv HA HP; cbn [mu_outer outerG]; [cbn; auto|].
  assert (Hm : forall n, In n (seq 0 N) -> n < length (sPhi s)) by (intros n Hin; apply in_seq in Hin; lia).
  pose proof (modes_bridge k (seq 0 N) s true 0 0 Hm) as MB. cbv zeta in MB.
  destruct (DMODES k (seq 0 N) s true 0 0) as [[[[s1 c1] n1] w1] l1]. cbn [fst snd] in MB. destruct MB as (M1 & M2 & M3).
  assert (SW : sweepG phi k s = setc c1 s1) by (unfold sweepG; rewrite HA; symmetry; exact M1).
  rewrite SW. change (skkt (setc c1 s1)) with (skkt s1). change (sconv (setc c1 s1)) with c1.
  change (maxlist v0 vmax (skkt s1)) with (d_kktmax s1).
  destruct c1.
  - cbn [fst snd]. split; [reflexivity|]. split; [reflexivity|exact M2].
  - assert (HA1 : length (sA s1) = N).
    { change (sA s1) with (sA (setc false s1)). rewrite <- SW.
      pose proof (rows_sweepG phi k s) as Hr. unfold rows_of in Hr. apply (f_equal (@length nat)) in Hr. rewrite !map_length in Hr. lia. }
    assert (HP1 : length (sPhi s1) = N) by lia.
    specialize (IH (S k) s1 (kk ++ [d_kktmax s1]) (ii ++ [n1]) (vv ++ [w1]) HA1 HP1). cbv zeta in IH.
    destruct (DOUTER rem (S k) s1 _ _ _) as [[[[s2 k2] i2] v2] l2]. cbn [fst snd] in IH |- *.
    destruct IH as (I1 & I2 & I3).
    destruct (outerG_setc rem (S k) false s1 (kk ++ [d_kktmax s1])) as (O1 & O2).
    split; [|split]; [rewrite I1; symmetry; exact O1|rewrite I2; symmetry; exact O2|congruence].
Qed.

(* the driver, instantiated with the numerical operations, computes the model loop: final weights, factors, Phi and per-mode KKT
   values (the state up to its convergence flag, which the driver keeps in a variable of its own) and the KKT trace *)
Theorem mu_driver_is_model (K : ktensor V) (maxiters : nat) :
  length (kfactors K) = N ->
  let s0 := init_state v0 vadd vmul vscale vabs K in
  let r := DOUTER maxiters 0 s0 [] [] [] in
  setc true (fst (fst (fst (fst r)))) = setc true (fst (cp_apr_muG phi K maxiters)) /\
  snd (fst (fst (fst r))) = snd (cp_apr_muG phi K maxiters) /\
  sconv (fst (fst (fst (fst r)))) = sconv s0.
Proof.
  intros HN. cbv zeta. unfold cp_apr_muG. apply outer_bridge.
  - pose proof (rows_init K) as Hr. unfold rows_of, kshape, nrows in Hr. apply (f_equal (@length nat)) in Hr. rewrite !map_length in Hr. lia.
  - unfold init_state. set (s0 := mkSt _ _ _ _ _).
    assert (H0 : length (sPhi s0) = N) by (unfold s0; cbn [sPhi]; now rewrite map_length). clearbody s0. revert s0 H0.
    generalize (seq 0 (length (kfactors K))). intros l; induction l as [|n l IHl]; intros s H; cbn [fold_left]; [exact H|].
    apply IHl. exact H.
Qed.

(* the whole driver run (header, outer loop, epilogue: finish = M.normalize(sort=True, normtype=1), loglik = tt_loglikelihood) *)
Definition mu_driver (K : ktensor V) (maxiters : nat) := DRUN maxiters (init_state v0 vadd vmul vscale vabs K).

Lemma mu_driver_fst (K : ktensor V) (maxiters : nat) :
  let r := DOUTER maxiters 0 (init_state v0 vadd vmul vscale vabs K) [] [] [] in
  let s1 := fst (fst (fst (fst r))) in
  mu_model _ _ (fst (mu_driver K maxiters)) = fst (loglik (finish s1)) /\
  mu_kkt _ _ (fst (mu_driver K maxiters)) = snd (fst (fst (fst r))) /\
  mu_obj _ _ (fst (mu_driver K maxiters)) = snd (loglik (finish s1)).
Proof.
  cbv zeta. unfold mu_driver, mu_run.
  destruct (DOUTER maxiters 0 (init_state v0 vadd vmul vscale vabs K) [] [] []) as [[[[s1 kk] ii] vv] l1]. cbn. auto.
Qed.
Lemma sconv_init (K : ktensor V) : sconv (init_state v0 vadd vmul vscale vabs K) = true.
Proof.
  unfold init_state. set (s0 := mkSt _ _ _ _ _). assert (H0 : sconv s0 = true) by reflexivity. clearbody s0. revert s0 H0.
  generalize (seq 0 (length (kfactors K))). intros l; induction l as [|n l IHl]; intros s H; cbn [fold_left]; [exact H|].
  apply IHl. exact H.
Qed.

(* the whole driver run in terms of the model loop: what cp_apr returns is the epilogue applied to the model loop's final state
   (weights, factors, Phi, per-mode KKT; the state's own flag stays at its initial value True), output["kktViolations"] is the model
   loop's KKT trace *)
Theorem mu_driver_model (K : ktensor V) (maxiters : nat) :
  length (kfactors K) = N ->
  let m := cp_apr_muG phi K maxiters in
  let s1 := setc true (fst m) in
  mu_model _ _ (fst (mu_driver K maxiters)) = fst (loglik (finish s1)) /\
  mu_kkt _ _ (fst (mu_driver K maxiters)) = snd m /\
  mu_obj _ _ (fst (mu_driver K maxiters)) = snd (loglik (finish s1)).
Proof.
  intros HN. cbv zeta.
  destruct (mu_driver_fst K maxiters) as (A1 & A2 & A3).
  destruct (mu_driver_is_model K maxiters HN) as (M1 & M2 & M3). cbv zeta in M1, M2, M3.
  rewrite sconv_init in M3.
  rewrite A1, A2, A3, M2, <- M1.
  match goal with |- context [finish ?a] => 
    assert (Ea : a = setc true a) by (rewrite <- (setc_eta a) at 1; now rewrite M3) end.
  rewrite <- Ea. auto.
Qed.
End Driver.

(* ------------------------------------------------------------------------------------------------ the theorem *)
Theorem cp_apr_mu_repr (S : sparse V) (X : dense V) (K : ktensor V) (maxiters : nat) :
  wf_sp isz S -> dshape X = sshape S -> (forall i, den_dense v0 X i = den_sp v0 S i) ->
  (forall v, vdivmax v0 v = v0) -> kshape K = sshape S ->
  cp_apr_mu_sp S K maxiters =
  cp_apr_mu v0 v1 vadd vmul vsub vdivmax vscale vabs vmin vmax vgt0 vltb kappa kappatol stoptol maxinner X K maxiters.
Proof.
  intros W Hs Hden Hdiv HK. rewrite <- muG_dense. unfold cp_apr_mu_sp, cp_apr_muG.
  apply (outerG_agree _ _ (sshape S)).
  - intros n st Hn Hr. now apply phi_sp_dense.
  - now rewrite rows_init.
Qed.


(* the DRIVER on a sparse holder with printing settings (p1, q1) and on a dense holder with (p2, q2): same returned model, same KKT
   trace (hence the same number of outer iterations), same objective *)
Theorem mu_driver_repr_print (S : sparse V) (X : dense V) (K : ktensor V) (maxiters : nat) (p1 q1 p2 q2 : Z)
    (finish : state -> state) (loglik : state -> state * V) (lsfit : state -> V) :
  wf_sp isz S -> dshape X = sshape S -> (forall i, den_dense v0 X i = den_sp v0 S i) ->
  (forall v, vdivmax v0 v = v0) -> kshape K = sshape S ->
  let N := length (sshape S) in
  let r1 := fst (mu_driver (fun n st => calc_phi_sp_code v0 v1 vadd vmul vdivmax S n st) p1 q1 N finish loglik lsfit K maxiters) in
  let r2 := fst (mu_driver (fun n st => calc_phi v0 v1 vadd vmul vdivmax X n st) p2 q2 N finish loglik lsfit K maxiters) in
  mu_model _ _ r1 = mu_model _ _ r2 /\ mu_kkt _ _ r1 = mu_kkt _ _ r2 /\ mu_obj _ _ r1 = mu_obj _ _ r2.
Proof.
  intros W Hs Hden Hdiv HK. cbv zeta.
  assert (HN : length (kfactors K) = length (sshape S)) by (rewrite <- HK; unfold kshape; now rewrite map_length).
  set (phiS := fun n st => calc_phi_sp_code v0 v1 vadd vmul vdivmax S n st).
  set (phiX := fun n st => calc_phi v0 v1 vadd vmul vdivmax X n st).
  destruct (mu_driver_fst phiS p1 q1 (length (sshape S)) finish loglik lsfit K maxiters) as (A1 & A2 & A3).
  destruct (mu_driver_fst phiX p2 q2 (length (sshape S)) finish loglik lsfit K maxiters) as (B1 & B2 & B3).
  destruct (mu_driver_is_model phiS (fun n c st => eq_refl) p1 q1 (length (sshape S)) K maxiters HN) as (M1 & M2 & M3).
  destruct (mu_driver_is_model phiX (fun n c st => eq_refl) p2 q2 (length (sshape S)) K maxiters HN) as (D1 & D2 & D3).
  assert (E : cp_apr_muG phiS K maxiters = cp_apr_muG phiX K maxiters).
  { unfold phiX. rewrite muG_dense. now apply cp_apr_mu_repr. }
  rewrite E in M1, M2. rewrite <- D1 in M1. rewrite <- D2 in M2. rewrite <- D3 in M3.
  match type of M1 with setc true ?a = setc true ?b => assert (Eab : a = b) end.
  { match type of M1 with setc true ?a = setc true ?b =>
      rewrite <- (setc_eta a), <- (setc_eta b); rewrite M3;
      change (setc (sconv b) a) with (setc (sconv b) (setc true a)); rewrite M1; reflexivity end. }
  rewrite A1, A2, A3, B1, B2, B3, M2, Eab. auto.
Qed.

(* the dense holder obtained by S.full() / S.to_tensor() *)
Corollary cp_apr_mu_repr_full (S : sparse V) (K : ktensor V) (maxiters : nat) :
  wf_sp isz S -> (forall v, vdivmax v0 v = v0) -> kshape K = sshape S ->
  cp_apr_mu_sp S K maxiters =
  cp_apr_mu v0 v1 vadd vmul vsub vdivmax vscale vabs vmin vmax vgt0 vltb kappa kappatol stoptol maxinner (full v0 S) K maxiters.
Proof.
  intros W Hdiv HK. apply cp_apr_mu_repr; auto. intros i. apply den_full. now destruct W as (_ & _ & Hb & _).
Qed.

(* two sparse holders of the same array (any two stored orders of the nonzeros) run identically *)
Corollary cp_apr_mu_repr_orders (S1 S2 : sparse V) (K : ktensor V) (maxiters : nat) :
  wf_sp isz S1 -> wf_sp isz S2 -> sshape S1 = sshape S2 -> (forall i, den_sp v0 S1 i = den_sp v0 S2 i) ->
  (forall v, vdivmax v0 v = v0) -> kshape K = sshape S1 ->
  cp_apr_mu_sp S1 K maxiters = cp_apr_mu_sp S2 K maxiters.
Proof.
  intros W1 W2 Hs Hden Hdiv HK.
  rewrite (cp_apr_mu_repr_full S1 K maxiters W1 Hdiv HK).
  symmetry. apply cp_apr_mu_repr; auto.
  - intros i. rewrite <- Hden. apply den_full. now destruct W1 as (_ & _ & Hb & _).
  - congruence.
Qed.
End ReprMu.

(* ------------------------------------------------------------------------------------------------ non-vacuity: a concrete run over Z *)
Module C18ReprMuExample.
Local Open Scope Z_scope.
(* integer stand-ins for the oracles: x / max(v, 1) (floor), scaling = identity when the norm is <= 0 else a / t, comparisons of Z *)
Definition zdivmax (x v : Z) : Z := x / Z.max v 1.
Definition zscale (t a : Z) : Z := if 0 <? t then a / t else a.
Definition S_ex : sparse Z := mkSp [2; 3; 2]%nat [[1; 2; 0]; [0; 0; 1]; [1; 0; 0]; [0; 1; 1]]%nat [40; 24; 36; 60].
Definition K_ex : ktensor Z := mkK [1; 1] [[[2; 1]; [1; 3]]; [[1; 2]; [3; 1]; [2; 2]]; [[1; 1]; [2; 1]]].
Definition run_sp := cp_apr_mu_sp Z 0 1 Z.add Z.mul Z.sub zdivmax zscale Z.abs Z.min Z.max (fun x => 0 <? x) Z.ltb 1 1 0 3%nat S_ex K_ex 2%nat.
Definition run_de := cp_apr_mu 0 1 Z.add Z.mul Z.sub zdivmax zscale Z.abs Z.min Z.max (fun x => 0 <? x) Z.ltb 1 1 0 3%nat (full 0 S_ex) K_ex 2%nat.
Example repr_mu_example : run_sp = run_de /\ length (snd run_sp) = 2%nat /\ sA (fst run_sp) <> kfactors K_ex.
Proof. vm_compute. repeat split; discriminate. Qed.
(* the driver on the same instance: sparse holder with printitn = printinneritn = 1 vs dense holder silent - same model, KKT trace and
   objective; the first run prints (header, inner lines, iteration lines, final block), the second prints nothing *)
Definition drv (phi : nat -> @state Z -> list (list Z)) (p q : Z) :=
  mu_driver Z 0 1 Z.add Z.mul Z.sub zscale Z.abs Z.min Z.max (fun x => 0 <? x) Z.ltb 1 1 0 3%nat phi p q 3%nat
            (fun s => s) (fun s => (s, fold_right Z.add 0 (sw s))) (fun _ => 0) K_ex 2%nat.
Definition drv_sp := drv (fun n st => calc_phi_sp_code 0 1 Z.add Z.mul zdivmax S_ex n st) 1 1.
Definition drv_de := drv (fun n st => calc_phi 0 1 Z.add Z.mul zdivmax (full 0 S_ex) n st) 0 0.
Example driver_example :
  fst drv_sp = fst drv_de /\ snd drv_de = [] /\ (8 <= length (snd drv_sp))%nat /\
  mu_kkt _ _ (fst drv_sp) = snd run_de /\ sA (mu_model _ _ (fst drv_sp)) = sA (fst run_de).
Proof. vm_compute. repeat split; lia. Qed.
End C18ReprMuExample.
