(* Model/C03Chk.v — boolean checkers of the generated C03 correspondence cases (wave 3).
   Every sparse result of a C03 operation must be a faithful carrier of the array it denotes: structurally
   well-formed (one value per subscript row, no duplicate row, rows inside the shape) AND no explicitly stored
   zero (otherwise nnz / find() / every pattern-reading operation applied to the result differs from the dense
   computation), and it must denote the element-wise specification.  Two-step histories: the specification of
   `(A op1 R1) op2 R2` is the element-wise op2 on the element-wise op1.  Definitions only. *)
From Coq Require Import List ZArith Bool Arith QArith Qcanon.
From PV Require Import Base.Index Np.Array Model.Sparse Model.Harness Model.C03Ops.
Import ListNotations.

(* no stored value is zero *)
Definition znozero (S : sparse Z) : bool := forallb znz (svals S).
Definition xnozero (S : sparse xval) : bool := forallb (fun x => negb (xisz x)) (svals S).

(* full well-formedness + denotation (Z results) *)
Definition sp_denotes4 (S : sparse Z) (T : dense Z) : bool := sp_denotes3 S T && znozero S.
(* full well-formedness + denotation within 1e-9 (IEEE division results) *)
Definition xsp_denotes4 (S : sparse xval) (T : dense xval) : bool := xsp_denotes S T && xnozero S.

(* the first step's element-wise meaning as an array *)
Definition step1 (f1 : Z -> Z -> Z) (A : sparse Z) (r1 : rhs) : idx -> Z := zden (spec_ew f1 A r1).
(* (A op1 R1) op2 R2 *)
Definition spec_then (f1 f2 : Z -> Z -> Z) (A : sparse Z) (r1 r2 : rhs) : dense Z :=
  spec_dense2 f2 (sshape A) (step1 f1 A r1) (rden r2).
(* g (A op1 R1) for a unary g (neg, logical_not, ones) *)
Definition spec_then_un (f1 : Z -> Z -> Z) (g : Z -> Z) (A : sparse Z) (r1 : rhs) : dense Z :=
  spec_dense1 g (sshape A) (step1 f1 A r1).
(* (A op1 R1) / R2 *)
Definition spec_then_div (f1 : Z -> Z -> Z) (A : sparse Z) (r1 r2 : rhs) : dense xval :=
  spec_dense2 xdivz (sshape A) (step1 f1 A r1) (rden r2).

(* the raw stored lists of an operand after the operation are the ones it was built from *)
Definition sp_same (A B : sparse Z) : bool := sp_raw_eqb A B.
