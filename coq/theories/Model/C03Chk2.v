(* Model/C03Chk2.v — boolean checkers (wave 3b) that tie the transliterations OVER THE GENERATED HELPERS to pyttb list for list:
   pyttb's raw result (shape, stored subscript rows IN STORED ORDER, stored values) must be exactly what the transliterated
   algorithm returns on the literal operands.  Used for the code paths whose theorems are stated about the code as it is:
   sparse / sparse (impl_div_sparse_gen, open finding C03-N7), S != S2, S != T, S == T (Model/C03Gen2.v).  Definitions only. *)
From Coq Require Import List ZArith Bool Arith QArith Qcanon.
From PV Require Import Base.Index Np.NpZ Np.Array Gen.GenUtils Model.Sparse Model.Harness Model.C03Ops Model.C03Gen Model.C03Gen2 Model.C03Chk.
Import ListNotations.

Definition xsp_raw_close (O R : sparse xval) : bool :=
  nvec_eqb (sshape O) (sshape R) && nmat_eqb (ssubs O) (ssubs R) && list_eqb xclose (svals O) (svals R).

(* sparse / sparse: pyttb's enumeration of the shape is allsubsC (first mode slowest) *)
Definition div_model_ok (O : sparse xval) (A B : sparse Z) : bool :=
  match impl_div_sparse_gen 0%Z xdivz XNaN x0 (allsubsC (sshape A)) A B with
  | Ok R => xsp_raw_close O R
  | Err => false
  end.

Definition model_raw_ok (O : sparse Z) (M : res (sparse Z)) : bool :=
  match M with Ok R => sp_raw_eqb O R | Err => false end.

(* S != S2, S == T, S != T: the transliterations over the generated helpers (Model/C03Gen2.v) on the literal operands *)
Definition ne_sparse_model_ok (O A B : sparse Z) : bool := model_raw_ok O (impl_ne_sparse_gen 0%Z 1%Z Z.eqb A B).
Definition eq_dense_model_ok (O A : sparse Z) (T : dense Z) : bool := model_raw_ok O (impl_eq_dense_gen 0%Z zisz 1%Z Z.eqb A T).
Definition ne_dense_model_ok (O A : sparse Z) (T : dense Z) : bool :=
  model_raw_ok O (impl_ne_dense_gen 0%Z zisz 1%Z Z.eqb (allsubsC (sshape A)) A T).
