(* Proofs/C10GenStruct.v — wave 5: the STRUCTURAL CONTRACT of hosvd over the translator-GENERATED mode loop (Gen/GenHosvd.v) with real tensors:
   for given ranks within the mode sizes (0 = automatic), both truncation strategies and every mode order, under the per-run eigen-solver
   contract run_ok of Proofs/C10GenR.v: factor k is I_k x ranks'[k] with orthonormal columns, ranks'[k] is exactly the requested rank when one
   was given (and lies in 1..I_k otherwise), and for sequential truncation the returned core is X x_n U_n^T over all modes. *)
From Coq Require Import String List Arith Lia Bool ZArith Reals Lra Permutation.
From PV Require Import Base.Index Base.Sum Np.Array Np.NpR Model.Sparse Model.Repr Model.W4SPrelude Gen.GenHosvd Model.C10Tucker Model.C10Loop Model.C14Nvecs
                       Proofs.C10Ttm Proofs.C10Proofs Proofs.C10Spectral Proofs.C10Proj Proofs.C10ProjR Proofs.C10LoopProofs Proofs.C10Recon Proofs.C10Concrete
                       Proofs.C10Rayleigh Proofs.C10Isometry Proofs.C10Seq Proofs.W4SHosvd Proofs.W4SHosvdR Proofs.C10Gen Proofs.C10GenR Proofs.C10SeqCore.
Import ListNotations.

(* the rank rule's value is a column count of the spectrum it was computed from — whatever the values and the threshold *)
Lemma cumsum_from_length {V} (vadd : V -> V -> V) : forall l acc, length (cumsum_from vadd acc l) = length l.
Proof. induction l as [|x l IH]; intros acc; cbn; [reflexivity|]. now rewrite IH. Qed.

Lemma auto_rank_range {V} (v0 : V) vadd vltb (eig : list V) (t : V) r :
  auto_rank v0 vadd vltb eig t = Some r -> 0 < r <= length eig.
Proof.
  unfold auto_rank, last_above, last_opt, where_gt. intros H.
  destruct (rev (filter _ _)) as [|x l] eqn:E; [discriminate|]. inversion H. subst r.
  assert (Hin : In x (rev (filter (fun i => vltb t (nth i (eigsum v0 vadd eig) v0)) (seq 0 (length (eigsum v0 vadd eig)))))) by (rewrite E; now left).
  apply in_rev, filter_In in Hin. destruct Hin as (Hin & _). apply in_seq in Hin.
  unfold eigsum, np_cumsum in Hin. rewrite rev_length, cumsum_from_length, rev_length in Hin. lia.
Qed.

Lemma leading_orthoR I r (W : @matrix R) : r <= I -> orthocolsR I I W -> orthocolsR I r (leading R r W).
Proof.
  intros Hr Ho j l Hj Hl. rewrite <- (Ho j l ltac:(lia) ltac:(lia)). apply sum_n_ext. intros k _.
  now rewrite !(mget_leading R 0%R) by assumption.
Qed.

Section GenStruct.
Variable k_unfold : dense R -> nat -> @matrix R.
Variable k_gram : @matrix R -> @matrix R.
Variable k_eigh : @matrix R -> list R * @matrix R.
Variable k_argsort_desc : list R -> list nat.
Variable k_take : list R -> list nat -> list R.
Variable k_select_cols : @matrix R -> list nat -> @matrix R.
Variable k_shrink : dense R -> list (@matrix R) -> nat -> dense R.
Hypothesis shrink_reads_k : forall Y fm k U, nth_error fm k = Some U -> k_shrink Y fm k = shrink1R Y U k.

Notation spectrum := (mode_spectrum R (dense R) (@matrix R) k_unfold k_gram k_eigh k_argsort_desc k_take).
Notation specok := (spec_ok k_unfold k_gram k_eigh k_argsort_desc k_take k_select_cols).
Notation runok := (run_ok k_unfold k_gram k_eigh k_argsort_desc k_take k_select_cols).
Notation sh fm := (fun (Z : dense R) (j : nat) => shrink1R Z (nth j fm []) j).

Lemma seen_shape fm k : forall pre (X : dense R), ~ In k pre -> (forall j, In j pre -> j < length (dshape X)) ->
  length (dshape (fold_left (sh fm) pre X)) = length (dshape X) /\
  nth k (dshape (fold_left (sh fm) pre X)) 0 = nth k (dshape X) 0.
Proof.
  induction pre as [|j pre IH]; intros X Hk Hin; [split; reflexivity|]. cbn [fold_left].
  assert (Hj : j < length (dshape X)) by (apply Hin; now left).
  assert (L : length (dshape (shrink1R X (nth j fm []) j)) = length (dshape X)) by (unfold shrink1R; now apply (ndims_ttm R 0%R Rplus Rmult)).
  destruct (IH (shrink1R X (nth j fm []) j)) as (A & B).
  - intros C. apply Hk. now right.
  - intros i Hi. rewrite L. apply Hin. now right.
  - split; [now rewrite A|]. rewrite B. unfold shrink1R. apply (nth_dshape_ttm_other R 0%R Rplus Rmult); [exact Hj|].
    intros ->. apply Hk. now left.
Qed.

Lemma run_ok_at sq fm : forall pre k post (X : dense R), runok sq fm (pre ++ k :: post) X ->
  specok (if sq then fold_left (sh fm) pre X else X) k.
Proof.
  induction pre as [|j pre IH]; intros k post X H.
  - cbn [app run_ok] in H. destruct H as (H & _). destruct sq; exact H.
  - cbn [app run_ok] in H. destruct H as (_ & H). specialize (IH k post _ H). destruct sq; exact IH.
Qed.

Theorem gen_hosvd_structure (sq : bool) (X : dense R) (dimorder ranks : list nat) (t : R) (fm0 fm : list (@matrix R)) (ranks' : list nat)
    (Y' : dense R) :
  let s := dshape X in let d := length s in
  Permutation dimorder (seq 0 d) -> length ranks = d -> length fm0 = d ->
  (forall k, k < d -> nth k ranks 0 <= nth k s 0) ->
  GenHosvd.hosvd_modes R (dense R) (@matrix R) Rleb 0%R Rplus k_unfold k_gram k_eigh k_argsort_desc k_take k_select_cols k_shrink
    dimorder ranks t X fm0 sq = Some (fm, ranks', Y') ->
  runok sq fm dimorder X ->
  length fm = d /\
  (forall k, k < d ->
     let U := nth k fm [] in let r := nth k ranks' 0 in
     (nth k ranks 0 <> 0 -> r = nth k ranks 0) /\ 0 < r <= nth k s 0 /\
     nrows U = nth k s 0 /\ ncols U = r /\ orthocolsR (nth k s 0) r U) /\
  (sq = true -> Y' = ttm_all 0%R Rplus Rmult X (transposed 0%R fm)).
Proof.
  intros s d Hp Hr Hf Hle H Hrun.
  destruct (perm_range d dimorder Hp) as (Hnd & Hin & _).
  destruct (gen_hosvd_bookkeeping R (dense R) (@matrix R) Rleb 0%R Rplus k_unfold k_gram k_eigh k_argsort_desc k_take k_select_cols k_shrink
              shrink1R shrink_reads_k [] t sq d dimorder ranks fm0 X fm ranks' Y' Hp Hr Hf H) as (L & _ & Hk & HY).
  assert (Hfac : forall k, k < d ->
     (nth k ranks 0 <> 0 -> nth k ranks' 0 = nth k ranks 0) /\ 0 < nth k ranks' 0 <= nth k s 0 /\
     nrows (nth k fm []) = nth k s 0 /\ ncols (nth k fm []) = nth k ranks' 0 /\ orthocolsR (nth k s 0) (nth k ranks' 0) (nth k fm [])).
  { intros k Hkd. destruct (Hk k Hkd) as (pre & post & Ed & HU & Hrank). cbv zeta in HU, Hrank.
    assert (Hpre : ~ In k pre /\ forall j, In j pre -> j < d).
    { rewrite Ed in Hnd. apply NoDup_remove_2 in Hnd. split.
      - intros C. apply Hnd. apply in_or_app. now left.
      - intros j Hj. apply Hin. rewrite Ed. apply in_or_app. now left. }
    destruct Hpre as (Hkp & Hpd).
    rewrite Ed in Hrun. pose proof (run_ok_at sq fm pre k post X Hrun) as Hs.
    unfold seen, shrink in HU, Hrank.
    set (Yk := if sq then fold_left (sh fm) pre X else X) in *.
    assert (HI : nth k (dshape Yk) 0 = nth k s 0).
    { unfold Yk. destruct sq; [|reflexivity]. apply (seen_shape fm k pre X Hkp Hpd). }
    unfold spec_ok in Hs. unfold g_leading in HU. unfold g_eigvals in Hrank.
    destruct (spectrum Yk k) as [[eig p] Vm] eqn:Esp. rewrite HI in Hs.
    destruct Hs as (Hoc & _ & Hlen & _ & Hrows & Hsel). cbn [fst] in Hrank.
    assert (Hrr : (nth k ranks 0 <> 0 -> nth k ranks' 0 = nth k ranks 0) /\ 0 < nth k ranks' 0 <= nth k s 0).
    { unfold rank_decided in Hrank. cbv beta in Hrank. rewrite Esp in Hrank. cbn [fst] in Hrank. destruct (nth k ranks 0) as [|q] eqn:Eq.
      - split; [intros C; contradiction|]. apply auto_rank_range in Hrank. now rewrite Hlen in Hrank.
      - split; [intros _; exact Hrank|]. rewrite Hrank. specialize (Hle k Hkd). rewrite Eq in Hle. lia. }
    destruct Hrr as (R1 & R2). destruct (Hsel _ R2) as (S1 & S2). rewrite S1 in HU.
    split; [exact R1|]. split; [exact R2|]. rewrite HU.
    split; [unfold leading, nrows; rewrite map_length; exact Hrows|]. split; [exact S2|]. apply leading_orthoR; [lia|exact Hoc]. }
  split; [exact L|]. split; [exact Hfac|]. intros ->.
  apply (gen_hosvd_seq_core k_unfold k_gram k_eigh k_argsort_desc k_take k_select_cols k_shrink shrink_reads_k X dimorder ranks t fm0 fm ranks' Y'
           Hp Hr Hf H). intros k Hkd. apply (Hfac k Hkd).
Qed.
End GenStruct.

(* non-vacuity, GIVEN ranks (1,1): the generated loop run sequentially on the 2 x 3 array [[3,0,0],[0,1,0]], dimorder (1,0), with the example kernels
   of Proofs/C10GenR.v; the per-run contract holds (it is the one of gen_hosvd_example: the same tensors are looked at) *)
Example gen_hosvd_structure_example :
  exists Y',
  GenHosvd.hosvd_modes R (dense R) (@matrix R) Rleb 0%R Rplus exk_unfold exk_gram exk_eigh exk_argsort exk_take exk_select exk_shrink
    [1; 0] [1; 1] 0%R exX [[]; []] true = Some (exUs, [1; 1], Y') /\
  run_ok exk_unfold exk_gram exk_eigh exk_argsort exk_take exk_select true exUs [1; 0] exX /\
  (forall k, k < 2 -> nrows (nth k exUs []) = nth k [2; 3] 0 /\ ncols (nth k exUs []) = nth k [1; 1] 0 /\
                      orthocolsR (nth k [2; 3] 0) (nth k [1; 1] 0) (nth k exUs [])) /\
  Y' = ttm_all 0%R Rplus Rmult exX (transposed 0%R exUs).
Proof.
  assert (Hrun : exists Y',
    GenHosvd.hosvd_modes R (dense R) (@matrix R) Rleb 0%R Rplus exk_unfold exk_gram exk_eigh exk_argsort exk_take exk_select exk_shrink
      [1; 0] [1; 1] 0%R exX [[]; []] true = Some (exUs, [1; 1], Y')).
  { unfold GenHosvd.hosvd_modes.
    rewrite (gen_loop_is_hand_loop R (dense R) (@matrix R) Rleb 0%R Rplus exk_unfold exk_gram exk_eigh exk_argsort exk_take exk_select
               exk_shrink shrink1R exk_shrink_reads_k) by (cbn; intuition lia).
    cbn [hosvd_loop nth].
    change (g_leading R (dense R) (@matrix R) exk_unfold exk_gram exk_eigh exk_argsort exk_take exk_select exX 1 1)
      with ([[1]; [0]; [0]]%R : @matrix R).
    cbn [upd nth].
    set (Y1 := shrink1R exX [[1]; [0]; [0]]%R 1).
    change (g_leading R (dense R) (@matrix R) exk_unfold exk_gram exk_eigh exk_argsort exk_take exk_select Y1 0 1)
      with ([[1]; [0]]%R : @matrix R).
    cbn [upd swap3]. eexists. reflexivity. }
  destruct Hrun as (Y' & Hg).
  destruct gen_hosvd_example as (_ & _ & _ & _ & _ & Hok & _).
  destruct (gen_hosvd_structure exk_unfold exk_gram exk_eigh exk_argsort exk_take exk_select exk_shrink exk_shrink_reads_k
              true exX [1; 0] [1; 1] 0%R [[]; []] exUs [1; 1] Y') as (_ & Hfac & Hcore); auto.
  - apply perm_swap.
  - intros k Hk. destruct k as [|[|k]]; cbn in *; lia.
  - exists Y'. split; [exact Hg|]. split; [exact Hok|]. split; [|now apply Hcore].
    intros k Hk. destruct (Hfac k Hk) as (_ & _ & A & B & C). split; [exact A|]. split; [exact B|exact C].
Qed.
