(* Proofs/C12KrTie.v — tie A for the Khatri-Rao products inside the byte-level mttkrps of Proofs/C12Reshape.v:
   the row lists `kr_rev` (Model/C02Dense.v) that mttkrps_b / mttv_mid_b multiply with are what the GENERATED
   pyttb.khatrirao (Gen/GenKernels.v, regenerated from pyttb/khatrirao.py on every run) returns for reverse=True.
   Route: generated khatrirao --(Proofs/GenKhatriRao.v khatrirao_bridge)--> ring-generic fold model of Proofs/KhatriRao.v
          --(this file)--> kr_rev. *)
From Coq Require Import List ZArith Arith Bool Lia Ring.
From PV Require Import Base.Index Base.Sum Model.Repr Np.NpZ Np.NpZ2 Gen.GenKernels Proofs.KhatriRao Proofs.GenKhatriRao
                       Model.C02Dense Proofs.C02DenseProofs.
Import ListNotations.
Local Open Scope nat_scope.

Section Fold.
Variable V : Type.
Variable vmul : V -> V -> V.
Notation mat := (list (list V)).

Lemma map2_zipmul (a b : list V) : KhatriRao.map2 V vmul a b = zipmul vmul a b.
Proof. revert b. induction a as [|x a IH]; intros [|y b]; cbn; auto. now rewrite IH. Qed.

Lemma kr_step_kr2 (P M : mat) : kr_step V vmul P M = kr2 vmul M P.
Proof.
  unfold kr_step, kr2. apply flat_map_ext. intros pr. apply map_ext. intros mr. apply map2_zipmul.
Qed.

(* the fold of khatrirao over the reversed list builds kr_rev *)
Lemma kr_fold_rev : forall Bs : list mat, Bs <> [] ->
  match rev Bs with [] => None | A :: rest => Some (fold_left (kr_step V vmul) rest A) end = Some (kr_rev vmul Bs).
Proof.
  induction Bs as [|U Bs IH]; intros Hne; [congruence|].
  destruct Bs as [|U2 Us]; [reflexivity|].
  specialize (IH ltac:(discriminate)).
  change (rev (U :: U2 :: Us)) with (rev (U2 :: Us) ++ [U]).
  destruct (rev (U2 :: Us)) as [|A rest]; [discriminate|].
  cbn [app]. rewrite fold_left_app. cbn [fold_left]. inversion IH as [E]. rewrite E.
  rewrite kr_step_kr2. reflexivity.
Qed.

Lemma ncols_ok_wf_cols R (As : list mat) : As <> [] -> Forall (fun B => B <> [] /\ wf_cols V R B) As ->
  ncols_ok V As = true.
Proof.
  intros Hne HW. destruct As as [|A As']; [congruence|]. unfold ncols_ok.
  assert (HR : ncols A = R).
  { inversion HW as [|? ? [HA HAc] _]; subst. destruct A as [|row A]; [congruence|]. cbn. now inversion HAc. }
  rewrite HR. apply forallb_forall. intros B HB. rewrite Forall_forall in HW. destruct (HW B HB) as [_ HBc].
  apply forallb_forall. intros row Hrow. apply Nat.eqb_eq. unfold wf_cols in HBc. rewrite Forall_forall in HBc. auto.
Qed.

Theorem hand_kr_rev R (Bs : list mat) : Bs <> [] -> Forall (fun B => B <> [] /\ wf_cols V R B) Bs ->
  KhatriRao.khatrirao V vmul true Bs = Some (kr_rev vmul Bs).
Proof.
  intros Hne HW. unfold KhatriRao.khatrirao.
  assert (Hne' : rev Bs <> []).
  { intros E. apply (f_equal (@rev _)) in E. rewrite rev_involutive in E. cbn in E. congruence. }
  rewrite (ncols_ok_wf_cols R (rev Bs)); auto.
  - now apply kr_fold_rev.
  - apply Forall_forall. intros B HB. apply in_rev in HB. rewrite Forall_forall in HW. auto.
Qed.
End Fold.

(* ttb.khatrirao( *Bs, reverse=True), as generated from the current pyttb/khatrirao.py, returns kr_rev Bs:
   every non-empty list of non-empty integer matrices with R >= 1 columns each *)
Theorem khatrirao_generated_kr_rev (R : nat) (Bs : list (list (list Z))) :
  Bs <> [] -> 1 <= R -> Forall (fun B => B <> [] /\ wf_cols Z R B) Bs ->
  GenKernels.khatrirao Bs true = Ok (kr_rev Z.mul Bs).
Proof.
  intros Hne HR HW.
  rewrite khatrirao_bridge by (intros B HB; rewrite Forall_forall in HW; now destruct (HW B HB)).
  rewrite (hand_kr_rev Z Z.mul R Bs Hne HW).
  assert (H : forall l : list (list (list Z)), l = rev Bs ->
            match l with [] => Err | A0 :: _ => if (np_ncols A0 =? 0)%Z then Err else Ok (kr_rev Z.mul Bs) end
            = Ok (kr_rev Z.mul Bs)).
  { intros [|A rest] E.
    - symmetry in E. apply (f_equal (@rev _)) in E. rewrite rev_involutive in E. cbn in E. congruence.
    - assert (HA : In A Bs) by (apply in_rev; rewrite <- E; now left).
      rewrite Forall_forall in HW. destruct (HW A HA) as [HAne HAc].
      rewrite np_ncols_nat.
      assert (HRA : ncols A = R).
      { destruct A as [|row A']; [congruence|]. cbn. unfold wf_cols in HAc. now inversion HAc. }
      rewrite HRA. destruct (Z.eqb_spec (Z.of_nat R) 0%Z); [lia|reflexivity]. }
  exact (H _ eq_refl).
Qed.

Example khatrirao_generated_kr_rev_ex :
  GenKernels.khatrirao [[[1; 2]; [3; 4]]; [[5; 6]; [7; 8]; [9; 10]]]%Z true
  = Ok [[5; 12]; [15; 24]; [7; 16]; [21; 32]; [9; 20]; [27; 40]]%Z
  /\ kr_rev Z.mul [[[1; 2]; [3; 4]]; [[5; 6]; [7; 8]; [9; 10]]]%Z = [[5; 12]; [15; 24]; [7; 16]; [21; 32]; [9; 20]; [27; 40]]%Z.
Proof. timeout 60 (vm_compute; split; reflexivity). Qed.

Print Assumptions khatrirao_generated_kr_rev.
