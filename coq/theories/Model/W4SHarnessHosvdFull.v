(* Model/W4SHarnessHosvdFull.v — REPLAY instantiation of Gen/GenHosvdFull.v (the whole function hosvd): the input tensor is its
   number of modes, a working tensor is the number of shrink steps applied to it (+1000: multiplied by all transposed factors at the
   end), a matrix is a list of ints (a factor = the selected column indices of V), the eigen-decomposition of mode k and the sorting
   permutation are the answers RECORDED from the real run, the threshold is the recorded one; the permutation test of dimorder is
   computed (length d and every mode 0..d-1 present). *)
From Coq Require Import String List Arith Bool ZArith.
From PV Require Import Model.W4SPrelude Gen.GenHosvdFull Model.W4SHarnessBase.
Import ListNotations.
Local Open Scope nat_scope.

Definition zsk_is_perm (d : nat) (o : list nat) : bool := (length o =? d) && forallb (fun i => existsb (Nat.eqb i) o) (seq 0 d).

Definition zsk_hosvd_full (Ds : list (nat * list Z)) (pis : list (list Z * list nat)) (d : nat) (dimorder ranks : option (list nat))
           (thresh : Z) (sq : bool) : option (nat * list (list nat)) :=
  GenHosvdFull.hosvd_full Z nat nat (list nat) (nat * list (list nat)) Z.leb 0%Z Z.add []
    (fun x => x) (fun d o => negb (zsk_is_perm d o)) (fun _ => 0%Z) (fun _ _ _ => thresh) (fun _ => 0)
    (fun _ k => [k]) (fun m => m) (fun m => (assoc Nat.eqb (hd 0 m) Ds [], m))
    (fun D => assoc (list_eqb Z.eqb) D pis []) (fun D p => map (fun i => nth i D 0%Z) p) (fun _ c => c) (fun Y _ _ => S Y)
    (fun Y _ => 1000 + Y) (fun G fm => (G, fm))
    d 0%Z 0%Z dimorder sq ranks.

Definition zsk_hosvd_full_ok (Ds : list (nat * list Z)) (pis : list (list Z * list nat)) (d : nat) (dimorder ranks : option (list nat))
           (thresh : Z) (sq : bool) (ranks_obs : list nat) (cols_obs : list (list nat)) : bool :=
  match zsk_hosvd_full Ds pis d dimorder ranks thresh sq with
  | None => false
  | Some (G, fm) => list_eqb Nat.eqb (map (@length nat) fm) ranks_obs && list_eqb (list_eqb Nat.eqb) fm cols_obs &&
                    (G =? (if sq then d else 1000))
  end.
Definition zsk_hosvd_full_raises (Ds : list (nat * list Z)) (pis : list (list Z * list nat)) (d : nat) (dimorder ranks : option (list nat))
           (thresh : Z) (sq : bool) : bool :=
  match zsk_hosvd_full Ds pis d dimorder ranks thresh sq with None => true | Some _ => false end.

(* non-vacuity: spectra (9,4,1) and (16,0), budget 2, order [1;0]: ranks 2 and 1; a rank vector of the wrong length and a dimorder
   with a repeated mode are rejected *)
Example zsk_hosvd_full_example :
  zsk_hosvd_full [(0, [1; 9; 4]%Z); (1, [0; 16]%Z)] [([1; 9; 4]%Z, [1; 2; 0]); ([0; 16]%Z, [1; 0])] 2 (Some [1; 0]) None 2%Z true
  = Some (2, [[1; 2]; [1]]) /\
  zsk_hosvd_full [(0, [1; 9; 4]%Z); (1, [0; 16]%Z)] [([1; 9; 4]%Z, [1; 2; 0]); ([0; 16]%Z, [1; 0])] 2 None (Some [0; 1]) 2%Z false
  = Some (1000, [[1; 2]; [1]]) /\
  zsk_hosvd_full [] [] 2 None (Some [1]) 2%Z true = None /\
  zsk_hosvd_full [] [] 2 (Some [1; 1]) None 2%Z true = None.
Proof. repeat split; vm_compute; reflexivity. Qed.
