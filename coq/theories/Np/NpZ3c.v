(* Np/NpZ3c.v — primitives for the partial-MTTKRP helpers mttv_left / mttv_mid of pyttb/tensor.py (Gen/GenKernels3.v):
   a 2-d array with r columns viewed as a 3-d array by an F-order reshape over its rows, contraction of one of the two
   leading axes with a vector, results of calls into other generated functions.  Definitions only; validated by the
   primitive-level differential stream of tools/props/w3gen.py (ops named prim3c_...). *)
From Coq Require Import List ZArith Bool Lia.
From PV Require Import Np.NpZ Np.NpZ2 Np.NpZ3.
Import ListNotations.
Local Open Scope Z_scope.

(* value of a call into another generated function used inside an expression: the caller is guarded by is_ok *)
Definition is_ok {A} (r : res A) : bool := match r with Ok _ => true | Err => false end.
Definition res_get {A} (d : A) (r : res A) : A := match r with Ok a => a | Err => d end.

(* np.reshape(W, (n1, n2, r), order="F") of a 2-d array W (n1 * n2 rows, r columns): entry [a, b, j] = W[a + n1 * b, j] *)
Record ten3 := mkt3 { t3_n1 : Z; t3_n2 : Z; t3_r : Z; t3_m : mat }.
Definition t3_entry (x : ten3) (a b j : Z) : Z := znth 0 (znth [] (t3_m x) (a + t3_n1 x * b)) j.

Definition rows_have (w : mat) (r : Z) : bool := forallb (fun row => zlen row =? r) w.
(* np.reshape(W, (n1, -1, r), order="F"): the model covers W with exactly r columns; numpy raises unless n1 > 0 divides
   the number of rows (r = 0: the -1 cannot be inferred) *)
Definition np_reshape3_lead_ok (w : mat) (n1 r : Z) : bool :=
  negb (r =? 0) && rows_have w r && (0 <? n1) && (zlen w mod n1 =? 0).
Definition np_reshape3_lead (w : mat) (n1 r : Z) : ten3 := mkt3 n1 (zlen w / n1) r w.
(* np.reshape(W, (-1, n2, r), order="F") *)
Definition np_reshape3_mid_ok (w : mat) (n2 r : Z) : bool :=
  negb (r =? 0) && rows_have w r && (0 <? n2) && (zlen w mod n2 =? 0).
Definition np_reshape3_mid (w : mat) (n2 r : Z) : ten3 := mkt3 (zlen w / n2) n2 r w.

(* np.zeros_like(X, shape=(a, b)) *)
Definition np_zeros2_ok (a b : Z) : bool := (0 <=? a) && (0 <=? b).
Definition np_zeros2 (a b : Z) : mat := np_full a (np_full b 0).

Definition zsum (l : vec) : Z := fold_right Z.add 0 l.

(* X[:, :, j].transpose().dot(v): contraction of the leading axis, one entry per b *)
Definition t3_dot_lead_ok (x : ten3) (j : Z) (v : vec) : bool := (0 <=? j) && (j <? t3_r x) && (zlen v =? t3_n1 x).
Definition t3_dot_lead (x : ten3) (j : Z) (v : vec) : vec :=
  map (fun b => zsum (map (fun a => t3_entry x a b j * znth 0 v a) (np_arange 0 (t3_n1 x)))) (np_arange 0 (t3_n2 x)).
(* X[:, :, j].dot(v): contraction of the middle axis, one entry per a *)
Definition t3_dot_mid_ok (x : ten3) (j : Z) (v : vec) : bool := (0 <=? j) && (j <? t3_r x) && (zlen v =? t3_n2 x).
Definition t3_dot_mid (x : ten3) (j : Z) (v : vec) : vec :=
  map (fun a => zsum (map (fun b => t3_entry x a b j * znth 0 v b) (np_arange 0 (t3_n2 x)))) (np_arange 0 (t3_n1 x)).
