(* Proofs/C03Ord0.v — order-0 operands: on pyttb's only order-0 sparse tensor E0 (shape (), nothing stored) the modelled
   algorithms return the empty container again.  The operand is unique, so the statements are closed computations
   (the generated row-set helpers are run on matrices without a row / with one zero-width row). *)
From Coq Require Import List ZArith Bool.
From PV Require Import Base.Index Base.Sum Np.NpZ Np.Array Gen.GenUtils Model.Sparse Model.Repr Model.Harness Model.C03Ops
                       Model.C03Gen Model.C03More Model.C03Gen2 Model.C03Src Model.C03Kr Model.C03Ord0 Proofs.C03Kr.
Import ListNotations.
Local Open Scope Z_scope.

Definition E0 : sparse Z := mkSp [] [] [].
Definition EX0 : sparse xval := mkSp [] [] [].
Definition D0 : dense Z := mkDense []%list []%list.

(* algorithms that never enumerate the positions of the shape: any value type *)
Lemma order0_generic {V : Type} (v0 one : V) (isz : V -> bool) (vadd vmul : V -> V -> V) (vopp g : V -> V) (c : V) :
  let E := mkSp [] [] [] : sparse V in
  impl_add v0 isz vadd E E = E /\ impl_sub v0 isz vadd vopp E E = E /\ impl_mul v0 isz vmul E E = E /\
  impl_and v0 isz one E E = E /\ impl_or v0 isz one E E = E /\ impl_xor v0 isz one E E = E /\
  impl_neg vopp E = E /\ impl_ones one E = E /\ impl_elemfun isz g E = E /\ impl_mul_scalar isz vmul E c = E /\
  impl_and_scalar isz one E c = E /\
  (forall K : ktensor V, impl_mul_k v0 vadd vmul E K = E) /\
  (forall (X : Type) (dv : V -> V -> X) (K : ktensor V) (v1 : V), impl_div_k v0 v1 vadd vmul dv E K = mkSp [] [] []).
Proof.
  cbv zeta. repeat split; try reflexivity; intros.
  - unfold impl_and_scalar. now destruct (isz c).
  - unfold impl_mul_k, mul_k_vals. cbn [ssubs svals sshape kr_zeros map]. f_equal. unfold kr_accum. apply fold_zipw_nil.
Qed.

(* transliterations over the generated helpers; those that enumerate take pyttb's enumeration allsubsP [] = [] where the
   enumeration is a parameter.  (__eq__ with a dense operand and the hand models that call Base.Index.allsubs follow numpy's
   one-cell reading of shape () and are NOT claimed for order 0: the order-0 correspondence cases use ord0_sp_ok.) *)
Lemma order0_generated :
  impl_mul_gen 0 Z.mul E0 E0 = Ok E0 /\ impl_eq_gen 0 1 Z.eqb E0 E0 = Ok E0 /\ impl_not_gen 1 E0 = Ok E0 /\
  impl_ne_sparse_gen 0 1 Z.eqb E0 E0 = Ok E0 /\
  impl_cmp_gen 0 1 zcmp_lt E0 E0 = Ok E0 /\ impl_cmp_gen 0 1 zcmp_le E0 E0 = Ok E0 /\
  impl_cmp_gen 0 1 zcmp_gt E0 E0 = Ok E0 /\ impl_cmp_gen 0 1 zcmp_ge E0 E0 = Ok E0 /\
  (forall c, impl_cmp_scalar_gen 0 1 zcmp_lt E0 c = Ok E0) /\ (forall c, impl_cmp_scalar_gen 0 1 zcmp_le E0 c = Ok E0) /\
  (forall c, impl_cmp_scalar_gen 0 1 zcmp_gt E0 c = Ok E0) /\ (forall c, impl_cmp_scalar_gen 0 1 zcmp_ge E0 c = Ok E0) /\
  impl_div_sparse_gen 0 xdivz XNaN x0 (allsubsP []) E0 E0 = Ok EX0 /\
  impl_ne_dense_gen 0 zisz 1 Z.eqb (allsubsP []) E0 D0 = Ok E0.
Proof.
  repeat split; try (vm_compute; reflexivity);
    intros c; unfold impl_cmp_scalar_gen; cbn [entries E0 ssubs svals combine filter map];
    match goal with |- (if ?b then _ else _) = _ => destruct b end; vm_compute; reflexivity.
Qed.
