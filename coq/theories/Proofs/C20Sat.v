(* Proofs/C20Sat.v — wave 4: the SATURATED request of sptensor.from_function / sptenrand (repair of finding C20-N3,
   /repo 2b4b024): a request equal to the tensor size stores every subscript (np.ndindex order), consumes no draw.
   The body of from_function as ONE function of the list the loop starts from (C20Gen.sprand_subs_from):
   init = [] is the ordinary request (= sprand_subs), init = all_rows shape the saturated one. *)
From Coq Require Import List Arith ZArith Lia Bool Sorting.Sorted.
From PV Require Import Base.Index Base.Sum Np.Array Model.Sparse Model.Repr Model.C20Gen Proofs.C20Proofs.
Import ListNotations.

(* ---------------------------------------------------------------- all_rows = np.ndindex *)
Lemma flat_map_const_length {A B} (f : A -> list B) c l :
  (forall a, length (f a) = c) -> length (flat_map f l) = length l * c.
Proof. intros H. induction l as [|a l IH]; cbn; [reflexivity|]. rewrite app_length, IH, H. reflexivity. Qed.

Lemma all_rows_length s : length (all_rows s) = size s.
Proof.
  induction s as [|d s IH]; [reflexivity|]. cbn [all_rows]. rewrite size_cons.
  rewrite (flat_map_const_length _ (size s)); [now rewrite seq_length|].
  intros a. now rewrite map_length.
Qed.

(* exactly the subscripts inside the shape *)
Lemma in_all_rows s i : In i (all_rows s) <-> inb s i = true.
Proof.
  revert i. induction s as [|d s IH]; intros i; cbn [all_rows].
  - destruct i; cbn; split; auto; try discriminate; intros [H|[]]; discriminate.
  - rewrite in_flat_map. split.
    + intros (k & Hk & Hi). apply in_seq in Hk. apply in_map_iff in Hi as (j & <- & Hj).
      cbn [inb]. apply andb_true_iff. split; [apply Nat.ltb_lt; lia|now apply IH].
    + destruct i as [|x i]; cbn [inb]; [discriminate|]. intros H. apply andb_true_iff in H as [H1 H2].
      apply Nat.ltb_lt in H1. exists x. split; [apply in_seq; lia|]. apply in_map. now apply IH.
Qed.

Lemma StronglySorted_app {A} (R : A -> A -> Prop) l1 l2 :
  StronglySorted R l1 -> StronglySorted R l2 -> (forall x y, In x l1 -> In y l2 -> R x y) ->
  StronglySorted R (l1 ++ l2).
Proof.
  induction 1 as [|a l Hs IH Ha]; intros H2 H; cbn; [exact H2|].
  constructor.
  - apply IH; auto. intros x y Hx Hy. apply H; cbn; auto.
  - apply Forall_app. split; [exact Ha|]. rewrite Forall_forall. intros y Hy. apply H; cbn; auto.
Qed.

Lemma map_cons_sorted k l : StronglySorted idx_lt l -> StronglySorted idx_lt (map (cons k) l).
Proof.
  induction 1 as [|a l Hs IH Ha]; cbn; constructor; auto.
  rewrite Forall_forall in *. intros y Hy. apply in_map_iff in Hy as (j & <- & Hj).
  unfold idx_lt. cbn [idx_ltb]. rewrite Nat.ltb_irrefl, Nat.eqb_refl. cbn. now apply Ha.
Qed.

Lemma blocks_sorted (l : list idx) a n :
  StronglySorted idx_lt l -> StronglySorted idx_lt (flat_map (fun k => map (cons k) l) (seq a n)).
Proof.
  intros Hl. revert a. induction n as [|n IH]; intros a; cbn [seq flat_map]; [constructor|].
  apply StronglySorted_app; [now apply map_cons_sorted|apply IH|].
  intros x y Hx Hy. apply in_map_iff in Hx as (i & <- & _).
  apply in_flat_map in Hy as (k & Hk & Hy). apply in_seq in Hk. apply in_map_iff in Hy as (j & <- & _).
  unfold idx_lt. cbn [idx_ltb]. apply orb_true_iff. left. apply Nat.ltb_lt. lia.
Qed.

(* np.ndindex order IS the stored order of pyttb's sparse generators: strictly ascending, first mode most significant *)
Lemma all_rows_sorted s : StronglySorted idx_lt (all_rows s).
Proof.
  induction s as [|d s IH]; cbn [all_rows]; [repeat constructor|]. now apply blocks_sorted.
Qed.

Lemma sorted_NoDup (l : list idx) : StronglySorted idx_lt l -> NoDup l.
Proof.
  induction 1 as [|a l Hs IH Ha]; constructor; auto.
  intros Hin. rewrite Forall_forall in Ha. specialize (Ha a Hin). unfold idx_lt in Ha.
  rewrite idx_ltb_irrefl in Ha. discriminate.
Qed.

Lemma all_rows_NoDup s : NoDup (all_rows s).
Proof. apply sorted_NoDup, all_rows_sorted. Qed.

Lemma all_rows_good s : good s (all_rows s).
Proof. split; [apply all_rows_NoDup|]. rewrite Forall_forall. intros i. apply in_all_rows. Qed.

(* ---------------------------------------------------------------- the body, from an arbitrary start of the loop *)
(* the ordinary request: the loop starts from the empty list *)
Theorem sprand_subs_from_nil nz s draws :
  sprand_subs_from [] nz s draws = sprand_subs nz s draws /\
  sprand_consumed_from [] nz s draws = sprand_consumed nz s draws.
Proof. split; reflexivity. Qed.

Lemma redraw_full_start fuel nz s cur ds : nz <= length cur -> redraw fuel nz s cur ds = (cur, 0).
Proof.
  intros H. destruct fuel; cbn [redraw]; [reflexivity|].
  destruct (Nat.ltb_spec (length cur) nz); [lia|reflexivity].
Qed.

(* a start that already holds the requested number of rows is returned as it is: no draw is consumed
   (whatever the stream holds), nothing is reordered, nothing is dropped *)
Theorem sprand_subs_from_full init s draws :
  sprand_subs_from init (length init) s draws = init /\ sprand_consumed_from init (length init) s draws = 0.
Proof.
  unfold sprand_subs_from, sprand_consumed_from. cbv zeta.
  rewrite redraw_full_start by lia. cbn [fst snd]. rewrite Nat.ltb_irrefl. split; [apply firstn_all|reflexivity].
Qed.

(* whatever the start: distinct rows inside the shape, at most the request, strictly ascending if the start is *)
Lemma sprand_subs_from_good init nz s draws :
  Forall (fun d => 0 < d) s -> Forall (valid_draw s) draws -> good s init -> good s (sprand_subs_from init nz s draws).
Proof.
  intros Hs Hd Hi. unfold sprand_subs_from. cbv zeta. destruct (_ <? _).
  - split; [apply unique_rows_NoDup|]. rewrite Forall_forall. intros i Hin.
    apply (proj1 (unique_rows_In _ _)) in Hin. apply In_firstn in Hin. apply (proj1 (dedup_first_In _ _)) in Hin.
    apply in_app_or in Hin as [Hin|Hin].
    + destruct Hi as [_ Hi]. rewrite Forall_forall in Hi. auto.
    + revert Hin. apply pool_rows_inb; [exact Hs|]. now apply Forall_firstn.
  - destruct (redraw_good 10 nz s init draws Hs Hd Hi) as [Hn Hb]. split; [now apply NoDup_firstn|].
    rewrite Forall_forall in *. intros i Hin. apply In_firstn in Hin. auto.
Qed.

Lemma sprand_subs_from_length_le init nz s draws : length (sprand_subs_from init nz s draws) <= nz.
Proof.
  unfold sprand_subs_from. cbv zeta. destruct (_ <? _).
  - rewrite unique_rows_length. etransitivity; [apply dedup_length_le|]. rewrite firstn_length. lia.
  - rewrite firstn_length. lia.
Qed.

Lemma sprand_subs_from_sorted init nz s draws :
  StronglySorted idx_lt init -> StronglySorted idx_lt (sprand_subs_from init nz s draws).
Proof.
  intros Hi. unfold sprand_subs_from. cbv zeta. destruct (_ <? _); [apply unique_rows_sorted|].
  now apply StronglySorted_firstn, redraw_sorted.
Qed.

(* ---------------------------------------------------------------- the normalised request (saturated, nz) *)
Lemma sprand_init_good sat s : good s (sprand_init sat s).
Proof. destruct sat; cbn [sprand_init]; [apply all_rows_good|]. split; constructor. Qed.
Lemma sprand_init_sorted sat s : StronglySorted idx_lt (sprand_init sat s).
Proof. destruct sat; cbn [sprand_init]; [apply all_rows_sorted|constructor]. Qed.

(* not saturated: the request is served by the redraw loop (everything proved about sprand_subs applies) *)
Theorem sprand_req_draw nz s draws :
  sprand_req_subs false nz s draws = sprand_subs nz s draws /\
  sprand_req_consumed false nz s draws = sprand_consumed nz s draws.
Proof. split; reflexivity. Qed.

(* SATURATED (request = prod(shape), /repo 2b4b024): every subscript of the shape is stored, in np.ndindex order,
   whatever the stream of draws holds - none of it is consumed; the number of stored subscripts is the size *)
Theorem sprand_req_saturated s draws :
  sprand_req_subs true (size s) s draws = all_rows s /\
  sprand_req_consumed true (size s) s draws = 0 /\
  length (sprand_req_subs true (size s) s draws) = size s /\
  (forall i, In i (sprand_req_subs true (size s) s draws) <-> inb s i = true).
Proof.
  unfold sprand_req_subs, sprand_req_consumed. cbn [sprand_init].
  destruct (sprand_subs_from_full (all_rows s) s draws) as [E1 E2]. rewrite all_rows_length in E1, E2.
  rewrite E1. repeat split; auto using all_rows_length; apply in_all_rows.
Qed.

Theorem sprand_req_sorted sat nz s draws : StronglySorted idx_lt (sprand_req_subs sat nz s draws).
Proof. apply sprand_subs_from_sorted, sprand_init_sorted. Qed.

Section SpReq.
Context {V : Type} (v0 : V) (isz : V -> bool).

(* every normalised request, whatever the draws: a well-formed sparse tensor of exactly the requested shape, values =
   the supplied function's output, at most the requested number of nonzeros *)
Theorem sprand_req_wf (sat : bool) (nz : nat) (s : shape) (draws : list (list (list Z))) (vals : list V) :
  Forall (fun d => 0 < d) s -> Forall (valid_draw s) draws ->
  length vals = length (sprand_req_subs sat nz s draws) -> Forall (fun v => isz v = false) vals ->
  wf_sp isz (sprand_req sat nz s draws vals) /\ sshape (sprand_req sat nz s draws vals) = s /\
  svals (sprand_req sat nz s draws vals) = vals /\ nnz (sprand_req sat nz s draws vals) <= nz.
Proof.
  intros Hs Hd HL Hv.
  destruct (sprand_subs_from_good (sprand_init sat s) nz s draws Hs Hd (sprand_init_good sat s)) as [Hn Hb].
  split; [|split; [reflexivity|split; [reflexivity|]]].
  - unfold wf_sp, sprand_req. cbn [ssubs svals sshape]. repeat split; auto.
  - unfold nnz, sprand_req. cbn [ssubs]. apply sprand_subs_from_length_le.
Qed.

(* the saturated request is ALWAYS met exactly: nnz = prod(shape) = the request, every cell of the tensor holds the
   value the function returned for it (k-th value at the k-th subscript in np.ndindex order); for sptenrand the values
   are uniform draws, which are non-zero with probability one - a zero returned by the function is stored as it is
   (hypothesis of well-formedness: the function returns no zero) *)
Theorem sprand_req_saturated_post (s : shape) (draws : list (list (list Z))) (vals : list V) :
  Forall (fun d => 0 < d) s -> length vals = size s -> Forall (fun v => isz v = false) vals ->
  let S := sprand_req true (size s) s draws vals in
  wf_sp isz S /\ sshape S = s /\ nnz S = size s /\ ssubs S = all_rows s /\
  (forall k, k < size s -> den_sp v0 S (nth k (all_rows s) []) = nth k vals v0) /\
  (forall i, inb s i = true -> exists k, k < size s /\ nth k (all_rows s) [] = i /\ den_sp v0 S i = nth k vals v0).
Proof.
  intros Hs HL Hv S.
  destruct (sprand_req_saturated s draws) as (E & _ & _ & _).
  assert (ES : ssubs S = all_rows s) by exact E.
  assert (Hk : forall k, k < size s -> den_sp v0 S (nth k (all_rows s) []) = nth k vals v0).
  { intros k Hk. unfold den_sp. apply last_match_in.
    - rewrite map_fst_entries by (rewrite ES, all_rows_length; change (svals S) with vals; lia). rewrite ES. apply all_rows_NoDup.
    - unfold entries. cbn [S sprand_req ssubs svals]. rewrite E.
      rewrite <- (combine_nth (all_rows s) vals k [] v0) by (rewrite all_rows_length; lia).
      apply nth_In. rewrite combine_length, all_rows_length. lia. }
  split; [|split; [reflexivity|split; [|split; [exact ES|split; [exact Hk|]]]]].
  - unfold wf_sp. cbn [S sprand_req ssubs svals sshape]. rewrite E. repeat split.
    + rewrite all_rows_length. lia.
    + apply all_rows_NoDup.
    + apply all_rows_good.
    + exact Hv.
  - unfold nnz. rewrite ES. apply all_rows_length.
  - intros i Hi. apply in_all_rows in Hi. destruct (In_nth _ _ [] Hi) as (k & Hk1 & Hk2).
    rewrite all_rows_length in Hk1. exists k. split; [exact Hk1|]. split; [exact Hk2|]. rewrite <- Hk2. now apply Hk.
Qed.
End SpReq.

(* ---------------------------------------------------------------- request -> count actually stored *)
(* from the request p/q to the number of stored subscripts: a request that normalises to (saturated, c) stores at most
   c subscripts; a request equal to the tensor size ALWAYS stores exactly the size (the defect C20-N3 rejected it);
   below the size the count is min(c, distinct rows over all consumed draws) (C20_sprand_count) *)
Theorem request_count (s : shape) (p : Z) (q : positive) (draws : list (list (list Z))) sat c :
  norm_request (size s) p q = Some (sat, c) ->
  length (sprand_req_subs sat c s draws) <= c /\
  (sat = true -> (p = Z.of_nat (size s) * Zpos q)%Z /\ c = size s /\ length (sprand_req_subs sat c s draws) = size s /\
                 sprand_req_consumed sat c s draws = 0) /\
  (sat = false -> sprand_req_subs sat c s draws = sprand_subs c s draws /\
                  length (sprand_req_subs sat c s draws) =
                  Nat.min c (length (dedup (pool_rows s (firstn (sprand_consumed c s draws) draws))))).
Proof.
  intros H. split; [apply sprand_subs_from_length_le|]. split.
  - intros ->. apply norm_request_saturated in H as (Hp & _ & ->).
    destruct (sprand_req_saturated s draws) as (_ & E2 & E3 & _). auto.
  - intros ->. split; [reflexivity|]. apply sprand_count.
Qed.

(* ---------------------------------------------------------------- values of every normalised request *)
Lemma sprand_req_subs_NoDup sat nz s draws : NoDup (sprand_req_subs sat nz s draws).
Proof.
  unfold sprand_req_subs, sprand_subs_from. cbv zeta. destruct (_ <? _); [apply unique_rows_NoDup|].
  apply NoDup_firstn, redraw_NoDup. apply sprand_init_good.
Qed.

Section ReqValues.
Context {V : Type} (v0 : V).
(* saturated or not: the stored values are the supplied function's output verbatim, the entry at the k-th stored
   subscript is the k-th value, and every entry satisfies any predicate that holds of zero and of the output *)
Theorem sprand_req_values (sat : bool) (nz : nat) (s : shape) (draws : list (list (list Z))) (vals : list V) :
  length vals = length (sprand_req_subs sat nz s draws) ->
  svals (sprand_req sat nz s draws vals) = vals /\
  (forall k, k < length vals ->
     den_sp v0 (sprand_req sat nz s draws vals) (nth k (sprand_req_subs sat nz s draws) []) = nth k vals v0) /\
  (forall P : V -> Prop, P v0 -> Forall P vals -> forall i, P (den_sp v0 (sprand_req sat nz s draws vals) i)).
Proof.
  intros HL. split; [reflexivity|].
  assert (Hn : NoDup (sprand_req_subs sat nz s draws)) by apply sprand_req_subs_NoDup.
  assert (Hk' : forall k, k < length vals ->
     den_sp v0 (sprand_req sat nz s draws vals) (nth k (sprand_req_subs sat nz s draws) []) = nth k vals v0).
  { intros k Hk. unfold den_sp. apply last_match_in.
    + rewrite map_fst_entries by (cbn; lia). exact Hn.
    + unfold entries. cbn [sprand_req ssubs svals].
      rewrite <- (combine_nth (sprand_req_subs sat nz s draws) vals k [] v0) by lia.
      apply nth_In. rewrite combine_length. lia. }
  split; [exact Hk'|].
  intros P P0 HP i. destruct (in_dec (list_eq_dec Nat.eq_dec) i (sprand_req_subs sat nz s draws)) as [Hin|Hout].
  - destruct (In_nth _ _ [] Hin) as (k & Hk & E). rewrite <- E.
    assert (Hk2 : k < length vals) by (rewrite HL; exact Hk). rewrite Hk' by exact Hk2.
    rewrite Forall_forall in HP. apply HP, nth_In. exact Hk2.
  - rewrite den_sp_notin by exact Hout. exact P0.
Qed.
End ReqValues.

(* ---------------------------------------------------------------- bundles for Props/C20.v *)
Theorem all_rows_spec (s : shape) :
  length (all_rows s) = size s /\ (forall i, In i (all_rows s) <-> inb s i = true) /\
  StronglySorted idx_lt (all_rows s) /\ NoDup (all_rows s).
Proof.
  split; [apply all_rows_length|]. split; [apply in_all_rows|]. split; [apply all_rows_sorted|apply all_rows_NoDup].
Qed.

Theorem sprand_from_spec (init : list idx) (nz : nat) (s : shape) (draws : list (list (list Z))) :
  (sprand_subs_from [] nz s draws = sprand_subs nz s draws /\ sprand_consumed_from [] nz s draws = sprand_consumed nz s draws) /\
  (sprand_subs_from init (length init) s draws = init /\ sprand_consumed_from init (length init) s draws = 0).
Proof. split; [apply sprand_subs_from_nil|apply sprand_subs_from_full]. Qed.

Theorem saturated_example :
  let h := (2 ^ 52)%Z in
  norm_request 4 4 1 = Some (true, 4) /\ sptenrand_count_impl 4 1 1 = Some (true, 4) /\
  sprand_req_subs true 4 [2; 2] [] = [[0; 0]; [0; 1]; [1; 0]; [1; 1]] /\ sprand_req_consumed true 4 [2; 2] [[[h; h]]] = 0 /\
  all_rows [2; 3] = [[0; 0]; [0; 1]; [0; 2]; [1; 0]; [1; 1]; [1; 2]] /\
  sprand_req true 6 [2; 3] [] [1; 2; 3; 4; 5; 6]%Z = mkSp [2; 3] (all_rows [2; 3]) [1; 2; 3; 4; 5; 6]%Z /\
  norm_request 2 9 10 = Some (false, 2) /\ sprand_req_consumed false 2 [2] [[[0]; [h]]%Z] = 1 /\
  sprand_req_subs false 2 [2] [[[0]; [h]]%Z] = [[0]; [1]].
Proof. vm_compute. repeat split; reflexivity. Qed.
