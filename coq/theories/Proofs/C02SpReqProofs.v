(* Proofs/C02SpReqProofs.v — sptensor.collapse / scale / contract and tensor.contract AS CALLED (Model/C02SpReq.v): an admissible request is
   accepted and returns the defining sum (collapse: over the modes as the caller listed them); a request outside the domain (mode out of range or
   negative, equal modes, unequally sized modes, ill-shaped tensor / sptensor scaling factor — also for a receiver that stores nothing) is rejected. *)
From Coq Require Import List ZArith Arith Bool Lia Permutation Ring.
From PV Require Import Base.Index Base.Perm Base.Sum Np.NpZ Np.Array Model.Sparse Model.Repr Model.C02Spec Model.C02Dense Model.C02Modes
                       Model.C02Tenmat Model.C02SpMore Model.C02DimsReq Model.C02SpReq Gen.GenUtils
                       Proofs.NpZProofs Proofs.UtilsProofs Proofs.C02DenseProofs Proofs.C02ModesProofs Proofs.C02PermProofs Proofs.C02TenmatProofs
                       Proofs.C02SpMoreProofs Proofs.C02DimsReqProofs Proofs.C02CollapseReq.
Import ListNotations.

Section P.
Variable V : Type.
Variables (v0 v1 : V) (vadd vmul vsub : V -> V -> V) (vopp : V -> V).
Hypothesis Vring : ring_theory v0 v1 vadd vmul vsub vopp (@eq V).
Variable isz : V -> bool.
Add Ring Vr_spreq : Vring.

(* ---------------------------------------------------------------- collapse *)
Theorem collapse_sparse_req_caller (S : sparse V) (d : vec) : wf_sp isz S ->
  dims_ok (Z.of_nat (length (sshape S))) None d ->
  exists k, impl_collapse_sp_req v0 vadd S (Some d) = Ok k /\
    forall i', inb (ttv_shape (sshape S) (nats d)) i' = true ->
      k i' = spec_collapse v0 vadd (den_sp v0 S) (sshape S) (nats d) i'.
Proof.
  intros W Hok. unfold impl_collapse_sp_req. rewrite (dimscheck_dims _ None d Hok).
  eexists. split; [reflexivity|]. intros i' Hi. destruct Hok as (Hr & Hn & _).
  now apply (collapse_sparse_caller V v0 v1 vadd vmul vsub vopp Vring isz).
Qed.

Lemma nats_arange N : nats (np_arange 0 (Z.of_nat N)) = seq 0 N.
Proof.
  unfold nats, np_arange. rewrite Z.sub_0_r, Nat2Z.id, map_map.
  rewrite <- (map_id (seq 0 N)) at 2. apply map_ext. intros k. lia.
Qed.

Theorem collapse_sparse_req_all (S : sparse V) : wf_sp isz S ->
  exists k, impl_collapse_sp_req v0 vadd S None = Ok k /\
    forall i', inb (ttv_shape (sshape S) (seq 0 (length (sshape S)))) i' = true ->
      k i' = spec_collapse v0 vadd (den_sp v0 S) (sshape S) (seq 0 (length (sshape S))) i'.
Proof.
  intros W. unfold impl_collapse_sp_req.
  rewrite (dimscheck_default _ None) by (try lia; exact I). cbn [option_map].
  eexists. split; [reflexivity|]. intros i' Hi. rewrite nats_arange.
  apply (impl_collapse_sp_correct V v0 v1 vadd vmul vsub vopp Vring isz); auto.
  - apply seq_NoDup.
  - intros x Hx. apply in_seq in Hx. lia.
Qed.

Theorem collapse_sparse_req_rejects (S : sparse V) (d : vec) :
  ~ NoDup d \/ (exists x, In x d /\ ~ (0 <= x < Z.of_nat (length (sshape S)))%Z) ->
  impl_collapse_sp_req v0 vadd S (Some d) = Err.
Proof.
  intros H. unfold impl_collapse_sp_req.
  destruct H as [H|(x & Hx & Hr)].
  - now rewrite dimscheck_rejects_repeated.
  - destruct (Z_lt_dec x 0) as [Hneg|Hnn].
    + now rewrite (dimscheck_rejects_negative _ None d x Hx Hneg).
    + rewrite (dimscheck_rejects_out_of_range _ None d x Hx); [reflexivity|lia].
Qed.

(* ---------------------------------------------------------------- scale *)
Hypothesis isz_spec : forall v, isz v = true <-> v = v0.

Lemma den_sp_no_entries (S : sparse V) i : ssubs S = [] -> den_sp v0 S i = v0.
Proof. intros E. unfold den_sp, entries. now rewrite E. Qed.

Theorem scale_sparse_req (S : sparse V) (d : vec) (nd : bool) (fshape : shape) (g : idx -> V) : wf_sp isz S ->
  dims_ok (Z.of_nat (length (sshape S))) None d ->
  fshape = pick 0 (nats (np_sort d)) (sshape S) ->
  exists R, impl_scale_sp_req vmul isz S d nd fshape g = Ok R /\
    sshape R = sshape S /\ wf_sp isz R /\
    forall i, den_sp v0 R i = spec_scale vmul (den_sp v0 S) (nats (np_sort d)) g i.
Proof.
  intros W Hok Ef. unfold impl_scale_sp_req. rewrite (dimscheck_dims _ None d Hok). cbn zeta.
  rewrite <- Ef, idx_eqb_refl.
  destruct (Nat.eqb (length (ssubs S)) 0) eqn:E0.
  - exists S. split; [reflexivity|]. split; [reflexivity|]. split; [exact W|].
    intros i. apply Nat.eqb_eq, length_zero_iff_nil in E0. unfold spec_scale.
    rewrite (den_sp_no_entries S i E0). ring.
  - eexists. split; [reflexivity|].
    exact (impl_scale_sp_correct V v0 v1 vadd vmul vsub vopp Vring isz isz_spec S (nats (np_sort d)) g W).
Qed.

(* d89c921 + 98f7017: an ill-shaped factor of EVERY class (tensor / sptensor / ndarray) is rejected by EVERY receiver, also one that stores no entry *)
Theorem scale_sparse_req_rejects_shape (S : sparse V) (d : vec) (nd : bool) (fshape : shape) (g : idx -> V) :
  dims_ok (Z.of_nat (length (sshape S))) None d ->
  fshape <> pick 0 (nats (np_sort d)) (sshape S) ->
  impl_scale_sp_req vmul isz S d nd fshape g = Err.
Proof.
  intros Hok Hne. unfold impl_scale_sp_req. rewrite (dimscheck_dims _ None d Hok). cbn zeta.
  rewrite (idx_eqb_neq _ _ Hne). cbn. now destruct (Nat.eqb (length (ssubs S)) 0).
Qed.

Theorem scale_sparse_req_rejects_dims (S : sparse V) (d : vec) nd (fshape : shape) (g : idx -> V) :
  ~ NoDup d \/ (exists x, In x d /\ ~ (0 <= x < Z.of_nat (length (sshape S)))%Z) ->
  impl_scale_sp_req vmul isz S d nd fshape g = Err.
Proof.
  intros H. unfold impl_scale_sp_req.
  destruct H as [H|(x & Hx & Hr)].
  - now rewrite dimscheck_rejects_repeated.
  - destruct (Z_lt_dec x 0) as [Hneg|Hnn].
    + now rewrite (dimscheck_rejects_negative _ None d x Hx Hneg).
    + rewrite (dimscheck_rejects_out_of_range _ None d x Hx); [reflexivity|lia].
Qed.

(* ---------------------------------------------------------------- contract *)
Lemma contract_args_ok_iff (s : shape) (i0 i1 : Z) :
  contract_args_ok s i0 i1 = true <->
  (0 <= i0 < Z.of_nat (length s))%Z /\ (0 <= i1 < Z.of_nat (length s))%Z /\
  nth (Z.to_nat i0) s 0 = nth (Z.to_nat i1) s 0 /\ i0 <> i1.
Proof.
  unfold contract_args_ok. rewrite !andb_true_iff, negb_true_iff, Nat.eqb_eq, Z.eqb_neq, !Z.leb_le, !Z.ltb_lt. tauto.
Qed.

Theorem contract_sparse_req (S : sparse V) (i0 i1 : Z) : wf_sp isz S ->
  (0 <= i0 < Z.of_nat (length (sshape S)))%Z -> (0 <= i1 < Z.of_nat (length (sshape S)))%Z -> i0 <> i1 ->
  nth (Z.to_nat i0) (sshape S) 0 = nth (Z.to_nat i1) (sshape S) 0 ->
  exists k, impl_contract_sp_req v0 vadd S i0 i1 = Ok k /\
    forall i', inb (ttv_shape (sshape S) [Z.to_nat i0; Z.to_nat i1]) i' = true ->
      k i' = spec_contract v0 vadd (den_sp v0 S) (sshape S) (Z.to_nat i0) (Z.to_nat i1) i'.
Proof.
  intros W H0 H1 Hne Hs. unfold impl_contract_sp_req.
  replace (contract_args_ok (sshape S) i0 i1) with true by (symmetry; apply contract_args_ok_iff; tauto).
  eexists. split; [reflexivity|]. intros i' Hi.
  apply (impl_contract_sp_correct V v0 v1 vadd vmul vsub vopp Vring isz); auto; lia.
Qed.

(* db95721: negative / out-of-range modes, equal modes and unequally sized modes are rejected *)
Theorem contract_sparse_req_rejects (S : sparse V) (i0 i1 : Z) :
  ~ ((0 <= i0 < Z.of_nat (length (sshape S)))%Z /\ (0 <= i1 < Z.of_nat (length (sshape S)))%Z /\
     nth (Z.to_nat i0) (sshape S) 0 = nth (Z.to_nat i1) (sshape S) 0 /\ i0 <> i1) ->
  impl_contract_sp_req v0 vadd S i0 i1 = Err.
Proof.
  intros H. unfold impl_contract_sp_req.
  destruct (contract_args_ok (sshape S) i0 i1) eqn:E; [|reflexivity].
  apply contract_args_ok_iff in E. contradiction.
Qed.

Theorem contract_dense_req (X : dense V) (i1 i2 : Z) : wf_dense X ->
  (0 <= i1 < Z.of_nat (length (dshape X)))%Z -> (0 <= i2 < Z.of_nat (length (dshape X)))%Z -> i1 <> i2 ->
  nth (Z.to_nat i1) (dshape X) 0 = nth (Z.to_nat i2) (dshape X) 0 ->
  exists Y, impl_contract_dense_req v0 vadd X i1 i2 = Ok Y /\
    dshape Y = ttv_shape (dshape X) [Z.to_nat i1; Z.to_nat i2] /\ wf_dense Y /\
    forall i', inb (ttv_shape (dshape X) [Z.to_nat i1; Z.to_nat i2]) i' = true ->
      den_dense v0 Y i' = spec_contract v0 vadd (den_dense v0 X) (dshape X) (Z.to_nat i1) (Z.to_nat i2) i'.
Proof.
  intros W H1 H2 Hne Hs. unfold impl_contract_dense_req.
  replace (contract_args_ok (dshape X) i1 i2) with true by (symmetry; apply contract_args_ok_iff; tauto).
  eexists. split; [reflexivity|].
  apply (impl_contract_dense_correct V v0 vadd); auto; lia.
Qed.

Theorem contract_dense_req_rejects (X : dense V) (i1 i2 : Z) :
  ~ ((0 <= i1 < Z.of_nat (length (dshape X)))%Z /\ (0 <= i2 < Z.of_nat (length (dshape X)))%Z /\
     nth (Z.to_nat i1) (dshape X) 0 = nth (Z.to_nat i2) (dshape X) 0 /\ i1 <> i2) ->
  impl_contract_dense_req v0 vadd X i1 i2 = Err.
Proof.
  intros H. unfold impl_contract_dense_req.
  destruct (contract_args_ok (dshape X) i1 i2) eqn:E; [|reflexivity].
  apply contract_args_ok_iff in E. contradiction.
Qed.
End P.
