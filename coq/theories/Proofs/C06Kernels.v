(* Proofs/C06Kernels.v — C06 (independence of the stored order) for the multilinear kernels of a sparse tensor, as
   corollaries of the C02 theorems (Props/C02.v: C02_ttv_sparse, C02_ttm_sparse, C02_collapse_sparse,
   C02_contract_sparse, C02_scale_sparse, C02_mask_sparse, C02_innerprod_sparse_dense/_sparse, C02_normsq_sparse; their lemmas in
   Proofs/C02SparseProofs.v, C02IndicatorProofs.v, C02SpMoreProofs.v are used directly): ttv (any mode list), ttm (one mode), collapse (sum), contract,
   scale, mask, innerprod (dense and sparse operand), norm^2.  The C02 models of ttv / ttm / collapse / contract give the
   VALUE of the result at a subscript (the container the result is stored in is not modelled there), so for them the statement
   is: the same value at every subscript for every stored order of the operand; scale returns a coordinate list and is also
   proved well-formed.  Values: any commutative ring (ring_theory) with decidable zero. *)
From Coq Require Import List Arith Lia Bool Permutation Ring.
From PV Require Import Base.Index Base.Perm Base.Sum Np.Array Model.Sparse Model.Repr Model.C03Ops Model.C06Ops
                       Model.C02Spec Model.C02Sparse Model.C02SpKernels Model.C02SpMore
                       Proofs.C03Lemmas Proofs.C03Proofs Proofs.C06Proofs Proofs.C06Other
                       Proofs.C02SparseProofs Proofs.C02IndicatorProofs Proofs.C02SpMoreProofs.
Import ListNotations.

Section Kernels.
Variable V : Type.
Variables (v0 v1 : V) (vadd vmul vsub : V -> V -> V) (vopp : V -> V).
Hypothesis Vring : ring_theory v0 v1 vadd vmul vsub vopp (@eq V).
Variable isz : V -> bool.
Hypothesis isz_spec : forall v, isz v = true <-> v = v0.
Notation den := (den_sp v0).
Notation wf := (wf_sp isz).

(* two stored orders of one tensor *)
Definition reordered (S S' : sparse V) : Prop :=
  wf S /\ wf S' /\ sshape S' = sshape S /\ Permutation (entries S) (entries S').

Lemma reordered_den (S S' : sparse V) : reordered S S' -> forall i, den S i = den S' i.
Proof. intros (W & _ & _ & P). now apply (perm_den v0 isz). Qed.

Lemma sum_modes_pointwise sizes : forall vs (g h : idx -> V), (forall ks, g ks = h ks) ->
  sum_modes v0 vadd vmul sizes vs g = sum_modes v0 vadd vmul sizes vs h.
Proof.
  induction sizes as [|d sizes IH]; intros [|v vs] g h H; cbn [sum_modes]; try apply H.
  apply sum_n_ext. intros k _. f_equal. apply IH. intros ks. apply H.
Qed.

Theorem indep_ttv (S S' : sparse V) dims vs i' : reordered S S' ->
  NoDup dims -> (forall x, In x dims -> x < length (sshape S)) -> length vs = length dims ->
  inb (ttv_shape (sshape S) dims) i' = true ->
  impl_ttv_sp v0 v1 vadd vmul S dims vs i' = impl_ttv_sp v0 v1 vadd vmul S' dims vs i' /\
  impl_ttv_sp v0 v1 vadd vmul S dims vs i' = spec_ttv v0 vadd vmul (den S) (sshape S) dims vs i'.
Proof.
  intros R Hn Hb Hl Hi. pose proof (reordered_den S S' R) as E. destruct R as (W & W' & Hs & _).
  rewrite (impl_ttv_sp_correct V v0 v1 vadd vmul vsub vopp Vring isz S dims vs i') by auto.
  rewrite (impl_ttv_sp_correct V v0 v1 vadd vmul vsub vopp Vring isz S' dims vs i') by (rewrite ?Hs; auto).
  split; [|reflexivity]. rewrite Hs. unfold spec_ttv. apply sum_modes_pointwise. intros ks. apply E.
Qed.

Theorem indep_ttm (S S' : sparse V) n U tr i : reordered S S' ->
  n < length (sshape S) -> length i = length (sshape S) ->
  inb (remove_at n (sshape S)) (remove_at n i) = true ->
  impl_ttm_sp v0 vadd vmul S n U tr i = impl_ttm_sp v0 vadd vmul S' n U tr i /\
  impl_ttm_sp v0 vadd vmul S n U tr i = spec_ttm v0 vadd vmul (den S) (sshape S) n U tr i.
Proof.
  intros R Hn Hl Hi. pose proof (reordered_den S S' R) as E. destruct R as (W & W' & Hs & _).
  rewrite (impl_ttm_sp_correct V v0 v1 vadd vmul vsub vopp Vring isz S n U tr i) by auto.
  rewrite (impl_ttm_sp_correct V v0 v1 vadd vmul vsub vopp Vring isz S' n U tr i) by (rewrite ?Hs; auto).
  split; [|reflexivity]. rewrite Hs. unfold spec_ttm. apply sum_n_ext. intros k _. f_equal. apply E.
Qed.

Theorem indep_collapse (S S' : sparse V) dims i' : reordered S S' ->
  NoDup dims -> (forall x, In x dims -> x < length (sshape S)) ->
  inb (ttv_shape (sshape S) dims) i' = true ->
  impl_collapse_sp v0 vadd S dims i' = impl_collapse_sp v0 vadd S' dims i' /\
  impl_collapse_sp v0 vadd S dims i' = spec_collapse v0 vadd (den S) (sshape S) dims i'.
Proof.
  intros R Hn Hb Hi. pose proof (reordered_den S S' R) as E. destruct R as (W & W' & Hs & _).
  rewrite (impl_collapse_sp_correct V v0 v1 vadd vmul vsub vopp Vring isz S dims i') by auto.
  rewrite (impl_collapse_sp_correct V v0 v1 vadd vmul vsub vopp Vring isz S' dims i') by (rewrite ?Hs; auto).
  split; [|reflexivity]. rewrite Hs. unfold spec_collapse. apply sum_over_ext. intros ks _. apply E.
Qed.

Theorem indep_contract (S S' : sparse V) i1 i2 i' : reordered S S' ->
  i1 <> i2 -> i1 < length (sshape S) -> i2 < length (sshape S) ->
  nth i1 (sshape S) 0 = nth i2 (sshape S) 0 ->
  inb (ttv_shape (sshape S) [i1; i2]) i' = true ->
  impl_contract_sp v0 vadd S i1 i2 i' = impl_contract_sp v0 vadd S' i1 i2 i' /\
  impl_contract_sp v0 vadd S i1 i2 i' = spec_contract v0 vadd (den S) (sshape S) i1 i2 i'.
Proof.
  intros R Hne H1 H2 He Hi. pose proof (reordered_den S S' R) as E. destruct R as (W & W' & Hs & _).
  rewrite (impl_contract_sp_correct V v0 v1 vadd vmul vsub vopp Vring isz S i1 i2 i') by auto.
  rewrite (impl_contract_sp_correct V v0 v1 vadd vmul vsub vopp Vring isz S' i1 i2 i') by (rewrite ?Hs; auto).
  split; [|reflexivity]. rewrite Hs. unfold spec_contract. apply sum_n_ext. intros k _. apply E.
Qed.

(* scale returns a coordinate list: well-formed (no explicit zero where the factor vanishes) and the same result *)
Theorem indep_scale (S S' : sparse V) dims (g : idx -> V) : reordered S S' ->
  same_result v0 isz (impl_scale_sp vmul isz S dims g) (impl_scale_sp vmul isz S' dims g).
Proof.
  intros R. pose proof (reordered_den S S' R) as E. destruct R as (W & W' & Hs & _).
  destruct (impl_scale_sp_correct V v0 v1 vadd vmul vsub vopp Vring isz isz_spec S dims g W) as (S1 & W1 & D1).
  destruct (impl_scale_sp_correct V v0 v1 vadd vmul vsub vopp Vring isz isz_spec S' dims g W') as (S2 & W2 & D2).
  apply (same_den_same_result v0 isz isz_spec); [exact W1|exact W2|congruence|].
  intros i _. rewrite D1, D2. unfold spec_scale. now rewrite E.
Qed.

Theorem indep_mask (S S' : sparse V) wsubs : reordered S S' ->
  impl_mask_sp v0 S wsubs = impl_mask_sp v0 S' wsubs /\ impl_mask_sp v0 S wsubs = map (den S) wsubs.
Proof.
  intros R. pose proof (reordered_den S S' R) as E. destruct R as (W & W' & Hs & _).
  rewrite (impl_mask_sp_correct V v0 isz S wsubs W), (impl_mask_sp_correct V v0 isz S' wsubs W').
  split; [|reflexivity]. unfold spec_mask. apply map_ext. intros i. apply E.
Qed.

Theorem indep_innerprod_dense (S S' : sparse V) (T : dense V) : reordered S S' ->
  impl_innerprod_sp_dense v0 vadd vmul S T = impl_innerprod_sp_dense v0 vadd vmul S' T.
Proof.
  intros R. pose proof (reordered_den S S' R) as E. destruct R as (W & W' & Hs & _).
  rewrite (impl_innerprod_sp_dense_correct V v0 v1 vadd vmul vsub vopp Vring isz S T W).
  rewrite (impl_innerprod_sp_dense_correct V v0 v1 vadd vmul vsub vopp Vring isz S' T W').
  rewrite Hs. unfold spec_innerprod. apply sum_over_ext. intros i _. now rewrite E.
Qed.

(* both operands re-ordered; covers both sides of the nnz(self) < nnz(other) switch *)
Theorem indep_innerprod_sparse (A A' B B' : sparse V) : reordered A A' -> reordered B B' -> sshape A = sshape B ->
  impl_innerprod_sp_sp v0 vadd vmul A B = impl_innerprod_sp_sp v0 vadd vmul A' B'.
Proof.
  intros RA RB Hs. pose proof (reordered_den A A' RA) as EA. pose proof (reordered_den B B' RB) as EB.
  destruct RA as (WA & WA' & HsA & _). destruct RB as (WB & WB' & HsB & _).
  rewrite (impl_innerprod_sp_sp_correct V v0 v1 vadd vmul vsub vopp Vring isz A B WA WB Hs).
  rewrite (impl_innerprod_sp_sp_correct V v0 v1 vadd vmul vsub vopp Vring isz A' B' WA' WB') by congruence.
  rewrite HsA. unfold spec_innerprod. apply sum_over_ext. intros i _. now rewrite EA, EB.
Qed.

Theorem indep_normsq (S S' : sparse V) : reordered S S' ->
  impl_normsq_sp v0 vadd vmul S = impl_normsq_sp v0 vadd vmul S'.
Proof.
  intros R. pose proof (reordered_den S S' R) as E. destruct R as (W & W' & Hs & _).
  rewrite (impl_normsq_sp_correct V v0 v1 vadd vmul vsub vopp Vring isz S W).
  rewrite (impl_normsq_sp_correct V v0 v1 vadd vmul vsub vopp Vring isz S' W').
  rewrite Hs. unfold spec_normsq, spec_innerprod. apply sum_over_ext. intros i _. now rewrite E.
Qed.
End Kernels.
