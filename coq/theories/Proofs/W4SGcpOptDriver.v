(* Proofs/W4SGcpOptDriver.v — BRIDGE between the GENERATED driver (Gen/GenGcpOpt.v: gcp_opt + _get_initial_guess) and the hand-written
   decision procedure Alg/C13Driver.v (builder w5-C13): the kernels of the generated Section are instantiated with the abstraction of a
   `drequest` (what the isinstance / len / shape tests look at), the `info` the solve kernels return is the `dcall` they were called
   with, and the generated function returns exactly `Call c g` of the hand model — or raises where it says `Raise`.
   Exceptions raised INSIDE a kernel are outside the skeleton: the two oracles of the hand model that make a kernel raise (fg_setup.setup
   rejecting the data / an objective that needs an additional parameter; ttb.ktensor(list) raising) are excluded by `kernels_return`. *)
From Coq Require Import List Arith Bool.
From PV Require Import Model.W4SPrelude Gen.GenGcpOpt Alg.C13Driver.
Import ListNotations.
Local Open Scope nat_scope.

Inductive ktok := KReq (i : ireq) | KList (shape_ok rank_ok : bool) | KBuilt | KDone (g : iguess).
Inductive mtok := MK (m : mkind) | MData.          (* the caller's mask / mask.data *)
Definition dtok := (dkind * bool)%type.            (* kind, multiplied by the mask *)

Definition marg_of (m : mtok) : marg := match m with MK MNone => MaNone | MK MArray => MaArray | MK MTensor => MaTensorData | MData => MaTensorData end.
Definition lb_of (o : objreq) : lbound := match o with OEnum e => match setup_lb e with Some lb => lb | None => NegInf end | OTuple _ => UserLb end.

Definition zdriver (r : drequest) : option (ktok * ktok * dcall * unit) :=
  GenGcpOpt.gcp_opt unit dtok objreq solver_kind ktok mtok unit unit lbound dcall unit
    (* k_init_is_sequence, k_init_is_str *)
    (fun i => match i with KReq (IList _ _ _) | KReq IRandom => true | _ => false end)
    (fun i => match i with KReq IRandom => true | _ => false end)
    (* k_ktensor_of *)
    (fun i => match i with KReq (IList _ s k) => KList s k | _ => i end)
    (* k_init_is_ktensor, shape_differs, ncomp_differs *)
    (fun i => match i with KReq (IKtensor _ _) | KList _ _ => true | _ => false end)
    (fun i _ => match i with KReq (IKtensor s _) | KList s _ => negb s | _ => false end)
    (fun i _ => match i with KReq (IKtensor _ k) | KList _ k => negb k | _ => false end)
    (* k_normalize_all *)
    (fun i => match i with KReq (IKtensor _ _) => KDone GCallerKtensor | KList _ _ => KDone GFromList | KBuilt => KDone GRandom | _ => i end)
    (* k_init_is_random, k_ndims, k_append_random_factor, k_ktensor_of_factors, k_scale_to_data *)
    (fun i => match i with KReq IRandom => true | _ => false end)
    (fun _ => 0) (fun w fm _ _ _ => (w, fm)) (fun _ => KBuilt) (fun i _ => i)
    (* k_objective_is_enum, k_objective_len, k_setup, k_unpack_objective *)
    (fun o => match o with OEnum _ => true | OTuple _ => false end)
    (fun o => match o with OEnum _ => 0 | OTuple n => n end)
    (fun o _ => (tt, tt, lb_of o)) (fun o => (tt, tt, lb_of o))
    (* k_data_supported, k_data_is_dense, k_mask_is_tensor, k_apply_mask, k_data_is_sparse, k_mask_given *)
    (fun d => match fst d with DOther => false | _ => true end)
    (fun d => match fst d with DDense => true | _ => false end)
    (fun m => match m with MK MTensor => true | _ => false end)
    (fun d _ => (fst d, true))
    (fun d => match fst d with DSparse => true | _ => false end)
    (fun m => match m with MK MNone => false | _ => true end)
    (* k_optimizer_supported, is_lbfgsb, is_stochastic *)
    (fun s => match s with SOther => false | _ => true end)
    (fun s => match s with SLbfgsb => true | _ => false end)
    (fun s => match s with SStochastic => true | _ => false end)
    (* k_solve_stochastic, k_mask_data, k_solve_lbfgsb, k_set_main_time *)
    (fun w _ M0 d _ _ lb _ => (w, (M0, CStochastic lb (snd d) true)))
    (fun _ => MData)
    (fun w _ M0 d _ _ lb m => (w, (M0, CLbfgsb lb (snd d) (marg_of m))))
    (fun i => i)
    tt (r_data r, false) 1 (r_obj r) (r_opt r) (KReq (r_init r)) (MK (r_mask r)) tt 0.

(* the kernels of this request return: setup accepts (objective, data), ttb.ktensor(list) returns *)
Definition kernels_return (r : drequest) : bool :=
  match r_obj r with OEnum o => match setup_lb o with Some _ => r_valid r | None => false end | OTuple _ => true end &&
  match r_init r with IList false _ _ => false | _ => true end.
Definition outcome_opt (o : doutcome) : option (ktok * ktok * dcall * unit) :=
  match o with Raise _ => None | Call c g => Some (KDone g, KDone g, c, tt) end.

Theorem gcp_opt_driver_bridge : forall r, kernels_return r = true -> zdriver r = outcome_opt (C13Driver.gcp_opt r).
Proof.
  intros [[o|len] v d m i s] H; unfold kernels_return in H; cbn [r_obj r_valid r_init] in H.
  - destruct o, v; cbn in H; try discriminate H;
      destruct d, m, i as [|a b|[|] a b|], s; try destruct a; try destruct b; try discriminate H; reflexivity.
  - unfold zdriver, GenGcpOpt.gcp_opt, C13Driver.gcp_opt. cbn [r_obj r_valid r_data r_mask r_init r_opt negb].
    destruct (len =? 3); cbn [negb]; [|reflexivity].
    destruct d, m, i as [|a b|[|] a b|], s; try destruct a; try destruct b; try discriminate H; reflexivity.
Qed.

(* consequences over the generated driver, transported from Alg/C13Driver.v *)
Theorem gcp_opt_driver_accepts : forall r, kernels_return r = true ->
  ((exists res, zdriver r = Some res) <-> admissible r = true).
Proof.
  intros r H. rewrite (gcp_opt_driver_bridge r H). rewrite <- driver_accepts_iff. split.
  - intros [res E]. destruct (C13Driver.gcp_opt r) as [e|c g]; [discriminate E|]. eauto.
  - intros (c & g & E). rewrite E. cbn. eauto.
Qed.
Theorem gcp_opt_driver_call : forall r M0 res c w, kernels_return r = true -> zdriver r = Some (res, M0, c, w) ->
  exists g, M0 = KDone g /\ res = KDone g /\ C13Driver.gcp_opt r = Call c g.
Proof.
  intros r M0 res c w H E. rewrite (gcp_opt_driver_bridge r H) in E.
  destruct (C13Driver.gcp_opt r) as [e|c' g]; [discriminate E|]. cbn in E. inversion E. subst. eauto.
Qed.
