"""C20 — generators and aggregating constructors build what they advertise (DESIGN §C20).

Random draws are captured by wrapping numpy.random.uniform in the harness process, so the model runs on the
same draws; uniform values u = m / 2^53 are carried as the integer m (exact)."""
import itertools
import math
from fractions import Fraction

from vcheck import Case, gz, gzlist, gnlist, gnmat, gq
import tgen
try:
    from props import c20_w3 as W3
except ImportError:          # executed from tools/props
    import c20_w3 as W3

PROP = "C20"
LEVEL = "proof"
GEN_UNITS = ["GenUtils3", "GenUtils3b"]      # (GenUtils3b: Props/C20w5.v - tendiag / sptendiag line by line over the GENERATED parse_one_d / parse_shape) Props/C20Gen.v states the size / subscript / value checks of from_aggregator (and sptendiag) over the GENERATED tt_sizecheck / tt_subscheck / tt_valscheck
COQ_TARGETS = ["Props/C20.vo", "Props/C20Gen.vo", "Props/C20w5.vo", "Model/C20Diag.vo", "Model/C20Lines.vo", "Model/C20Harness.vo", "Model/C20Pack.vo", "Model/Harness.vo"]
THEOREM_FILES = ["Props/C20.v", "Props/C20Gen.v", "Props/C20w5.v"]
# PrimInt63 FIRST (only for the [...]%uint63 literals of C20Pack.zs/zss/zsss): its names are shadowed again by the later imports
COQ_IMPORTS = ("From Coq Require Import PrimInt63.\n"
               "From Coq Require Import List ZArith Bool QArith Qcanon.\n"
               "From PV Require Import Base.Index Np.Array Model.Sparse Model.Repr Model.Harness Model.C20Gen Model.C20Harness Model.C20Pack Model.C20Diag Model.C20Lines.\n")
RULE = ("all shapes with <= 8 cells + seeded random shapes (orders 1-5, singleton modes); function outputs as C-, F-ordered, "
        "1-d and differently shaped arrays with distinct values; diagonal element vectors of length 1-4 against no shape / "
        "shorter / longer / mixed shapes (1-4 modes); aggregator inputs with arbitrary multiplicities, unsorted, zero-summing "
        "groups, 9 reducers, inferred and explicit shapes, malformed (out of range, count mismatch); random sparse generators "
        "with counts 0..size and beyond, dyadic densities up to 1, seeds 0.., draws captured from numpy.random.uniform; "
        "near-saturation requests size-1 / size-2 (the union fallback of the A-46 repair decides); INJECTED low-entropy draw streams "
        "(numpy.random.uniform replaced by u = (j+1/2)/levels, levels 1/2/4: all ten draws and mostly their union stay short); "
        "teneye for (order,size) in {2}x{1..4}, {4}x{1..3}, {6}x{2} (entries against pyttb's count AND the closed entry formula), "
        "(8,2), (6,3) against the closed formula only; malformed stream: negative / zero / empty / fractional "
        "shapes for tenones, tenzeros, tenrand, tendiag, sptendiag, orders <= 0 / odd and negative sizes for teneye, "
        "densities outside (0,1], 2-d element arrays; aggregator inputs with pairwise distinct subscripts and zero values; "
        "wave 3 (c20_w3.py): function outputs / element vectors / subscript and value arrays as F-, C-ordered, transposed, strided and "
        "negatively strided views of int64 and float dtype, wrong shapes and counts, zero-size shapes, a second call with the same "
        "function object / arrays, the caller's vector overwritten afterwards; tenones/tenzeros/tendiag/teneye with order='C'; "
        "tendiag/sptendiag with repeated, several-zero, all-zero element vectors, NO element, the EMPTY shape, zero and negative sizes; "
        "from_aggregator without a pair, with sizes below one, without a shape, and duplicate-heavy unsorted inputs in which groups are "
        "planted that each of the 13 reducer names (mean included) sends to zero; ktensor.from_function with zero-size modes; teneye "
        "(6,1), (8,1), (6,2), numpy-integer arguments; sequences of 1-4 random generator calls under ONE global seed (captured uniform "
        "stream = stream of RandomState(seed), global state afterwards = that generator's state, sequence reproducible, every call "
        "checked by its model); wave 5 (op diag_lines): tendiag / sptendiag with FLEXIBLE arguments - elements as int, list, tuple, "
        "1-d / 1 x n / n x 1 / 0-d / 2 x 2 arrays (int and float), shapes as none, tuple, list, int, 1-d and n x 1 integer arrays, float "
        "arrays, 2 x 2 arrays, nested lists, the empty tuple - against the line-by-line models over the generated parse_one_d / "
        "parse_shape; non-trivial = more than one cell and not constant")
CORRESPONDENCE_ONLY = [
    "tenrand / sptenrand: that numpy's uniform draws lie in [0,1) is checked on the drawn samples only (a property of numpy's "
    "generator); that the tensor's values ARE the draws is proved (C20_from_function_values, C20_sprand_values)",
    "request normalisation of sptensor.from_function / sptenrand: that numpy forms prod(shape)*nonzeros and prod(shape)*density in "
    "IEEE binary64 round-to-nearest-even is compared on every case with the model's own rounding C20Gen.round64 (no float is an "
    "input of the model any more; C20_round64_exact, C20_request_r64: representable product => exact-rational model)",
    "global-seed discipline of the random generators (the uniform calls they make are exactly the next draws of the global "
    "generator seeded by numpy.random.seed, nothing else is drawn and nothing is reseeded): observed on generated sequences of "
    "calls against an independent numpy.random.RandomState(seed); numpy's generator itself is not modelled",
]
ASSUMPTIONS = [
    "literals of the generated cases: the captured 53-bit draw numerators are written as primitive 63-bit integers and decoded with the "
    "standard library's Uint63.to_Z (Model/C20Pack.v) - Coq's VM evaluation of primitive integers is trusted like vm_compute itself; "
    "no theorem depends on it",
    "random draws are inputs of the model: the theorems speak about the post-processing of an arbitrary matrix of draws; "
    "the distribution of numpy.random is not modelled",
    "floor(u*d) is computed on exact rationals (u = m/2^53); numpy rounds u*d to a double first (differs with probability ~d*2^-53)",
]
EXPLANATION = ("Deterministic generators: theorems for all shapes/values over an arbitrary value type (ring-generic where sums occur). "
               "Random generators: theorems about the deterministic post-processing of the captured draw matrices; the "
               "correspondence replays numpy's draws (captured by wrapping numpy.random.uniform) through the model and "
               "compares raw stored lists and the number of draws consumed (seeded reproducibility = output is a function "
               "of the captured stream; additionally every seeded call is executed twice and must coincide). After the repairs "
               "of C20-N1..N8 and A-46 only the repaired behaviour is accepted everywhere (A-46: the redraw loop with the union of "
               "all consumed draws as a fallback, C20Gen.sprand_subs; C20_sprand_count states what is guaranteed: nnz = "
               "min(request, distinct rows over all consumed draws); C20-N3, /repo 2b4b024: a request equal to the tensor size is the "
               "saturated request - every subscript in np.ndindex order, no draw consumed, C20_saturated_request); there is no open "
               "finding and no either-or region. The size / subscript / value checks of from_aggregator are stated over the "
               "translator-generated tt_sizecheck / tt_subscheck / tt_valscheck (Props/C20Gen.v). "
               "Corner requests of tendiag / sptendiag / from_aggregator (no element, empty shape, no pair, sizes below one) are "
               "checked against request models that state what the property demands (C20_tendiag_request, C20_sptendiag_request, "
               "C20_aggregator_request). Wave 5: tendiag / sptendiag are transliterated line by line over the generated parse_one_d / "
               "parse_shape / tt_*check (Model/C20Diag.v); Props/C20w5.v proves them equal to those request models and proves that the "
               "dense and the sparse diagonal generator denote the same array. The 53-bit draw numerators of the cases are uint63 "
               "literals decoded by Uint63.to_Z (Model/C20Pack.v; memory of a case shard 2.4 GB -> 0.6 GB).")

REDUCERS = {
    "sum": "RSum", "max": "RMax", "min": "RMin", "prod": "RProd", "first": "RFirst", "last": "RLast", "len": "RLen",
    "np.sum": "RSum", "np.max": "RMax", "np.min": "RMin", "first_minus_rest": "RFirstMinusRest", "ten_first_plus_last": "RTenFirstPlusLast",
}
# wave 3: generated only with group sums divisible by the group size (exact); not in the round-robin of the older streams
REDUCERS_W3 = dict(REDUCERS, **{"mean": "RMean", "np.mean": "RMean"})


def _reducer(np, name):
    if name == "np.sum":
        return np.sum
    if name == "np.max":
        return np.max
    if name == "np.min":
        return np.min
    if name == "np.mean":
        return np.mean
    if name == "first_minus_rest":
        return lambda x: x[0] - np.sum(x[1:])
    if name == "ten_first_plus_last":
        return lambda x: 10 * x[0] + x[-1]
    return name


# ---------------------------------------------------------------- generators
def gen_cases(rng, tier):
    big = tier == "thorough"
    cases = []
    shapes = tgen.shapes_upto(8) + [tuple(tgen.rand_shape(rng, maxn=5, maxcells=120)) for _ in range(80 if big else 15)]
    for shp in shapes:
        n = math.prod(shp)
        cases.append(Case("tenones", {"shape": list(shp)}, n > 1))
        cases.append(Case("tenzeros", {"shape": list(shp)}, n > 1))
    for k in range(60 if big else 12):
        shp = tgen.rand_shape(rng, maxn=4, maxcells=60)
        cases.append(Case("tenrand", {"shape": shp, "seed": k}, math.prod(shp) > 1))
    # tensor.from_function: the function's output in several guises
    for shp in [s for s in shapes if math.prod(s) > 1][:: (1 if big else 2)]:
        n = math.prod(shp)
        vals = [rng.randint(-9, 9) for _ in range(n)]
        vals[0] = 11
        for kind in ("same_F", "same_C", "vec", "reversed_shape", "flat2d"):
            if kind in ("same_F", "same_C"):
                oshape = list(shp)
            elif kind == "vec":
                oshape = [n]
            elif kind == "reversed_shape":
                oshape = list(shp)[::-1]
            else:
                oshape = [1, n]
            cases.append(Case("from_function", {"shape": list(shp), "oshape": oshape, "ovals": vals, "kind": kind}, True))
        cases.append(Case("from_function", {"shape": list(shp), "oshape": [n + 1], "ovals": vals + [5], "kind": "vec"}, True))
        cases.append(Case("from_function", {"shape": list(shp), "oshape": [n - 1], "ovals": vals[:-1], "kind": "vec"}, True))
    # ktensor.from_function
    for _ in range(80 if big else 20):
        shp = tgen.rand_shape(rng, maxn=4, maxcells=10 ** 6, maxdim=5)
        R = rng.randint(1, 4)
        outs = [[[rng.randint(-4, 5) for _ in range(R)] for _ in range(d)] for d in shp]
        cases.append(Case("kfrom_function", {"shape": shp, "R": R, "outs": outs, "mem": rng.choice(["C", "F"])}, True))
    # tendiag / sptendiag: element vectors longer or shorter than the requested shape
    dshapes = [None]
    for M in (1, 2, 3, 4):
        for dims in itertools.product((1, 2, 3, 5), repeat=M):
            if math.prod(max(4, d) for d in dims) <= 700:
                dshapes.append(list(dims))
    for N in (1, 2, 3, 4):
        for shp in dshapes:
            if shp is not None and len(shp) >= 3 and not big and rng.random() < 0.6:
                continue
            for rep in range(2 if big else 1):
                e = [rng.choice([-3, -1, 2, 4, 7]) for _ in range(N)]
                if rep == 1 or rng.random() < 0.3:
                    e[rng.randrange(N)] = 0
                cases.append(Case("tendiag", {"e": e, "shape": shp}, N > 1))
                cases.append(Case("sptendiag", {"e": e, "shape": shp}, N > 1))
    # from_aggregator
    names = list(REDUCERS)
    for k in range(700 if big else 170):
        shp = tgen.rand_shape(rng, maxn=4, maxcells=48, maxdim=4)
        n = math.prod(shp)
        allsubs = tgen.all_subs(shp)
        npool = rng.choice([1, 2, 3, min(n, 5), n])
        pool = rng.sample(allsubs, min(npool, n))
        cnt = rng.choice([1, 2, 3, 5, 8, 12])
        subs = [list(rng.choice(pool)) for _ in range(cnt)]
        vals = [rng.choice([-3, -2, -1, 1, 2, 3, 4, 0]) for _ in range(cnt)]
        if cnt >= 2 and rng.random() < 0.25:       # a group that sums to zero
            subs[1] = list(subs[0])
            vals[1] = -vals[0]
        red = names[k % len(names)]
        given = rng.random() < 0.7
        cases.append(Case("aggregator", {"shape": list(shp) if given else None, "N": len(shp), "subs": subs, "vals": vals,
                                         "reducer": red}, cnt > 1))
    # pairwise DISTINCT subscripts (nothing is merged) with zero values in the data: the zero must still be dropped
    for k in range(120 if big else 40):
        shp = tgen.rand_shape(rng, maxn=4, maxcells=48, maxdim=4)
        allsubs = tgen.all_subs(shp)
        cnt = rng.randint(1, min(len(allsubs), 6))
        subs = [list(x) for x in rng.sample(allsubs, cnt)]
        vals = [rng.choice([-3, -2, 1, 2, 4]) for _ in range(cnt)]
        for z in rng.sample(range(cnt), rng.randint(1, max(1, cnt // 2))):
            vals[z] = 0
        cases.append(Case("aggregator", {"shape": list(shp) if k % 3 else None, "N": len(shp), "subs": subs, "vals": vals,
                                         "reducer": names[k % len(names)]}, cnt > 1))
    for red in names:       # the docstring example and an unsorted one, every reducer
        cases.append(Case("aggregator", {"shape": [4, 4], "N": 2, "subs": [[1, 2], [1, 3], [1, 3]], "vals": [6, 7, 8], "reducer": red}, True))
        cases.append(Case("aggregator", {"shape": [2, 3], "N": 2, "subs": [[1, 2], [0, 1], [1, 2], [0, 0], [1, 2], [0, 1]],
                                         "vals": [3, 4, 5, 7, -8, -4], "reducer": red}, True))
    # malformed
    cases.append(Case("aggregator", {"shape": [2, 3], "N": 2, "subs": [[1, 3], [1, 2]], "vals": [3, -3], "reducer": "sum"}, True))
    cases.append(Case("aggregator", {"shape": [2, 3], "N": 2, "subs": [[2, 0], [1, 2]], "vals": [3, -3], "reducer": "max"}, True))
    cases.append(Case("aggregator", {"shape": [2, 3], "N": 2, "subs": [[1, 1], [1, 2]], "vals": [3, -3, 4], "reducer": "sum"}, True))
    cases.append(Case("aggregator", {"shape": [2, 3], "N": 2, "subs": [[1, 1], [1, 2], [0, 0]], "vals": [3, -3], "reducer": "sum"}, True))
    # random sparse generators: counts up to saturation and beyond, dyadic densities, seeds
    seed = 0
    rshapes = [(2, 2), (2, 3), (3,), (1,), (4, 3, 2), (1, 5), (2, 2, 2, 2), (6, 5), (3, 3, 3)]
    rshapes += [tuple(tgen.rand_shape(rng, maxn=4, maxcells=40)) for _ in range(25 if big else 5)]     # (wave 5: the draws are uint63 literals, C20Pack - a thorough shard is <= 0.6 GB)
    for shp in rshapes:
        total = math.prod(shp)
        reqs = {0, 1, 2, total - 1, total, total + 1, max(0, total // 2), max(0, total - 2)}
        reqs = [Fraction(r) for r in sorted(reqs)] + [Fraction(-1), Fraction(1, 2), Fraction(1, 4), Fraction(3, 4), Fraction(1, 16),
                                                     Fraction(15, 16), Fraction(11, 4), Fraction(1, 1024)]
        for r in reqs:
            for rep in range(2 if big else 1):
                fn = rng.choice(["ones", "counter", "uniform"])
                cases.append(Case("sp_from_function", {"shape": list(shp), "p": r.numerator, "q": r.denominator, "fn": fn, "seed": seed},
                                  total > 1))
                seed += 1
        for r in [Fraction(1, 1), Fraction(1, 2), Fraction(1, 4), Fraction(1, 8), Fraction(3, 4), Fraction(1, 64), Fraction(7, 8), Fraction(1, 32)]:
            cases.append(Case("sptenrand", {"shape": list(shp), "mode": "density", "p": r.numerator, "q": r.denominator, "seed": seed}, total > 1))
            seed += 1
        for r in sorted({0, 1, 2, total - 1, total, max(0, total // 2)}):
            cases.append(Case("sptenrand", {"shape": list(shp), "mode": "nonzeros", "p": r, "q": 1, "seed": seed}, total > 1))
            seed += 1
    # non-dyadic densities / requests: the double products are inexact and enter the model as inputs
    for shp in rshapes[: (len(rshapes) if big else 8)]:
        for d in (0.1, 0.3, 1.0 / 3.0, 0.7, 0.29, 0.07, 0.999):
            fr = Fraction(d)
            cases.append(Case("sptenrand", {"shape": list(shp), "mode": "density", "p": fr.numerator, "q": fr.denominator, "seed": seed},
                              math.prod(shp) > 1))
            seed += 1
            cases.append(Case("sp_from_function", {"shape": list(shp), "p": fr.numerator, "q": fr.denominator, "fn": "counter", "seed": seed},
                              math.prod(shp) > 1))
            seed += 1
        for r in (Fraction(-1, 2), Fraction(0), Fraction(3, 2), Fraction(2)):     # densities outside (0, 1]
            cases.append(Case("sptenrand", {"shape": list(shp), "mode": "density", "p": r.numerator, "q": r.denominator, "seed": seed}, True))
            seed += 1
    # inputs of the repaired findings (C20-N4 single pair, C20-N1 density*size < 1, C20-N2 zero count) and of the open ones
    for red in names:
        cases.append(Case("aggregator", {"shape": [4], "N": 1, "subs": [[0]], "vals": [3], "reducer": red}, False))
        cases.append(Case("aggregator", {"shape": [2, 2], "N": 2, "subs": [[1, 0]], "vals": [0], "reducer": red}, False))
    cases.append(Case("sptendiag", {"e": [5], "shape": None}, False))
    cases.append(Case("sptendiag", {"e": [0], "shape": [2, 2]}, False))
    cases.append(Case("sptenrand", {"shape": [10, 10], "mode": "density", "p": 1, "q": 256, "seed": 0}, True))
    cases.append(Case("sp_from_function", {"shape": [2, 3], "p": 0, "q": 1, "fn": "ones", "seed": 0}, True))
    cases.append(Case("sp_from_function", {"shape": [2, 3], "p": 5, "q": 1, "fn": "ones", "seed": 0}, True))
    cases.append(Case("sptenrand", {"shape": [2, 2], "mode": "density", "p": 1, "q": 1, "seed": 0}, True))
    # witnesses of the repaired findings kept as ordinary regression cases: A-46 is the (2,3) request 5 seed 0 above;
    # C20-N6 tendiag without element, C20-N7 sptendiag with elements and the empty shape; C20-N8 a numpy-typed count
    for lay in ("plain", "list"):
        cases.append(Case("diag2", {"kind": "tendiag", "e": [], "shape": [2, 2], "edtype": "float", "elayout": lay, "order": "F"}, False))
        cases.append(Case("diag2", {"kind": "sptendiag", "e": [1, 2], "shape": [], "edtype": "float", "elayout": lay, "order": None}, True))
    cases.append(Case("sptenrand", {"shape": [3, 4], "mode": "nonzeros", "p": 3, "q": 1, "seed": 0, "ntype": "np"}, True))
    # near saturation (the redraw loop cannot succeed, the union fallback of the A-46 repair decides): request size-1 / size-2
    for k, shp in enumerate([(5, 5), (4, 3, 2), (7,), (2, 2, 2, 2), (3, 3)]):
        total = math.prod(shp)
        for r in (total - 1, total - 2):
            cases.append(Case("sp_from_function", {"shape": list(shp), "p": r, "q": 1, "fn": ("counter", "uniform", "ones")[k % 3],
                                                   "seed": 7000 + 10 * k + r}, True))
            cases.append(Case("sptenrand", {"shape": list(shp), "mode": "nonzeros", "p": r, "q": 1, "seed": 7100 + 10 * k + r}, True))
    # INJECTED low-entropy draws (numpy.random.uniform replaced by a prepared stream): every draw repeats rows, mostly all ten
    # draws AND their union stay short of the request - the clamp of the count, the fallback and the truncation decide
    fs = 0
    for shp in ([3], [2, 3], [3, 3], [4, 3, 2], [1, 4]):
        total = math.prod(shp)
        for L in (1, 2, 4):
            for r in sorted({1, 2, 3, max(1, total // 2), total - 1}):
                if r >= total:
                    continue
                fn = ("counter", "ones", "uniform")[fs % 3]
                cases.append(Case("sp_from_function", {"shape": shp, "p": r, "q": 1, "fn": fn, "seed": 0,
                                                       "forced": {"levels": L, "fseed": fs}}, True))
                if fs % 2 == 0:
                    cases.append(Case("sptenrand", {"shape": shp, "mode": "nonzeros", "p": r, "q": 1, "seed": 0,
                                                    "forced": {"levels": L, "fseed": fs}}, True))
                fs += 1
    # the input class of the repaired finding C20-N3: the request EQUALS the tensor size (saturated: every subscript, no draw) -
    # as int, float and numpy scalar, density 1.0, on injected streams (which must stay untouched), just above / below the size
    # (size + 1/2 rejected, size - 1/2 -> size - 1 drawn), densities whose ceil reaches the size WITHOUT being saturated
    # (0.9 on two cells: both cells must be drawn), the empty shape (one cell, order 0) and shapes without cells
    sat_shapes = [[2, 2], [2, 3], [3], [1], [1, 1], [4, 3, 2], [1, 5], [2, 2, 2, 2], [7], [2], [2, 1]] + ([[6, 5], [3, 3, 3]] if big else [])
    ss = 9000
    for k, shp in enumerate(sat_shapes):
        total = math.prod(shp)
        fn = ("counter", "uniform", "ones")[k % 3]
        for extra in ({}, {"rtype": "float"}, {"ntype": "np"}, {"ntype": "np", "rtype": "float"}):
            cases.append(Case("sp_from_function", dict({"shape": shp, "p": total, "q": 1, "fn": fn, "seed": ss}, **extra), True))
            cases.append(Case("sptenrand", dict({"shape": shp, "mode": "nonzeros", "p": total, "q": 1, "seed": ss + 1}, **extra), True))
            ss += 2
        for extra in ({}, {"ntype": "np"}):
            cases.append(Case("sptenrand", dict({"shape": shp, "mode": "density", "p": 1, "q": 1, "seed": ss}, **extra), True))
            ss += 1
        for r in (Fraction(2 * total + 1, 2), Fraction(2 * total - 1, 2), Fraction(4 * total + 1, 4)):
            if r < total and total > 8:
                continue                # size - 1/2 -> size - 1 DRAWN: ten near-saturation draws per case, small shapes only (memory)
            cases.append(Case("sp_from_function", {"shape": shp, "p": r.numerator, "q": r.denominator, "fn": fn, "seed": ss}, True))
            cases.append(Case("sptenrand", {"shape": shp, "mode": "nonzeros", "p": r.numerator, "q": r.denominator, "seed": ss + 1}, True))
            ss += 2
        for L in (1, 2):
            cases.append(Case("sp_from_function", {"shape": shp, "p": total, "q": 1, "fn": fn, "seed": 0,
                                                   "forced": {"levels": L, "fseed": ss}}, True))
            cases.append(Case("sptenrand", {"shape": shp, "mode": "density", "p": 1, "q": 1, "seed": 0,
                                            "forced": {"levels": L, "fseed": ss + 1}}, True))
            ss += 2
        if 2 <= total <= 10:            # ceil(total * d) = total for d in (1 - 1/total, 1): the count is the size but every cell is DRAWN
            for d in (0.9375, 0.96875, 0.999):
                if math.ceil(total * Fraction(d)) == total:
                    fr = Fraction(d)
                    cases.append(Case("sp_from_function", {"shape": shp, "p": fr.numerator, "q": fr.denominator, "fn": fn, "seed": ss}, True))
                    cases.append(Case("sp_from_function", {"shape": shp, "p": fr.numerator, "q": fr.denominator, "fn": fn, "seed": 0,
                                                           "forced": {"levels": 4, "fseed": ss}}, True))
                    ss += 1
    for zs in ([], [0, 2], [3, 0], [0]):          # order 0 (one cell) and shapes without cells
        for r in (Fraction(0), Fraction(1), Fraction(1, 2), Fraction(2), Fraction(1, 4)):
            cases.append(Case("sp_from_function", {"shape": zs, "p": r.numerator, "q": r.denominator, "fn": "ones", "seed": 3}, False))
            cases.append(Case("sptenrand", {"shape": zs, "mode": "nonzeros", "p": r.numerator, "q": r.denominator, "seed": 3}, False))
            if 0 < r <= 1:
                cases.append(Case("sptenrand", {"shape": zs, "mode": "density", "p": r.numerator, "q": r.denominator, "seed": 3}, False))
    # teneye
    for m, n in [(2, 1), (2, 2), (2, 3), (2, 4), (4, 1), (4, 2), (4, 3)] + ([(6, 2)] if big else []):
        x = [Fraction(rng.randint(-3, 3), rng.randint(1, 3)) for _ in range(n)]
        cases.append(Case("teneye", {"m": m, "n": n, "x": [[v.numerator, v.denominator] for v in x]}, n > 1))
    for m in (1, 3, 5):
        cases.append(Case("teneye", {"m": m, "n": 2, "x": [[1, 1], [1, 2]]}, True))
    # larger orders against the closed entry formula only (8! rearrangements per subscript are left to pyttb)
    for m, n in [(8, 2), (6, 3)]:           # (10,2) takes pyttb three minutes
        x = [Fraction(rng.randint(-3, 3), rng.randint(1, 3)) for _ in range(n)]
        x[0] = x[0] or Fraction(1, 2)
        cases.append(Case("teneye", {"m": m, "n": n, "x": [[v.numerator, v.denominator] for v in x], "formula_only": True}, True))
    # ---- malformed stream: ill-formed requests
    zshapes = [[-1, 2], [2, -3], [-2, -2], [0, 2], [2, 0], [0], [-1], [], [3, 0, -1], [1, 2, 3], [2, 2], [4]]
    zshapes += [[rng.choice([-2, -1, 0, 1, 2, 3]) for _ in range(rng.randint(1, 4))] for _ in range(40 if big else 12)]
    for zs in zshapes:
        for op in ("tenones_z", "tenzeros_z", "tenrand_z"):
            cases.append(Case(op, {"shape": zs}, True))
    for m in range(-4, 7):
        for n in (-2, -1, 0, 1, 2):
            if m <= 4 or n <= 2:
                cases.append(Case("teneye_guard", {"m": m, "n": n}, True))
    for N in (0, 1, 2, 3):
        for zs in zshapes:
            if zs and math.prod(max(N, d) for d in zs) <= 300:
                e = [rng.choice([-3, -1, 2, 4, 0]) for _ in range(N)]
                if N >= 1:
                    cases.append(Case("tendiag_z", {"e": e, "shape": zs}, N > 1))
                cases.append(Case("sptendiag_z", {"e": e, "shape": zs}, N > 1))
    for op in ("tendiag_2d", "sptendiag_2d"):
        cases.append(Case(op, {"e": [[1, 2], [3, 4]], "shape": [2, 2]}, True))
        cases.append(Case(op, {"e": [[1, 2, 3]], "shape": [3, 3]}, True))      # one non-trivial dimension: a vector
    for kw in ("none", "both"):
        cases.append(Case("sptenrand_kw", {"shape": [2, 2], "kw": kw}, True))
    cases += _gen_diag_lines(rng, big)
    cases += _gen_gen_lines(rng, big)
    cases += W3.gen(rng, tier)
    return cases


# wave 5: tendiag / sptendiag with FLEXIBLE element and shape arguments (int, list, tuple, ndarray with singleton axes, float /
# 2-d / nested ones that must be rejected) against the line-by-line transliterations Model/C20Diag.py_tendiag / py_sptendiag,
# which read the arguments through the translator-generated parse_one_d / parse_shape
EL_FORMS = ("list", "tuple", "int", "arr", "arr_row", "arr_col_int", "arr_0d", "arr_2d")
SP_FORMS = ("none", "tuple", "list", "int", "arr", "arr_col", "arr_float", "arr_2d", "nested", "empty")


def _gen_diag_lines(rng, big):
    out = []
    for ef in EL_FORMS:
        for sf in SP_FORMS:
            for rep in range(3 if big else 1):
                N = 1 if ef in ("int", "arr_0d") else (4 if ef == "arr_2d" else rng.choice([1, 2, 3]))
                e = [rng.choice([-3, -1, 2, 4, 7, 0]) for _ in range(N)]
                if N > 1:
                    e[0] = e[0] or 5
                M = 1 if sf == "int" else (4 if sf == "arr_2d" else rng.choice([1, 2, 3]))
                shp = [] if sf in ("none", "empty") else [rng.choice([1, 2, 3, 4]) for _ in range(M)]
                for kind in ("tendiag", "sptendiag"):
                    out.append(Case("diag_lines", {"kind": kind, "e": e, "ef": ef, "shape": shp, "sf": sf}, N > 1))
    return out


GEN_SP_FORMS = ("tuple", "list", "int", "arr", "arr_col", "arr_float", "arr_2d", "nested", "empty", "neg", "zero")


def _gen_gen_lines(rng, big):
    """tenones / tenzeros with a flexible shape argument against Model/C20Lines.py_dense_generator (generated parse_shape)"""
    out = []
    for sf in GEN_SP_FORMS:
        for rep in range(4 if big else 2):
            M = 1 if sf == "int" else (4 if sf == "arr_2d" else rng.choice([1, 2, 3]))
            shp = [] if sf == "empty" else [rng.choice([1, 2, 3, 4]) for _ in range(M)]
            form = sf
            if sf in ("neg", "zero"):
                shp[rng.randrange(M)] = -rng.choice([1, 2]) if sf == "neg" else 0
                form = rng.choice(["tuple", "list", "arr"])
            for kind in ("tenones", "tenzeros"):
                out.append(Case("gen_lines", {"kind": kind, "shape": shp, "sf": form}, math.prod(shp) > 1 if shp else False))
    return out


def _diag_arg(np, form, l):
    """(python argument, Gallina diag_arg) of one flexible argument"""
    if form in ("list", "empty"):
        return list(l), f"(AList {gzlist(l)})"
    if form == "tuple":
        return tuple(l), f"(ATuple {gzlist(l)})"
    if form == "int":
        return int(l[0]), f"(AInt {gz(l[0])})"
    if form == "nested":
        return list(l[:-1]) + [[l[-1]]], f"(ANested {gzlist(l[:-1])} {gzlist(l[-1:])})"
    fl = form in ("arr_row", "arr_0d", "arr_float")
    shp = {"arr": [len(l)], "arr_float": [len(l)], "arr_row": [1, len(l)], "arr_col": [len(l), 1], "arr_col_int": [len(l), 1],
           "arr_0d": [], "arr_2d": [2, 2]}[form]
    a = np.array(l, dtype=float if fl else np.int64).reshape(tuple(shp))
    return a, f"(AArr {gzlist(shp)} {'true' if fl else 'false'} {gzlist(l)})"


def _run_diag_lines(np, ttb, a):
    el, _ = _diag_arg(np, a["ef"], a["e"])
    sp = None if a["sf"] == "none" else _diag_arg(np, a["sf"], a["shape"])[0]
    if a["sf"] == "empty":
        sp = ()
    if a["kind"] == "tendiag":
        return {"ok": tgen.obs_dense(np, ttb.tendiag(el, sp))}
    return {"ok": _sp_obs(np, ttb.sptendiag(el, sp))}


def _check_diag_lines(a, o):
    import numpy as np
    el = _diag_arg(np, a["ef"], a["e"])[1]
    sp = "None" if a["sf"] == "none" else ("(Some (ATuple (@nil Z)))" if a["sf"] == "empty" else f"(Some {_diag_arg(np, a['sf'], a['shape'])[1]})")
    fn = "tendiag_lines_ok" if a["kind"] == "tendiag" else "sptendiag_lines_ok"
    if "exc" in o:
        return f"{fn} {el} {sp} None" if o["exc"] in REJECT else "false"
    if a["kind"] == "tendiag":
        if not tgen.all_int(o["ok"]["data"]):
            return "false"
        return f"{fn} {el} {sp} (Some {tgen.gdense(o['ok']['shape'], o['ok']['data'])})"
    if not _sp_ok(o["ok"]):
        return "false"
    return f"{fn} {el} {sp} (Some {gsp(o['ok'])})"


def _oracle_diag_lines(a, o):
    bad = a["ef"] == "arr_2d" or a["sf"] in ("arr_float", "arr_2d", "nested", "empty")
    if "exc" in o:
        return None if bad else f"admissible request raised {o['exc']}: {o.get('msg')}"
    if bad:
        return "ill-formed element / shape argument accepted"
    return oracle(Case(a["kind"], {"e": a["e"], "shape": None if a["sf"] == "none" else a["shape"]}, True), o)


# ---------------------------------------------------------------- running pyttb
class Capture:
    """records every numpy.random.uniform call made while active"""

    def __init__(self, np):
        self.np = np
        self.calls = []

    def __enter__(self):
        np = self.np
        self.orig = np.random.uniform
        orig = self.orig

        def wrapped(*a, **k):
            out = orig(*a, **k)
            self.calls.append(np.array(out, dtype=float, copy=True))
            return out
        np.random.uniform = wrapped
        return self

    def __exit__(self, *a):
        self.np.random.uniform = self.orig


def _numer(u):
    m = int(u * 2 ** 53)
    assert m / 2 ** 53 == u and 0 <= m < 2 ** 53, u
    return m


def _sp_obs(np, S):
    o = tgen.obs_sparse(np, S)
    o["dtype"] = str(np.asarray(S.vals).dtype)
    return o


def _exc(ex):
    return {"exc": type(ex).__name__, "msg": str(ex)[:200]}


def _call_random(np, ttb, c, reseed=True):
    a = c.args
    shp = tuple(a["shape"])
    req = Fraction(a["p"], a["q"])
    reqf = float(req) if (req.denominator != 1 or a.get("rtype") == "float") else int(req)     # 6 as int, 6.0 with rtype float
    dens = float(req)
    if a.get("ntype") == "np":           # the request as a numpy scalar (np.prod(shape) // 2, a float32 density, ...)
        reqf = np.int64(reqf) if isinstance(reqf, int) else np.float32(reqf)
        dens = np.float32(dens)
        assert Fraction(float(dens)) == req and Fraction(float(reqf)) == req
    if reseed:
        np.random.seed(a["seed"])
    real_uniform = np.random.uniform
    if a.get("forced"):
        # INJECTED draws: numpy.random.uniform is replaced by a prepared low-entropy stream u = (j + 1/2) / levels, so that draws
        # repeat rows far more often than the real generator ever would (all ten draws short, even their union short): the
        # post-processing (redraw loop, union fallback, clamp of the count, truncation) is then compared with the model,
        # whose theorems hold for ARBITRARY draw matrices
        import random as _random
        fr = _random.Random(a["forced"]["fseed"])
        L = a["forced"]["levels"]

        def fake_uniform(low=0, high=1, size=None):
            shape_ = tuple(size) if size is not None else ()
            n_ = int(np.prod(shape_)) if shape_ else 1
            return np.array([(fr.randrange(L) + 0.5) / L for _ in range(n_)], dtype=float).reshape(shape_)
        np.random.uniform = fake_uniform
    try:
        return _call_random_inner(np, ttb, c, shp, reqf, dens)
    finally:
        np.random.uniform = real_uniform


def _call_random_inner(np, ttb, c, shp, reqf, dens):
    a = c.args
    cap = Capture(np)
    with cap:
        try:
            if c.op == "sptenrand":
                if a["mode"] == "density":
                    S = ttb.sptenrand(shp, density=dens)
                else:
                    S = ttb.sptenrand(shp, nonzeros=reqf)
            else:
                if a["fn"] == "ones":
                    f = np.ones
                elif a["fn"] == "counter":
                    def f(s):
                        return np.arange(1, s[0] + 1, dtype=float).reshape(s)
                else:
                    def f(s):
                        return np.random.uniform(size=s)
                S = ttb.sptensor.from_function(f, shp, reqf)
            res = _sp_obs(np, S)
        except Exception as ex:
            res = _exc(ex)
    return res, [c_.copy() for c_ in cap.calls]


def _pack_random(np, c, res, calls):
    """observation of one random sparse generator call from its result and the captured uniform calls"""
    uses_uniform = c.op == "sptenrand" or c.args.get("fn") == "uniform"
    # calls in order: the subscript draws (each nz x N), then - if the value function draws - ONE call of shape (nnz, 1)
    if uses_uniform and "exc" not in res and calls:
        vcalls = [[_numer(float(u)) for u in np.ravel(calls[-1])]]
        calls_d = calls[:-1]
    else:
        vcalls, calls_d = [], calls
    draws = [[[_numer(float(u)) for u in row] for row in np.atleast_2d(d)] for d in calls_d]
    return {"res": res, "draws": draws, "vcalls": vcalls, "uses_uniform": uses_uniform}


def _obs_tenrand(np, T, calls):
    flat = np.ravel(T.data, order="F")
    return {"shape": [int(d) for d in T.shape], "data_shape": [int(d) for d in T.data.shape],
            "m": [_numer(float(u)) for u in flat], "in_range": bool(np.all((flat >= 0) & (flat < 1))),
            "draws": [[_numer(float(u)) for u in np.ravel(d)] for d in calls]}


def run_impl(c):
    import logging
    import numpy as np
    import pyttb as ttb
    logging.getLogger().setLevel(logging.ERROR)
    a = c.args
    try:
        if c.op == "tenones":
            return {"ok": tgen.obs_dense(np, ttb.tenones(tuple(a["shape"])))}
        if c.op == "tenzeros":
            return {"ok": tgen.obs_dense(np, ttb.tenzeros(tuple(a["shape"])))}
        if c.op == "tenrand":
            np.random.seed(a["seed"])
            with Capture(np) as cap:
                T = ttb.tenrand(tuple(a["shape"]))
            np.random.seed(a["seed"])
            T2 = ttb.tenrand(tuple(a["shape"]))
            o = _obs_tenrand(np, T, cap.calls)
            o["repro"] = bool(np.array_equal(T.data, T2.data))
            return o
        if c.op == "from_function":
            out = np.array(a["ovals"], dtype=float).reshape(tuple(a["oshape"]), order="F")
            out = np.ascontiguousarray(out) if a["kind"] != "same_F" else np.asfortranarray(out)
            seen = []

            def f(s):
                seen.append([int(x) for x in s])
                return out.copy(order="K")
            T = ttb.tensor.from_function(f, tuple(a["shape"]))
            return {"ok": tgen.obs_dense(np, T), "asked": seen, "tshape": [int(d) for d in T.shape]}
        if c.op == "kfrom_function":
            it = iter(a["outs"])
            asked = []

            def f(s):
                asked.append([int(x) for x in s])
                m = np.array(next(it), dtype=float)
                return np.asfortranarray(m) if a["mem"] == "F" else m
            K = ttb.ktensor.from_function(f, tuple(a["shape"]), a["R"])
            return {"ok": tgen.obs_ktensor(np, K), "asked": asked, "kshape": [int(d) for d in K.shape]}
        if c.op in ("tendiag", "sptendiag"):
            e = np.array(a["e"], dtype=float)
            shp = None if a["shape"] is None else tuple(a["shape"])
            if c.op == "tendiag":
                return {"ok": tgen.obs_dense(np, ttb.tendiag(e, shp))}
            return {"ok": _sp_obs(np, ttb.sptendiag(e, shp))}
        if c.op == "aggregator":
            subs = np.array(a["subs"], dtype=int).reshape((len(a["subs"]), a["N"]))
            vals = np.array(a["vals"], dtype=float).reshape((len(a["vals"]), 1))
            shp = None if a["shape"] is None else tuple(a["shape"])
            mem = a.get("mem")
            if mem is None:
                S = ttb.sptensor.from_aggregator(subs.copy(), vals.copy(), shp, _reducer(np, a["reducer"]))
                return {"ok": _sp_obs(np, S)}
            # memory layouts: F-ordered / strided subscripts, integer / strided values; inputs must stay untouched
            subs_in = W3.relayout(np, subs, mem[0])
            vals_in = W3.relayout(np, vals if mem[1] != "int" else vals.astype(np.int64), "strided" if mem[1] == "strided" else "C")
            S = ttb.sptensor.from_aggregator(subs_in, vals_in, shp, _reducer(np, a["reducer"]))
            o = {"ok": _sp_obs(np, S)}
            o["inputs_kept"] = bool(np.array_equal(subs_in, subs) and np.array_equal(vals_in, vals))
            S2 = ttb.sptensor.from_aggregator(subs_in, vals_in, shp, _reducer(np, a["reducer"]))      # a second call on the same arrays
            o["second_same"] = _sp_obs(np, S2) == o["ok"] == _sp_obs(np, S)
            return o
        if c.op in ("sp_from_function", "sptenrand"):
            res, calls = _call_random(np, ttb, c)
            res2, calls2 = _call_random(np, ttb, c)
            o = _pack_random(np, c, res, calls)
            o["repro"] = res == res2 and all(np.array_equal(x, y) for x, y in zip(calls, calls2)) and len(calls) == len(calls2)
            return o
        if c.op in ("tenones_z", "tenzeros_z"):
            fn = ttb.tenones if c.op == "tenones_z" else ttb.tenzeros
            return {"ok": tgen.obs_dense(np, fn(tuple(a["shape"])))}
        if c.op == "tenrand_z":
            np.random.seed(1)
            T = ttb.tenrand(tuple(a["shape"]))
            return {"shape": [int(d) for d in T.shape], "data_shape": [int(d) for d in T.data.shape]}
        if c.op == "teneye_guard":
            T = ttb.teneye(a["m"], a["n"])
            return {"shape": [int(d) for d in T.shape], "n": int(T.data.size)}
        if c.op in ("tendiag_z", "sptendiag_z"):
            e = np.array(a["e"], dtype=float)
            if c.op == "tendiag_z":
                return {"ok": tgen.obs_dense(np, ttb.tendiag(e, tuple(a["shape"])))}
            return {"ok": _sp_obs(np, ttb.sptendiag(e, tuple(a["shape"])))}
        if c.op in ("tendiag_2d", "sptendiag_2d"):
            e = np.array(a["e"], dtype=float)
            if c.op == "tendiag_2d":
                return {"ok": tgen.obs_dense(np, ttb.tendiag(e, tuple(a["shape"])))}
            return {"ok": _sp_obs(np, ttb.sptendiag(e, tuple(a["shape"])))}
        if c.op == "sptenrand_kw":
            S = ttb.sptenrand(tuple(a["shape"])) if a["kw"] == "none" else ttb.sptenrand(tuple(a["shape"]), 0.5, 2)
            return {"ok": _sp_obs(np, S)}
        if c.op == "teneye":
            kw = {"order": a["order"]} if a.get("order") else {}
            T = ttb.teneye(np.int64(a["m"]), np.int64(a["n"]), **kw) if a.get("npint") else ttb.teneye(a["m"], a["n"], **kw)
            return {"shape": [int(d) for d in T.shape], "data": [Fraction(float(x)) for x in np.ravel(T.data, order="F")]}
        if c.op == "diag_lines":
            return _run_diag_lines(np, ttb, a)
        if c.op == "gen_lines":
            sp = () if a["sf"] == "empty" else _diag_arg(np, a["sf"], a["shape"])[0]
            return {"ok": tgen.obs_dense(np, (ttb.tenones if a["kind"] == "tenones" else ttb.tenzeros)(sp))}
        if c.op in W3.OPS:
            return W3.run(c, np, ttb)
    except Exception as ex:
        return _exc(ex)
    raise ValueError(c.op)


# ---------------------------------------------------------------- Gallina
def gshape_opt(s):
    return "None" if s is None else f"(Some {gnlist(s)})"


def gsp(o):
    return tgen.gsparse(o["shape"], o["subs"], o["vals"])


def _u63(v):
    return isinstance(v, int) and 0 <= v < 2 ** 62


def gzbig(l):
    """a list of Z; when it holds 53-bit numerators of uniform draws it is written as primitive 63-bit integer literals decoded by
    C20Pack.zs (one term node per number instead of a 53-node positive: Coq's elaboration of the shard costs ~50 KB and 0.5 ms
    per big Z literal)"""
    if not l or not all(_u63(v) for v in l) or max(l) < 2 ** 20:
        return gzlist(l)
    return "(zs [" + "; ".join(str(v) for v in l) + "]%uint63)"


def gdraws(draws):
    """the captured draw matrices (numerators m of u = m / 2^53), as uint63 literals decoded by C20Pack.zsss"""
    if not draws:
        return "(@nil (list (list Z)))"
    assert all(_u63(v) for m in draws for r in m for v in r)

    def gr(r):
        return "(@nil int)" if not r else "[" + "; ".join(str(v) for v in r) + "]"

    def gm(m):
        return "(@nil (list int))" if not m else "[" + "; ".join(gr(r) for r in m) + "]"
    return "(zsss [" + "; ".join(gm(m) for m in draws) + "]%uint63)"


def gsp_big(shape, subs, vals):
    return f"(mkSp {gnlist(shape)} {gnmat(subs)} {gzbig(vals)})"


def _sp_ok(o):
    return (o.get("dtype", "float64") in ("float64", "int64") and tgen.all_int(o["vals"]) and o["nnz"] == len(o["subs"]) == len(o["vals"])
            and (o["vals_shape"] == [len(o["vals"]), 1] or (o["nnz"] == 0)))


REJECT = ("AssertionError", "ValueError")
REJECT_Z = REJECT + ("TypeError",)      # ill-formed shapes: np.prod(()) is a float -> numpy raises TypeError


def coq_check(c, o):
    a = c.args
    if c.op in ("tenones", "tenzeros"):
        if "exc" in o or not tgen.all_int(o["ok"]["data"]):
            return "false"
        fn = "ztenones" if c.op == "tenones" else "ztenzeros"
        return f"opt_eqb dense_eqb ({fn} {gnlist(a['shape'])}) (Some {tgen.gdense(o['ok']['shape'], o['ok']['data'])})"
    if c.op == "tenrand":
        if "exc" in o:
            return "false"
        n = math.prod(a["shape"])
        if not (o["in_range"] and o["repro"] and len(o["draws"]) == 1 and o["data_shape"] == o["shape"]):
            return "false"
        return (f"opt_eqb dense_eqb (zfrom_function {gnlist(a['shape'])} (mkDense [{n}]%nat {gzbig(o['draws'][0])})) "
                f"(Some (mkDense {gnlist(o['shape'])} {gzbig(o['m'])}))")
    if c.op == "from_function":
        model = f"(zfrom_function {gnlist(a['shape'])} (mkDense {gnlist(a['oshape'])} {gzlist(a['ovals'])}))"
        if "exc" in o:
            return f"opt_eqb dense_eqb {model} None" if o["exc"] in REJECT else "false"
        if not tgen.all_int(o["ok"]["data"]) or o["asked"] != [a["shape"]] or o["tshape"] != o["ok"]["shape"]:
            return "false"
        return f"opt_eqb dense_eqb {model} (Some {tgen.gdense(o['ok']['shape'], o['ok']['data'])})"
    if c.op == "kfrom_function":
        if "exc" in o:
            return "false"
        k = o["ok"]
        if o["asked"] != [[d, a["R"]] for d in a["shape"]] or o["kshape"] != a["shape"]:
            return "false"
        if not tgen.all_int(k["weights"]) or not all(tgen.all_int(r) for f in k["factors"] for r in f):
            return "false"
        outs = "[" + "; ".join(tgen.gmatrix(f) for f in a["outs"]) + "]"
        facs = "[" + "; ".join(tgen.gmatrix(f) for f in k["factors"]) + "]"
        return (f"vec_eqb (kweights (zkfrom_function {a['R']} {outs})) {gzlist(k['weights'])} && "
                f"list_eqb mat_eqb (kfactors (zkfrom_function {a['R']} {outs})) {facs} && "
                f"nvec_eqb (kshape (zkfrom_function {a['R']} {outs})) {gnlist(o['kshape'])}")
    if c.op == "tendiag":
        if "exc" in o or not tgen.all_int(o["ok"]["data"]):
            return "false"
        return f"dense_eqb (ztendiag {gzlist(a['e'])} {gshape_opt(a['shape'])}) {tgen.gdense(o['ok']['shape'], o['ok']['data'])}"
    if c.op == "sptendiag":
        if "exc" in o or not _sp_ok(o["ok"]):
            return "false"
        return f"sp_agrees {gsp(o['ok'])} (zsptendiag {gzlist(a['e'])} {gshape_opt(a['shape'])})"
    if c.op == "aggregator":
        model = (f"(zaggregator {gshape_opt(a['shape'])} {a['N']} {gnmat(a['subs'])} {gzlist(a['vals'])} {REDUCERS_W3[a['reducer']]})")
        if "exc" in o:
            return f"opt_sp_agrees None {model}" if o["exc"] in REJECT else "false"
        if not _sp_ok(o["ok"]) or not o.get("inputs_kept", True) or not o.get("second_same", True):
            return "false"
        return f"opt_sp_agrees (Some {gsp(o['ok'])}) {model}"
    if c.op in ("sp_from_function", "sptenrand"):
        total = math.prod(a["shape"])
        req = Fraction(a["p"], a["q"])
        if Fraction(float(req)) != req:
            return None                      # the request itself is not a double (never generated)
        # the double product the code forms is rounded BY THE MODEL (C20Gen.round64: binary64 round-to-nearest-even of the exact
        # rational prod(shape) * p/q; C20_round64_exact / C20_request_r64): nothing float enters the model as an input
        res = o["res"]
        if c.op == "sptenrand" and a["mode"] == "density":
            cnt_impl = f"(sptenrand_count_r64 {total} {gz(a['p'])} {a['q']}%positive)"
        else:
            cnt_impl = f"(norm_request_r64 {total} {gz(a['p'])} {a['q']}%positive)"
        if not o["repro"]:
            return "false"
        if "exc" in res:
            ob = "SRej" if res["exc"] in REJECT else "SCrash"       # SCrash (IndexError, ...) is accepted nowhere
            vals = []
        else:
            if res["nnz"] != len(res["subs"]):
                return "false"
            if o["uses_uniform"]:
                if len(o["vcalls"]) != 1:
                    return "false"
                vals = o["vcalls"][0]
                obs_vals = [Fraction(v) * 2 ** 53 for v in res["vals"]]
                if any(v.denominator != 1 for v in obs_vals):
                    return "false"
                obs_vals = [int(v) for v in obs_vals]
            else:
                if o["vcalls"] or not tgen.all_int(res["vals"]):
                    return "false"
                obs_vals = res["vals"]
                vals = [1] * res["nnz"] if a["fn"] == "ones" else list(range(1, res["nnz"] + 1))
            ob = f"(SOk {gsp_big(res['shape'], res['subs'], obs_vals)})"
        return (f"sprand_call_ok {cnt_impl} {gnlist(a['shape'])} {gdraws(o['draws'])} {gzbig(vals)} "
                f"{len(o['draws'])} {ob}")
    if c.op in ("tenones_z", "tenzeros_z"):
        fn = "ztenones_chk" if c.op == "tenones_z" else "ztenzeros_chk"
        if "exc" in o:
            return f"opt_eqb dense_eqb ({fn} {gzlist(a['shape'])}) None" if o["exc"] in REJECT else "false"
        if not tgen.all_int(o["ok"]["data"]):
            return "false"
        return f"opt_eqb dense_eqb ({fn} {gzlist(a['shape'])}) (Some {tgen.gdense(o['ok']['shape'], o['ok']['data'])})"
    if c.op == "tenrand_z":
        if "exc" in o:
            return f"negb (dense_gen_guard {gzlist(a['shape'])})" if o["exc"] in REJECT_Z else "false"
        if any(d < 0 for d in o["shape"] + o["data_shape"]):
            return "false"                   # a negative size was accepted
        return (f"dense_gen_guard {gzlist(a['shape'])} && nvec_eqb (to_shape {gzlist(a['shape'])}) {gnlist(o['shape'])} && "
                f"nvec_eqb {gnlist(o['shape'])} {gnlist(o['data_shape'])}")
    if c.op == "teneye_guard":
        if "exc" in o:
            return f"negb (teneye_guard {gz(a['m'])} {gz(a['n'])})" if o["exc"] in REJECT else "false"
        return (f"teneye_guard {gz(a['m'])} {gz(a['n'])} && nvec_eqb (repeat (Z.to_nat {gz(a['n'])}) (Z.to_nat {gz(a['m'])})) "
                f"{gnlist(o['shape'])} && Nat.eqb (size {gnlist(o['shape'])}) {o['n']}")
    if c.op == "tendiag_z":
        if "exc" in o or not tgen.all_int(o["ok"]["data"]):
            return "false"
        return (f"dense_eqb (ztendiag_z {gzlist(a['e'])} (Some {gzlist(a['shape'])})) {tgen.gdense(o['ok']['shape'], o['ok']['data'])} && "
                f"nvec_eqb (pyttb_diag_shape {len(a['e'])} {gzlist(a['shape'])}) {gnlist(o['ok']['shape'])}")
    if c.op == "sptendiag_z":
        model = f"(zsptendiag_chk {gzlist(a['e'])} {gzlist(a['shape'])})"
        if "exc" in o:
            return f"opt_sp_agrees None {model}" if o["exc"] in REJECT else "false"
        if not _sp_ok(o["ok"]):
            return "false"
        return (f"opt_sp_agrees (Some {gsp(o['ok'])}) {model} && "
                f"nvec_eqb (pyttb_diag_shape {len(a['e'])} {gzlist(a['shape'])}) {gnlist(o['ok']['shape'])}")
    if c.op in ("tendiag_2d", "sptendiag_2d"):
        # parse_one_d: an array with more than one non-trivial dimension is rejected; a 1 x n array is a vector
        rows = a["e"]
        vector = len(rows) == 1 or all(len(r) == 1 for r in rows)
        flat = [v for r in rows for v in r]
        if not vector:
            return "true" if o.get("exc") in REJECT else "false"
        if "exc" in o:
            return "false"
        if c.op == "tendiag_2d":
            return f"dense_eqb (ztendiag {gzlist(flat)} {gshape_opt(a['shape'])}) {tgen.gdense(o['ok']['shape'], o['ok']['data'])}"
        return f"sp_agrees {gsp(o['ok'])} (zsptendiag {gzlist(flat)} {gshape_opt(a['shape'])})"
    if c.op == "sptenrand_kw":
        return "true" if o.get("exc") == "ValueError" else "false"
    if c.op == "teneye":
        if a["m"] % 2 == 1:
            return "true" if o.get("exc") == "ValueError" else "false"
        if "exc" in o:
            return "false"
        x = "[" + "; ".join(gq(Fraction(p, q)) for p, q in a["x"]) + "]"
        A = tgen.gqdense(o["shape"], o["data"])
        # entries against the closed form (teneye_formula) and - unless the m! rearrangements per subscript are too many for
        # the quick tier - against the transliteration of pyttb's count (teneye_count); the identity action on the observed tensor
        chk = f"teneye_formula_agrees {a['m']} {a['n']} {A} && teneye_identity_ok {A} {a['m']} {a['n']} {x}"
        return chk if a.get("formula_only") else f"teneye_agrees {a['m']} {a['n']} {A} && " + chk
    if c.op == "diag_lines":
        return _check_diag_lines(a, o)
    if c.op == "gen_lines":
        import numpy as np
        sp = "(ATuple (@nil Z))" if a["sf"] == "empty" else _diag_arg(np, a["sf"], a["shape"])[1]
        fill = 1 if a["kind"] == "tenones" else 0
        if "exc" in o:
            return f"dense_lines_ok {fill}%Z {sp} None" if o["exc"] in REJECT_Z else "false"
        if not tgen.all_int(o["ok"]["data"]):
            return "false"
        return f"dense_lines_ok {fill}%Z {sp} (Some {tgen.gdense(o['ok']['shape'], o['ok']['data'])})"
    if c.op in W3.OPS:
        return W3.check(c, o)
    raise ValueError(c.op)


# ---------------------------------------------------------------- brute-force oracle (pure Python)
def _agg_expected(a):
    groups = {}
    for s, v in zip(a["subs"], a["vals"]):
        groups.setdefault(tuple(s), []).append(v)
    red = REDUCERS_W3[a["reducer"]]

    def f(l):
        if red == "RSum":
            return sum(l)
        if red == "RMax":
            return max(l)
        if red == "RMin":
            return min(l)
        if red == "RProd":
            return math.prod(l)
        if red == "RFirst":
            return l[0]
        if red == "RLast":
            return l[-1]
        if red == "RLen":
            return len(l)
        if red == "RFirstMinusRest":
            return l[0] - sum(l[1:])
        if red == "RMean":
            return Fraction(sum(l), len(l))
        return 10 * l[0] + l[-1]
    return {k: f(v) for k, v in groups.items() if f(v) != 0}


def _wf_sparse(o, shape):
    seen = set()
    for s, v in zip(o["subs"], o["vals"]):
        if tuple(s) in seen:
            return f"duplicate subscript {s}"
        seen.add(tuple(s))
        if len(s) != len(shape) or any(not (0 <= x < d) for x, d in zip(s, shape)):
            return f"subscript {s} outside shape {shape}"
        if v == 0:
            return f"explicit zero at {s}"
    if not (o["nnz"] == len(o["subs"]) == len(o["vals"])):
        return "nnz / subs / vals lengths differ"
    return None


def oracle(c, o):
    a = c.args
    if c.op in ("tenones", "tenzeros"):
        if "exc" in o:
            return f"raised {o['exc']}"
        want = 1 if c.op == "tenones" else 0
        if o["ok"]["shape"] != a["shape"] or o["ok"]["data"] != [want] * math.prod(a["shape"]):
            return "wrong shape or entries"
    elif c.op == "tenrand":
        if "exc" in o:
            return f"raised {o['exc']}"
        if o["shape"] != a["shape"] or not o["in_range"] or len(o["m"]) != math.prod(a["shape"]):
            return "wrong shape or entries outside [0,1)"
    elif c.op == "from_function":
        n = math.prod(a["shape"])
        if "exc" in o:
            return None if len(a["ovals"]) != n else f"raised {o['exc']}"
        if len(a["ovals"]) != n:
            return "function output of the wrong size accepted"
        if o["asked"] != [a["shape"]]:
            return f"the function was called with {o['asked']} instead of the requested shape"
        if o["ok"]["shape"] != a["shape"] or o["ok"]["data"] != a["ovals"]:
            return "data is not the function's output laid out first-index-fastest"
    elif c.op == "kfrom_function":
        if "exc" in o:
            return f"raised {o['exc']}"
        if o["asked"] != [[d, a["R"]] for d in a["shape"]]:
            return f"the function was called with {o['asked']} instead of (shape[n], R) per mode"
        if o["ok"]["weights"] != [1] * a["R"] or o["ok"]["factors"] != a["outs"]:
            return "weights not all one or factors differ from the function's outputs"
    elif c.op in ("tendiag", "sptendiag"):
        if "exc" in o:
            return f"raised {o['exc']}"
        N = len(a["e"])
        shape = [N] * N if a["shape"] is None else [max(N, d) for d in a["shape"]]
        ob = o["ok"]
        if ob["shape"] != shape:
            return f"shape {ob['shape']} != rule {shape}"
        if c.op == "tendiag":
            for s, v in zip(tgen.all_subs(shape), ob["data"]):
                want = a["e"][s[0]] if len(set(s)) == 1 and s[0] < N else 0
                if v != want:
                    return f"entry {s} = {v}, expected {want}"
        else:
            w = _wf_sparse(ob, shape)
            if w:
                return w
            got = {tuple(s): v for s, v in zip(ob["subs"], ob["vals"])}
            want = {tuple([k] * len(shape)): a["e"][k] for k in range(N) if a["e"][k] != 0}
            if got != want:
                return f"stored entries {got} != diagonal {want}"
    elif c.op == "aggregator":
        shape = a["shape"] if a["shape"] is not None else [max(s[j] for s in a["subs"]) + 1 for j in range(a["N"])]
        bad = len(a["subs"]) != len(a["vals"]) or any(x >= d for s in a["subs"] for x, d in zip(s, shape))
        if "exc" in o:
            return None if bad else f"raised {o['exc']}: {o.get('msg')}"
        if bad:
            return "malformed input accepted"
        ob = o["ok"]
        w = _wf_sparse(ob, shape)
        if w:
            return w
        got = {tuple(s): v for s, v in zip(ob["subs"], ob["vals"])}
        if ob["shape"] != shape or got != _agg_expected(a):
            return f"stored entries {got} != reduced groups {_agg_expected(a)}"
    elif c.op in ("sp_from_function", "sptenrand"):
        total = math.prod(a["shape"])
        req = Fraction(a["p"], a["q"])
        res = o["res"]
        if c.op == "sptenrand" and a["mode"] == "density":
            want = math.floor(total * req) if 0 < req <= 1 else None
        elif req < 0 or req > total:
            want = None
        elif req < 1:
            want = math.ceil(total * req)
        else:
            want = math.floor(req)
        if total == 0 or (not a["shape"] and want):
            # pyttb's sparse tensor cannot have a mode of size zero, and an order-0 one cannot hold an entry (the constructor
            # rejects both): there is no tensor to return
            want = None
        if "exc" in res:
            return None if want is None else f"admissible request {req} raised {res['exc']}: {res.get('msg')}"
        if want is None:
            return "inadmissible request accepted"
        w = _wf_sparse(res, a["shape"])
        if w:
            return w
        if res["shape"] != a["shape"] or len(res["vals"]) != res["nnz"]:
            return f"shape {res['shape']} / {len(res['vals'])} values for {res['nnz']} stored subscripts"
        if a.get("forced"):
            # injected draws cannot reach every request: at most the request, and short only if the draws were short
            distinct = {tuple(int((Fraction(m_, 2 ** 53) * d)) for m_, d in zip(row, a["shape"])) for dr in o["draws"] for row in dr}
            dens_mode = c.op == "sptenrand" and a["mode"] == "density"
            if (req == 1) if dens_mode else (req == total):          # the saturated request: every cell, no subscript draw
                if res["nnz"] != total or o["draws"]:
                    return f"request = size: nnz {res['nnz']} != {total} or subscript draws consumed ({len(o['draws'])})"
            elif res["nnz"] != min(want, len(distinct)):
                return f"nnz {res['nnz']} != min(request {want}, {len(distinct)} distinct rows over all consumed draws)"
        elif res["nnz"] != want:
            return f"nnz {res['nnz']} != requested {want}"
        if not o["repro"]:
            return "not reproducible under the same seed"
    elif c.op in ("tenones_z", "tenzeros_z", "tenrand_z"):
        bad = (not a["shape"]) or any(d < 0 for d in a["shape"])
        if "exc" in o:
            return None if bad else f"admissible shape {a['shape']} raised {o['exc']}"
        if bad:
            return f"ill-formed shape {a['shape']} accepted"
        got = o["ok"]["shape"] if "ok" in o else o["shape"]
        if got != a["shape"]:
            return f"shape {got} != requested {a['shape']}"
        if "ok" in o and o["ok"]["data"] != [1 if c.op == "tenones_z" else 0] * math.prod(a["shape"]):
            return "wrong entries"
    elif c.op == "teneye_guard":
        bad = a["m"] <= 0 or a["m"] % 2 == 1 or a["n"] < 0
        if "exc" in o:
            return None if bad else f"teneye({a['m']},{a['n']}) raised {o['exc']}"
        if bad:
            return f"ill-formed request teneye({a['m']},{a['n']}) accepted"
        if o["shape"] != [a["n"]] * a["m"]:
            return f"shape {o['shape']}"
    elif c.op in ("tendiag_z", "sptendiag_z"):
        N = len(a["e"])
        if "exc" in o:
            # a sparse tensor cannot have a size below one: only reachable without elements
            return None if (c.op == "sptendiag_z" and N == 0 and any(d <= 0 for d in a["shape"])) else f"raised {o['exc']}"
        shape = [max(N, d) for d in a["shape"]]
        ob = o["ok"]
        if ob["shape"] != shape:
            return f"shape {ob['shape']} != rule {shape}"
        if c.op == "sptendiag_z":
            w = _wf_sparse(ob, shape)
            if w:
                return w
            got = {tuple(s_): v for s_, v in zip(ob["subs"], ob["vals"])}
            want = {tuple([k] * len(shape)): a["e"][k] for k in range(N) if a["e"][k] != 0}
            if got != want:
                return f"stored entries {got} != diagonal {want}"
        else:
            for s_, v in zip(tgen.all_subs(shape), ob["data"]):
                want = a["e"][s_[0]] if len(set(s_)) == 1 and s_[0] < N else 0
                if v != want:
                    return f"entry {s_} = {v}, expected {want}"
    elif c.op in ("tendiag_2d", "sptendiag_2d", "sptenrand_kw"):
        return None
    elif c.op == "teneye":
        if a["m"] % 2 == 1:
            return None if o.get("exc") == "ValueError" else "odd order accepted"
        if "exc" in o:
            return f"raised {o['exc']}"
        m, n = a["m"], a["n"]
        x = [Fraction(p, q) for p, q in a["x"]]
        subs = tgen.all_subs([n] * m)
        A = dict(zip(map(tuple, subs), o["data"]))
        nrm2 = sum(v * v for v in x)
        for i1 in range(n):
            acc = Fraction(0)
            for s in subs:
                if s[0] == i1:
                    acc += A[tuple(s)] * math.prod(x[k] for k in s[1:])
            want = nrm2 ** (m // 2 - 1) * x[i1]
            if abs(acc - want) > Fraction(1, 10 ** 6) * max(1, abs(want)):
                return f"ttsv(I,x)[{i1}] = {float(acc)} != {float(want)}"
    elif c.op == "diag_lines":
        return _oracle_diag_lines(a, o)
    elif c.op == "gen_lines":
        bad = a["sf"] in ("arr_float", "arr_2d", "nested", "empty") or any(d < 0 for d in a["shape"])
        if "exc" in o:
            return None if bad else f"admissible shape argument raised {o['exc']}: {o.get('msg')}"
        if bad:
            return "ill-formed shape argument accepted"
        if o["ok"]["shape"] != a["shape"] or o["ok"]["data"] != [1 if a["kind"] == "tenones" else 0] * math.prod(a["shape"]):
            return "wrong shape or entries"
    elif c.op in W3.OPS:
        return W3.oracle(c, o)
    return None


# ---------------------------------------------------------------- known findings: NONE open
# C20-N3 (request equal to the tensor size rejected) is repaired in /repo 2b4b024: the model follows the repaired code
# (C20Gen.norm_request_fl returns the saturated flag, sprand_req starts the loop from every subscript), the either-or region
# C20Harness.n3_region is gone, there is ONE accepted behaviour everywhere. The witness (sptenrand((2,2), density=1.0)) is an
# ordinary regression case of gen_cases; the input class "request equals the size" is generated for every shape of the random
# stream (int, float and numpy-typed requests, density 1.0, injected draw streams, inside seeded sequences).
def _total(c):
    return math.prod(c.args["shape"])


def _req(c):
    return Fraction(c.args["p"], c.args["q"])


INPUT_CLASSES = {
    "request_equals_size": lambda c: c.op in ("sp_from_function", "sptenrand")
    and ((_req(c) == 1) if (c.op == "sptenrand" and c.args["mode"] == "density") else _req(c) == _total(c)),
}
TRIGGERS = {}
WITNESSES = {}
