SOURCE_COMMITS = []
NOTES = ("Technique family: machine-checked proof in Coq 8.16.1. Every check = regenerate Gen/*.v from /repo (translator), "
         "rebuild the theorems, Print Assumptions audit, then correspondence of the executable model against pyttb. See DESIGN.md.")
PROOF_NOTE = ("Trusted: Coq kernel + vm_compute; translator tools/pyx2v.py and its numpy->Np whitelist; Np primitives as numpy semantics; "
              "correspondence harness. Axioms per theorem from Print Assumptions (evidence coverage.axioms). Floating point, LAPACK, "
              "numpy.random are oracles (DESIGN §6).")
CLAIMED = {
 "C17": {"category": "proof", "pyx2v": True,
         "text": "Theorems over the helpers as regenerated from pyttb_utils.py on every run (sub2ind/ind2sub bijection, first-index-fastest, "
                 "tt_dimscheck selection/alignment/rejections), for all shapes, index sets and mode requests; row-set helpers and Khatri-Rao "
                 "tied by correspondence against the generated model.",
         "note": PROOF_NOTE, "technique": "Coq theorems over translator-generated Gallina + differential correspondence"},
}
NOT_APPLICABLE = {}
