(* Proofs/C19W3.v — wave 3: further guard theorems (matricised element-wise operations, ...). *)
From Coq Require Import List ZArith Bool Lia Permutation Sorted.
From PV Require Import Np.NpZ Np.NpZ2 Gen.GenUtils Gen.GenUtils2 Proofs.NpZProofs Proofs.UtilsProofs Model.C19Guards Proofs.C19Proofs Proofs.C19Ttv Proofs.C19More.
Import ListNotations.
Local Open Scope Z_scope.

(* ---- tenmat + / - : matrix shapes must agree ---- *)
(* a tenmat always holds at least one element (the constructor refuses empty data with a non-empty tshape), so both matrix
   shapes have a non-zero element count; on that domain the check is exact.  Without the hypothesis the two "no element"
   shapes (0,1) and (1,0) both read () and numpy broadcasts them. *)
Definition tenmat_binop_stmt : Prop := forall ts rd cd us urd ucd,
  guard_tenmat_binop ts rd cd us urd ucd = decide (pre_tenmat_binop ts rd cd us urd ucd).
Theorem tenmat_binop_refuted : ~ tenmat_binop_stmt.
Proof. intros H. specialize (H [0; 1] [0] [1] [0; 1] [1] [0]). vm_compute in H. discriminate. Qed.

Lemma np_broadcast_ok_refl a : np_broadcast_ok a a = true.
Proof. unfold np_broadcast_ok. apply bcast_rev_refl. Qed.

Theorem tenmat_binop_decides ts rd cd us urd ucd :
  zprod (mshape ts rd cd) <> 0 -> zprod (mshape us urd ucd) <> 0 ->
  guard_tenmat_binop ts rd cd us urd ucd = decide (pre_tenmat_binop ts rd cd us urd ucd).
Proof.
  intros H1 H2. apply decide_by. unfold guard_tenmat_binop, pre_tenmat_binop, tm_shape. okb.
  destruct (Z.eqb_spec (zprod (mshape ts rd cd)) 0); [contradiction|].
  destruct (Z.eqb_spec (zprod (mshape us urd ucd)) 0); [contradiction|].
  destruct (shape_eqb (mshape ts rd cd) (mshape us urd ucd)) eqn:E; [|reflexivity].
  apply shape_eqb_eq in E. rewrite E. apply np_broadcast_ok_refl.
Qed.

(* ---- cp_als(optdims) ---- *)
Lemma filter_false {A} (l : list A) : filter (fun _ => false) l = [].
Proof. induction l; auto. Qed.

Lemma filter_mem_nonempty N d : forallb (in_range N) d = true ->
  (0 <? zlen (filter (fun x => zmem x d) (np_arange 0 N))) = (0 <? zlen d).
Proof.
  intros H. destruct d as [|x r].
  - cbn [zmem existsb]. rewrite filter_false. reflexivity.
  - cbn [forallb] in H. apply andb_true_iff in H as [Hx _]. unfold in_range in Hx.
    apply andb_true_iff in Hx as [H0 H1]. apply Z.leb_le in H0. apply Z.ltb_lt in H1.
    assert (Hin : In x (filter (fun y => zmem y (x :: r)) (np_arange 0 N))).
    { apply filter_In. split; [apply in_np_arange; lia|]. apply zmem_spec. now left. }
    destruct (filter (fun y => zmem y (x :: r)) (np_arange 0 N)) as [|y l]; [contradiction|].
    unfold zlen. cbn [length]. apply eq_trans with true; [apply Z.ltb_lt; lia|symmetry; apply Z.ltb_lt; lia].
Qed.

Lemma unique_len_nodupb d : (zlen (np_unique d) =? zlen d) = nodupb d.
Proof.
  destruct (nodupb d) eqn:E.
  - apply nodup_ok. now apply nodupb_spec.
  - apply dup_rejected. intros H. apply nodupb_spec in H. congruence.
Qed.

Theorem cp_optdims_decides s d : guard_cp_optdims s d = decide (pre_cp_optdims s d).
Proof.
  apply decide_by. unfold guard_cp_optdims, pre_cp_optdims, modes_ok. okb.
  rewrite isin_arange_forallb, unique_len_nodupb.
  destruct (forallb (in_range (ndim s)) d) eqn:E; cbn [andb]; [|reflexivity].
  now rewrite filter_mem_nonempty.
Qed.

(* ---- partitions of the modes into row and column modes ---- *)
Lemma is_ok_partition N r c : 0 <= N -> is_ok (chk_partition N r c) = is_permb N (r ++ c).
Proof.
  intros HN. unfold chk_partition. okb. rewrite sorted_perm_bool by assumption.
  unfold is_permb. destruct (zlen (r ++ c) =? N); reflexivity.
Qed.

Lemma gather_both N rd cd : gather_wrap_dims N (Some rd) (Some cd) None = Ok (rd, cd).
Proof. reflexivity. Qed.

Theorem to_sptenmat_decides s rd cd : guard_to_sptenmat s rd cd = decide (pre_to_tenmat s rd cd).
Proof.
  apply decide_by. unfold guard_to_sptenmat, pre_to_tenmat. rewrite gather_both. apply is_ok_partition, ndim_nonneg.
Qed.

(* products of sizes over a partition of the modes *)
Lemma zprod_app a b : zprod (a ++ b) = zprod a * zprod b.
Proof. unfold zprod. induction a as [|x a IH]; cbn [app fold_right]; [lia|]. rewrite IH. lia. Qed.

Lemma zprod_perm a b : Permutation a b -> zprod a = zprod b.
Proof. unfold zprod. induction 1; cbn [fold_right]; lia. Qed.

Lemma map_nth_seq (s : vec) : map (fun k => nth k s 0) (seq 0 (length s)) = s.
Proof.
  induction s as [|x s IH]; [reflexivity|]. cbn [length seq map nth]. f_equal.
  rewrite <- seq_shift, map_map. exact IH.
Qed.

Lemma pickz_all s : pickz s (np_arange 0 (ndim s)) = s.
Proof.
  unfold pickz, ndim, zlen. rewrite np_arange_iota, map_map.
  etransitivity; [|apply (map_nth_seq s)]. apply map_ext. intros k. unfold sz. apply znth_nat.
Qed.

Lemma zprod_partition s r c : is_permb (ndim s) (r ++ c) = true -> zprod (pickz s r) * zprod (pickz s c) = zprod s.
Proof.
  intros H. apply is_permb_Permutation in H; [|apply ndim_nonneg].
  rewrite <- zprod_app. unfold pickz. rewrite <- map_app. rewrite (zprod_perm _ _ (Permutation_map (sz s) H)).
  fold (pickz s (np_arange 0 (ndim s))). now rewrite pickz_all.
Qed.

Lemma is_permb_nonneg N o : is_permb N o = true -> forall x, In x o -> 0 <= x < N.
Proof.
  unfold is_permb. intros H x Hx. apply andb_true_iff in H as [_ H]. apply modes_ok_spec in H as [H _]. auto.
Qed.

Lemma map_szw_nonneg s l : (forall x, In x l -> 0 <= x) -> map (szw s) l = pickz s l.
Proof. intros H. unfold pickz. apply map_ext_in. intros x Hx. apply szw_nonneg. auto. Qed.

Lemma forallb_idx_ok_range N l : (forall x, In x l -> 0 <= x < N) -> forallb (np_idx_ok N) l = true.
Proof.
  intros H. apply forallb_forall. intros x Hx. specialize (H x Hx). unfold np_idx_ok.
  apply andb_true_iff. split; [apply Z.leb_le|apply Z.ltb_lt]; lia.
Qed.

(* a partition of the modes and a data matrix of the matching size: the constructor accepts *)
Lemma tenmat_ctor_accepts ts r c : is_permb (ndim ts) (r ++ c) = true ->
  guard_tenmat_ctor (zprod (pickz ts r), zprod (pickz ts c)) r c ts = Ok tt.
Proof.
  intros H. pose proof (is_permb_nonneg _ _ H) as Hr.
  assert (Hr1 : forall x, In x r -> 0 <= x < ndim ts) by (intros; apply Hr, in_or_app; auto).
  assert (Hr2 : forall x, In x c -> 0 <= x < ndim ts) by (intros; apply Hr, in_or_app; auto).
  rewrite (res_unit_decide (guard_tenmat_ctor _ _ _ _)). change (Ok tt) with (decide true). f_equal.
  unfold guard_tenmat_ctor. rewrite gather_both. okb. cbn [rows cols fst snd].
  rewrite is_ok_partition by apply ndim_nonneg. rewrite H.
  rewrite !forallb_idx_ok_range by assumption.
  rewrite !map_szw_nonneg by (intros x Hx; first [apply Hr1 in Hx|apply Hr2 in Hx]; lia).
  rewrite zprod_partition by assumption. now rewrite !Z.eqb_refl.
Qed.

(* tenmat(data, rdims, cdims, tshape): only the element count is compared, so a matrix with the wrong numbers of rows and
   columns passes (C19-N11, open); with the right number of rows the constructor is exact *)
Definition tenmat_ctor_stmt : Prop := forall d rd cd ts, guard_tenmat_ctor d rd cd ts = decide (pre_tenmat_ctor d rd cd ts).
Theorem tenmat_ctor_refuted : ~ tenmat_ctor_stmt.
Proof. intros H. specialize (H (6, 4) [2] [0; 1] [2; 3; 4]). vm_compute in H. discriminate. Qed.

Theorem tenmat_ctor_partial d rd cd ts : rows d = zprod (pickz ts rd) -> rows d <> 0 ->
  guard_tenmat_ctor d rd cd ts = decide (pre_tenmat_ctor d rd cd ts).
Proof.
  intros Hrow Hnz. apply decide_by. unfold pre_tenmat_ctor.
  destruct (is_permb (ndim ts) (rd ++ cd)) eqn:HP; cbn [andb].
  - pose proof (is_permb_nonneg _ _ HP) as Hr.
    assert (Hr1 : forall x, In x rd -> 0 <= x < ndim ts) by (intros; apply Hr, in_or_app; auto).
    assert (Hr2 : forall x, In x cd -> 0 <= x < ndim ts) by (intros; apply Hr, in_or_app; auto).
    unfold guard_tenmat_ctor. rewrite gather_both. okb. rewrite is_ok_partition by apply ndim_nonneg. rewrite HP.
    rewrite !forallb_idx_ok_range by assumption.
    rewrite !map_szw_nonneg by (intros x Hx; first [apply Hr1 in Hx|apply Hr2 in Hx]; lia).
    rewrite <- (zprod_partition ts rd cd HP). rewrite Hrow, Z.eqb_refl. cbn [andb]. rewrite !andb_true_r.
    destruct (Z.eqb_spec (cols d) (zprod (pickz ts cd))) as [E|E].
    + rewrite E, !Z.eqb_refl. reflexivity.
    + apply andb_false_iff. left. apply Z.eqb_neq. rewrite <- Hrow. nia.
  - unfold guard_tenmat_ctor. rewrite gather_both. okb. rewrite is_ok_partition by apply ndim_nonneg. rewrite HP.
    now rewrite !andb_false_r.
Qed.

(* ---- tensor.to_tenmat(rdims, cdims) ---- *)
Lemma forallb_app {A} (f : A -> bool) a b : forallb f (a ++ b) = forallb f a && forallb f b.
Proof. induction a as [|x a IH]; cbn; [reflexivity|]. rewrite IH. now rewrite andb_assoc. Qed.

Theorem to_tenmat_decides s rd cd : guard_to_tenmat s rd cd = decide (pre_to_tenmat s rd cd).
Proof.
  apply decide_by. unfold guard_to_tenmat, pre_to_tenmat. rewrite gather_both. okb.
  rewrite is_ok_partition by apply ndim_nonneg.
  destruct (is_permb (ndim s) (rd ++ cd)) eqn:HP.
  - rewrite tenmat_ctor_accepts by assumption. cbn [is_ok andb]. rewrite !andb_true_r.
    pose proof (is_permb_nonneg _ _ HP) as Hr.
    assert (F : forallb (in_range (ndim s)) (rd ++ cd) = true).
    { apply forallb_forall. intros x Hx. apply Hr in Hx. unfold in_range. apply andb_true_iff. split; [apply Z.leb_le|apply Z.ltb_lt]; lia. }
    rewrite forallb_app in F. exact F.
  - cbn [andb]. now rewrite !andb_false_r.
Qed.

(* ---- matricisation with one side left to the generated helper (nvecs, ttt) ---- *)
Lemma modes_ok_app_r N a b : modes_ok N (a ++ b) = true -> modes_ok N b = true.
Proof.
  intros H. apply modes_ok_spec in H as [Hr Hn]. apply modes_ok_spec. split.
  - intros x Hx. apply Hr, in_or_app. auto.
  - clear Hr. induction a as [|x a IH]; [exact Hn|]. cbn in Hn. inversion Hn; auto.
Qed.

Lemma is_permb_perm N o o' : Permutation o o' -> is_permb N o = is_permb N o'.
Proof.
  intros H. unfold is_permb. rewrite (modes_ok_perm N _ _ H). unfold zlen. now rewrite (Permutation_length H).
Qed.

Lemma is_permb_modes_r N a b : is_permb N (a ++ b) = true -> modes_ok N b = true.
Proof. unfold is_permb. intros H. apply andb_true_iff in H as [_ H]. eapply modes_ok_app_r; eauto. Qed.

Lemma partition_complement_r N e : 0 <= N -> is_permb N (complement N e ++ e) = modes_ok N e.
Proof.
  intros HN. destruct (modes_ok N e) eqn:E; [now apply is_permb_complement|].
  destruct (is_permb N (complement N e ++ e)) eqn:F; [|reflexivity].
  apply is_permb_modes_r in F. congruence.
Qed.

Lemma partition_complement_l N e : 0 <= N -> is_permb N (e ++ complement N e) = modes_ok N e.
Proof. intros HN. rewrite (is_permb_perm N _ _ (Permutation_app_comm e (complement N e))). now apply partition_complement_r. Qed.

Lemma modes_ok_range N d : modes_ok N d = true -> forallb (in_range N) d = true.
Proof. unfold modes_ok. intros H. now apply andb_true_iff in H as [H _]. Qed.

Lemma gather_cols N cd : gather_wrap_dims N None (Some cd) None = Ok (np_setdiff1d (np_arange 0 N) cd, cd).
Proof. reflexivity. Qed.
Lemma gather_rows N rd : gather_wrap_dims N (Some rd) None None = Ok (rd, np_setdiff1d (np_arange 0 N) rd).
Proof. unfold gather_wrap_dims. cbn. rewrite andb_false_r. reflexivity. Qed.

Lemma to_tenmat_cols_ok s cd : is_ok (guard_to_tenmat_opt s None (Some cd)) = modes_ok (ndim s) cd.
Proof.
  pose proof (ndim_nonneg s) as HN. unfold guard_to_tenmat_opt.
  rewrite gather_cols.
  rewrite setdiff_arange. fold (complement (ndim s) cd). okb. rewrite is_ok_partition by assumption.
  rewrite partition_complement_r by assumption. cbn [andb].
  destruct (modes_ok (ndim s) cd) eqn:E; [|now rewrite andb_false_r].
  rewrite tenmat_ctor_accepts by (now rewrite partition_complement_r). rewrite (modes_ok_range _ _ E). reflexivity.
Qed.

Lemma to_tenmat_rows_ok s rd : is_ok (guard_to_tenmat_opt s (Some rd) None) = modes_ok (ndim s) rd.
Proof.
  pose proof (ndim_nonneg s) as HN. unfold guard_to_tenmat_opt.
  rewrite gather_rows.
  rewrite setdiff_arange. fold (complement (ndim s) rd). okb. rewrite is_ok_partition by assumption.
  rewrite partition_complement_l by assumption. cbn [andb].
  destruct (modes_ok (ndim s) rd) eqn:E; [|now rewrite andb_false_r].
  rewrite tenmat_ctor_accepts by (now rewrite partition_complement_l). rewrite (modes_ok_range _ _ E). reflexivity.
Qed.

(* tensor.nvecs(n, r): the mode argument *)
Theorem nvecs_decides s n : guard_nvecs s n = decide (pre_mode s n).
Proof.
  apply decide_by. transitivity (is_ok (guard_to_tenmat_opt s (Some [n]) None)).
  - unfold guard_nvecs, guard_to_tenmat_opt. rewrite gather_rows. okb. reflexivity.
  - rewrite to_tenmat_rows_ok. unfold pre_mode, modes_ok. cbn. now rewrite !andb_true_r.
Qed.

(* ---- tensor.ttt ---- *)
Lemma modes_ok_bounds N d : modes_ok N d = true -> forall x, In x d -> 0 <= x < N.
Proof. intros H. now apply modes_ok_spec in H as [H _]. Qed.

Theorem ttt_decides s u sd od : guard_ttt s u sd od = decide (pre_ttt s u sd od).
Proof.
  apply decide_by. unfold guard_ttt, pre_ttt. okb. rewrite to_tenmat_cols_ok, to_tenmat_rows_ok.
  destruct (modes_ok (ndim s) sd) eqn:E1; [|now rewrite !andb_false_r].
  destruct (modes_ok (ndim u) od) eqn:E2; [|now rewrite !andb_false_r].
  pose proof (modes_ok_bounds _ _ E1) as B1. pose proof (modes_ok_bounds _ _ E2) as B2.
  rewrite !forallb_idx_ok_range by assumption.
  rewrite !map_szw_nonneg by (intros x Hx; first [apply B1 in Hx|apply B2 in Hx]; lia).
  cbn [andb].
  destruct (shape_eqb (pickz s sd) (pickz u od)) eqn:E; [|reflexivity].
  apply shape_eqb_eq in E. rewrite E. now rewrite Z.eqb_refl.
Qed.

(* ---- linear indices, over the GENERATED tt_ind2sub: -prod(shape) <= k < prod(shape) ---- *)
Theorem linear_index_decides s k : guard_linear_index s k = decide (pre_linear_index s k).
Proof.
  apply decide_by. unfold guard_linear_index, pre_linear_index. okb.
  unfold tt_ind2sub. change (zlen [k] =? 0) with false. cbv iota zeta.
  unfold np_wrap_neg, np_unravel_index. cbn [map mapM]. unfold np_unravel_row.
  destruct (Z.ltb_spec k 0).
  - destruct (Z.ltb_spec (k + zprod s) 0), (Z.leb_spec (zprod s) (k + zprod s)), (Z.leb_spec (zprod s) k),
      (Z.leb_spec (- zprod s) k), (Z.ltb_spec k (zprod s)); cbn; try reflexivity; lia.
  - destruct (Z.ltb_spec k 0); [lia|]. destruct (Z.leb_spec (zprod s) k), (Z.leb_spec (- zprod s) k), (Z.ltb_spec k (zprod s));
      cbn; try reflexivity; lia.
Qed.

(* ---- tensor.scale: dims is a set of modes; the factor is compared with the sizes of the modes in ascending order ---- *)
Theorem scale_decides s f d : guard_scale s f d = decide (pre_scale s f d).
Proof.
  unfold guard_scale, pre_scale. destruct (modes_ok (ndim s) d) eqn:Hm.
  - apply modes_ok_spec in Hm as [Hr Hn]. rewrite (dimscheck_dims (ndim s) None d).
    + cbn [andb]. destruct (shape_eqb f (pickz s (np_sort d))); reflexivity.
    + repeat split; auto; apply Hr; auto.
  - now rewrite dimscheck_rejects_bad_modes.
Qed.

(* ---- ktensor.mttkrp / sumtensor.mttkrp ---- *)
Lemma kw_chain_cols_eq s n wc l :
  forallb (fun iu => (fst iu =? n) || (cols (snd iu) =? wc)) l = true ->
  is_ok (kw_chain s n wc l) = forallb (fun iu => (fst iu =? n) || (rows (snd iu) =? sz s (fst iu))) l.
Proof.
  induction l as [|[i u] l IH]; intros H; [reflexivity|].
  cbn [kw_chain forallb fst snd] in *. apply andb_true_iff in H as [H1 H2].
  destruct (i =? n); cbn [orb andb] in *; [now apply IH|].
  apply Z.eqb_eq in H1. destruct (rows u =? sz s i); cbn [negb andb]; [|reflexivity].
  rewrite H1, Z.eqb_refl. cbn [orb negb]. destruct (wc =? 1); now apply IH.
Qed.

Lemma kw_chain_accepts s n wc l :
  forallb (fun iu => (fst iu =? n) || ((rows (snd iu) =? sz s (fst iu)) && (cols (snd iu) =? wc))) l = true ->
  kw_chain s n wc l = Ok tt.
Proof.
  induction l as [|[i u] l IH]; intros H; [reflexivity|].
  cbn [kw_chain forallb fst snd] in *. apply andb_true_iff in H as [H1 H2].
  destruct (i =? n); cbn [orb] in H1; [now apply IH|].
  apply andb_true_iff in H1 as [Hr Hc]. rewrite Hr. cbn [negb]. apply Z.eqb_eq in Hc. rewrite Hc, Z.eqb_refl. cbn [orb negb].
  destruct (wc =? 1); now apply IH.
Qed.

Lemma idx_ok_mttkrp N (us : list shp2) n : zlen us = N -> in_range N n = true ->
  np_idx_ok (zlen us) (if n =? 0 then 1 else 0) = (2 <=? N).
Proof.
  intros Hl Hn. rewrite Hl. unfold in_range in Hn. apply andb_true_iff in Hn as [H0 H1].
  apply Z.leb_le in H0. apply Z.ltb_lt in H1. unfold np_idx_ok.
  destruct (Z.eqb_spec n 0); destruct (Z.leb_spec 2 N); apply andb_true_iff || apply andb_false_iff;
    rewrite ?Z.leb_le, ?Z.ltb_lt, ?Z.leb_gt, ?Z.ltb_ge; lia.
Qed.

Lemma znth_In {A} (d : A) l k : 0 <= k < zlen l -> In (znth d l k) l.
Proof.
  intros H. unfold znth. destruct (Z.ltb_spec k 0); [lia|]. destruct (Z.ltb_spec k 0); [lia|].
  apply nth_In. unfold zlen in H. lia.
Qed.

Ltac bsimpl := repeat (rewrite ?andb_false_r, ?andb_true_r, ?andb_false_l, ?andb_true_l).

(* C19-N09 repaired: the helper compares the column counts, so a single column is no longer stretched *)
Theorem ktensor_mttkrp_decides s us n : guard_ktensor_mttkrp s us n = decide (pre_mttkrp s us n).
Proof.
  apply decide_by. rewrite pre_mttkrp_split. unfold guard_ktensor_mttkrp, guard_mttkrp_factors. cbv zeta. okb.
  destruct (Z.eqb_spec (zlen us) (ndim s)) as [El|El]; bsimpl; [|reflexivity].
  destruct (in_range (ndim s) n) eqn:En; bsimpl; [|reflexivity].
  rewrite (idx_ok_mttkrp (ndim s) us n El En).
  destruct (mttkrp_cols_ok (ndim s) us n) eqn:B; bsimpl; [|reflexivity].
  unfold mttkrp_cols_ok in B. rewrite (kw_chain_cols_eq s n _ _ B). reflexivity.
Qed.

(* a sum of a dense and a Kruskal part: the dense part already compares the column counts, so the sum is exact *)
Theorem sumtensor_mttkrp_decides s us n : guard_sumtensor_mttkrp s us n = decide (pre_mttkrp s us n).
Proof.
  unfold guard_sumtensor_mttkrp. rewrite tensor_mttkrp_decides, ktensor_mttkrp_decides.
  destruct (pre_mttkrp s us n); reflexivity.
Qed.

(* ---- ttensor.ttm / sptensor.ttm ---- *)
Theorem ttensor_ttm_decides s ms dims excl tr : guard_ttensor_ttm s ms dims excl tr = decide (pre_ttensor_ttm s ms dims excl tr).
Proof. unfold guard_ttensor_ttm, pre_ttensor_ttm. apply ttv_checks_decides. Qed.

Theorem sptensor_ttm_decides s ms dims excl tr : guard_sptensor_ttm s ms dims excl tr = decide (pre_ttm s ms dims excl tr).
Proof. apply tensor_ttm_decides. Qed.



(* ---- sptensor.mttkrp ---- *)
Lemma combine_seq_map {A} (d : A) (l : list A) a :
  combine (map Z.of_nat (seq a (length l))) l = map (fun j => (Z.of_nat j, nth (j - a) l d)) (seq a (length l)).
Proof.
  revert a. induction l as [|x l IH]; intros a; [reflexivity|].
  cbn [length seq map combine]. rewrite Nat.sub_diag. cbn [nth]. f_equal.
  rewrite IH. apply map_ext_in. intros j Hj. apply in_seq in Hj.
  replace (j - a)%nat with (S (j - S a)) by lia. reflexivity.
Qed.

Lemma combine_arange_map {A} (d : A) (l : list A) :
  combine (np_arange 0 (zlen l)) l = map (fun m => (m, znth d l m)) (np_arange 0 (zlen l)).
Proof.
  unfold zlen. rewrite np_arange_iota, (combine_seq_map d l 0), map_map. apply map_ext.
  intros j. rewrite Nat.sub_0_r. now rewrite znth_nat.
Qed.

Lemma forallb_filter_imp {A} (p g : A -> bool) l : forallb g (filter p l) = forallb (fun x => negb (p x) || g x) l.
Proof. induction l as [|x l IH]; [reflexivity|]. cbn [filter forallb]. destruct (p x); cbn [forallb negb orb]; now rewrite IH. Qed.

Lemma forallb_combine_snd {A B} (g : B -> bool) (a : list A) (b : list B) : length a = length b ->
  forallb (fun p => g (snd p)) (combine a b) = forallb g b.
Proof.
  revert b. induction a as [|x a IH]; intros [|y b] H; cbn in H; try discriminate; [reflexivity|].
  cbn [combine forallb snd]. rewrite IH by lia. reflexivity.
Qed.

Lemma filter_len_le {A} (p : A -> bool) l : (length (filter p l) <= length l)%nat.
Proof. induction l as [|y l IH]; [cbn; lia|]. cbn [filter length]. destruct (p y); cbn [length]; lia. Qed.

Lemma filter_length_lt {A} (p : A -> bool) l x : In x l -> p x = false -> (length (filter p l) < length l)%nat.
Proof.
  induction l as [|y l IH]; intros Hin Hp; [contradiction|]. cbn [filter length].
  destruct Hin as [->|Hin].
  - rewrite Hp. pose proof (filter_len_le p l). lia.
  - specialize (IH Hin Hp). destruct (p y); cbn [length]; lia.
Qed.

Lemma nth_map_lt {A B} (f : A -> B) l k d e : (k < length l)%nat -> nth k (map f l) e = f (nth k l d).
Proof. intros. rewrite (nth_indep _ e (f d)) by (rewrite map_length; lia). apply map_nth. Qed.

Lemma zmem_single m n : zmem m [n] = (m =? n).
Proof. cbn. now rewrite orb_false_r. Qed.

Lemma np_arange_len N : 0 <= N -> length (np_arange 0 N) = Z.to_nat N.
Proof. intros. unfold np_arange. rewrite map_length, seq_length. f_equal. lia. Qed.

(* the loop over the columns (R > 0): column r of every matrix, then ttv with exclude_dims = n — it re-checks the row counts *)
Lemma sptensor_mttkrp_loop s us n :
  zlen us = ndim s -> in_range (ndim s) n = true -> mttkrp_cols_ok (ndim s) us n = true -> 0 < mttkrp_R us n ->
  forallb (fun iu : Z * shp2 => (fst iu =? n) || (mttkrp_R us n <=? cols (snd iu))) (combine (np_arange 0 (ndim s)) us) &&
  is_ok (guard_ttv_checks s (map (fun iu : Z * shp2 => if fst iu =? n then 0 else rows (snd iu)) (combine (np_arange 0 (ndim s)) us))
                          None (Some [n])) = mttkrp_rows_ok s us n.
Proof.
  intros El En B HR. pose proof (ndim_nonneg s) as HN. set (R := mttkrp_R us n) in *.
  rewrite ttv_checks_decides, is_ok_decide. unfold pre_ttv, pre_tensor_ttv.
  set (ius := combine (np_arange 0 (ndim s)) us).
  set (vl := map (fun iu : Z * shp2 => if fst iu =? n then 0 else rows (snd iu)) ius).
  assert (Hlen : length ius = Z.to_nat (ndim s)).
  { unfold ius. rewrite combine_length, np_arange_len by assumption. unfold zlen in El. lia. }
  assert (Hvl : zlen vl = ndim s) by (unfold vl, zlen; rewrite map_length, Hlen; lia).
  assert (Hin : 0 <= n < ndim s).
  { unfold in_range in En. apply andb_true_iff in En as [A0 B0]. apply Z.leb_le in A0. apply Z.ltb_lt in B0. lia. }
  cbn [sel_modes pre_sel forallb]. rewrite En. cbn [andb]. rewrite Hvl.
  unfold pre_count. rewrite (Z.eqb_refl (ndim s)), orb_true_r. cbn [andb].
  unfold pre_mults, enum, others.
  set (sel := filter (fun x => negb (zmem x [n])) (np_arange 0 (ndim s))).
  assert (Hsel : (zlen sel =? ndim s) = false).
  { apply Z.eqb_neq. unfold zlen, sel.
    pose proof (filter_length_lt (fun x => negb (zmem x [n])) (np_arange 0 (ndim s)) n) as L.
    rewrite np_arange_len in L by assumption. specialize (L (proj2 (in_np_arange 0 (ndim s) n) Hin)).
    rewrite zmem_single, Z.eqb_refl in L. specialize (L eq_refl). lia. }
  transitivity (forallb (fun iu : Z * shp2 => (fst iu =? n) || (R <=? cols (snd iu))) ius &&
                forallb (fun iu : Z * shp2 => (fst iu =? n) || (rows (snd iu) =? sz s (fst iu))) ius).
  2:{ unfold mttkrp_rows_ok. fold ius. replace (forallb (fun iu : Z * shp2 => (fst iu =? n) || (R <=? cols (snd iu))) ius) with true; [reflexivity|].
      symmetry. unfold mttkrp_cols_ok in B. fold R in B. fold ius in B. rewrite forallb_forall in B. apply forallb_forall.
      intros [i u] Hiu. specialize (B _ Hiu). cbn [fst snd] in *. destruct (i =? n); [reflexivity|]. cbn [orb] in *.
      apply Z.eqb_eq in B. rewrite B. apply Z.leb_refl. }
  - f_equal.
    rewrite (forallb_ext_in _ (fun km => (fun m => znth (-1) vl m =? sz s m) (snd km))).
    2:{ intros [k m] _. cbn [fst snd]. unfold mult_of. now rewrite Hsel. }
    rewrite (forallb_combine_snd (fun m => znth (-1) vl m =? sz s m)) by (rewrite np_arange_len by (unfold zlen; lia); unfold zlen; lia).
    unfold sel. rewrite forallb_filter_imp.
    unfold ius. rewrite <- El. rewrite (combine_arange_map ((0, 0) : shp2) us), forallb_map. rewrite El.
    apply forallb_ext_in. intros m Hm. apply in_np_arange in Hm. cbn [fst snd].
    rewrite negb_involutive, zmem_single. destruct (Z.eqb_spec m n); [reflexivity|]. cbn [orb]. f_equal.
    unfold vl, ius. rewrite <- El at 1. rewrite (combine_arange_map ((0, 0) : shp2) us), map_map. cbn [fst snd].
    rewrite El. unfold znth at 1. destruct (Z.ltb_spec m 0); [lia|]. destruct (Z.ltb_spec m 0); [lia|].
    rewrite (nth_map_lt _ _ _ 0) by (rewrite np_arange_len by assumption; lia).
    assert (Hnth : nth (Z.to_nat m) (np_arange 0 (ndim s)) 0 = m).
    { rewrite <- (Z2Nat.id (ndim s)) by assumption. rewrite np_arange_iota.
      rewrite (nth_indep _ 0 (Z.of_nat 0)) by (rewrite map_length, seq_length; lia).
      rewrite map_nth, seq_nth by lia. lia. }
    rewrite Hnth. destruct (Z.eqb_spec m n); [contradiction|reflexivity].
Qed.

(* C19-N09 repaired (the helper compares the column counts) and C19-N20 repaired (the row counts are compared before the loop over
   the columns, so matrices WITHOUT columns are no longer answered when a row count is wrong): exact for every request *)
Theorem sptensor_mttkrp_decides s us n : guard_sptensor_mttkrp s us n = decide (pre_mttkrp s us n).
Proof.
  apply decide_by. rewrite pre_mttkrp_split.
  unfold guard_sptensor_mttkrp, guard_mttkrp_factors. cbv zeta. okb. rewrite forallb_is_ok_chk.
  change (forallb (fun iu : Z * shp2 => (fst iu =? n) || (rows (snd iu) =? sz s (fst iu))) (combine (np_arange 0 (ndim s)) us))
    with (mttkrp_rows_ok s us n).
  destruct (Z.eqb_spec (zlen us) (ndim s)) as [El|El]; bsimpl; [|reflexivity].
  destruct (in_range (ndim s) n) eqn:En; bsimpl; [|reflexivity].
  rewrite (idx_ok_mttkrp (ndim s) us n El En).
  destruct (mttkrp_cols_ok (ndim s) us n) eqn:B; bsimpl; [|destruct (2 <=? ndim s), (mttkrp_rows_ok s us n); reflexivity].
  destruct (mttkrp_rows_ok s us n) eqn:Rw; bsimpl; [|destruct (2 <=? ndim s); reflexivity].
  destruct (2 <=? ndim s); bsimpl; [|reflexivity].
  destruct (Z.leb_spec (mttkrp_R us n) 0) as [HR|HR]; [reflexivity|]. okb.
  rewrite (sptensor_mttkrp_loop s us n El En B HR). exact Rw.
Qed.

(* ---- sptensor.extract (C19-N17 repaired: the column count is compared with the number of modes) ---- *)
Theorem sptensor_extract_decides s subs :
  subs <> [] -> (forall row, In row subs -> zlen row = zlen (hd [] subs)) ->
  guard_sptensor_extract s subs = decide (pre_subs s subs).
Proof.
  intros Hne Hrect. apply decide_by. unfold guard_sptensor_extract, pre_subs. okb.
  destruct (Z.eqb_spec (zlen (hd [] subs)) (ndim s)) as [E|E]; cbn [andb].
  - apply forallb_ext_in. intros row Hrow. unfold sub_ok. rewrite (Hrect row Hrow), E, Z.eqb_refl. reflexivity.
  - symmetry. destruct subs as [|r0 rest]; [congruence|].
    cbn [forallb hd] in *. apply andb_false_iff. left. unfold sub_ok.
    destruct (Z.eqb_spec (zlen r0) (ndim s)); [contradiction|reflexivity].
Qed.

(* ---- sptensor.from_aggregator ---- *)
Lemma forallb_swap {A B} (f : A -> B -> bool) la lb :
  forallb (fun a => forallb (fun b => f a b) lb) la = forallb (fun b => forallb (fun a => f a b) la) lb.
Proof.
  induction la as [|a la IH]; cbn [forallb].
  - induction lb; cbn; auto.
  - rewrite IH. clear IH. induction lb as [|b lb IH]; cbn [forallb]; [reflexivity|]. rewrite <- IH.
    destruct (f a b), (forallb (fun b0 => f a b0) lb), (forallb (fun a0 => f a0 b) la); reflexivity.
Qed.

Lemma combine_seq_nth {A B} (d1 : A) (d2 : B) l1 : forall l2, length l1 = length l2 ->
  combine l1 l2 = map (fun j => (nth j l1 d1, nth j l2 d2)) (seq 0 (length l2)).
Proof.
  induction l1 as [|x l1 IH]; intros [|y l2] H; cbn in H; try discriminate; [reflexivity|].
  cbn [combine length seq map nth]. f_equal. rewrite <- seq_shift, map_map. cbn [nth]. apply IH. lia.
Qed.

Lemma combine_cols (row s : vec) : zlen row = ndim s ->
  forallb (fun p => fst p <? snd p) (combine row s) = forallb (fun j => znth 0 row j <? sz s j) (np_arange 0 (ndim s)).
Proof.
  intros H. unfold ndim, zlen in *. apply Nat2Z.inj in H. rewrite (combine_seq_nth 0 0 row s H).
  rewrite np_arange_iota, !forallb_map. apply forallb_ext_in. intros j _. cbn [fst snd]. unfold sz. now rewrite !znth_nat.
Qed.

Theorem from_aggregator_hand_partial s subs nvals :
  all_pos s = true -> subs <> [] -> hd [] subs <> [] ->
  (forall row, In row subs -> zlen row = zlen (hd [] subs)) ->
  guard_from_aggregator_hand s subs nvals = decide (pre_sptensor_ctor s subs nvals).
Proof.
  intros Hpos Hne Hc Hrect. pose proof (ndim_nonneg s) as HN. apply decide_by.
  unfold guard_from_aggregator_hand, pre_sptensor_ctor, pre_subs.
  assert (P1 : 0 < zlen subs) by (destruct subs; [congruence|unfold zlen; cbn; lia]).
  assert (P2 : 0 < zlen (hd [] subs)) by (destruct (hd [] subs); [congruence|unfold zlen; cbn; lia]).
  unfold vec in *. destruct (Z.eqb_spec (zlen subs * zlen (hd [] subs)) 0); [nia|]. okb. rewrite Hpos. cbn [andb].
  destruct (Z.eqb_spec nvals (zlen subs)) as [Ev|Ev]; [|rewrite !andb_false_r; reflexivity].
  rewrite !andb_true_r.
  replace (is_ok (if 1 <? zlen subs * zlen (hd [] subs) then chk true else Ok tt)) with true
    by (destruct (1 <? zlen subs * zlen (hd [] subs)); reflexivity).
  cbn [andb].
  destruct (Z.eqb_spec (zlen (hd [] subs)) (ndim s)) as [E|E].
  - rewrite E, Z.leb_refl. cbn [andb].
    rewrite (forallb_ext_in (fun j => is_ok (chk (j <? ndim s) ;; chk (forallb (fun row : list Z => znth 0 row j <? sz s j) subs)))
                            (fun j => forallb (fun row : list Z => znth 0 row j <? sz s j) subs)).
    2:{ intros j Hj. okb. apply in_np_arange in Hj. destruct (Z.ltb_spec j (ndim s)); [reflexivity|lia]. }
    rewrite forallb_swap, forallb_and. apply forallb_ext_in. intros row Hrow.
    assert (Hl : zlen row = ndim s) by (rewrite Hrect by auto; exact E).
    rewrite sub_ok_split by exact Hl. f_equal. symmetry. apply combine_cols. exact Hl.
  - transitivity false.
    + destruct (Z.leb_spec (zlen (hd [] subs)) (ndim s)) as [L|L]; [|now rewrite andb_false_r].
      cbn [andb]. apply andb_false_iff. right.
      match goal with |- ?X = false => destruct X eqn:F; [|reflexivity] end.
      rewrite forallb_forall in F. specialize (F (zlen (hd [] subs))).
      rewrite in_np_arange in F. specialize (F ltac:(lia)). revert F. okb. rewrite Z.ltb_irrefl. discriminate.
    + symmetry. destruct subs as [|r0 rest]; [congruence|]. cbn [forallb hd] in *. unfold sub_ok at 1.
      destruct (Z.eqb_spec (zlen r0) (ndim s)); [contradiction|reflexivity].
Qed.

(* ---- gcp_opt (C19-N19 repaired: a list guess is turned into a Kruskal tensor and compared like one) ---- *)
Lemma znth_map_in {A B} (f : A -> B) (d : A) (d' : B) l n : 0 <= n < zlen l -> znth d' (map f l) n = f (znth d l n).
Proof.
  intros H. unfold znth. destruct (Z.ltb_spec n 0); [lia|]. destruct (Z.ltb_spec n 0); [lia|].
  apply nth_map_lt. unfold zlen in H. lia.
Qed.

Lemma sz_np_full N v n : 0 <= n < N -> sz (np_full N v) n = v.
Proof.
  intros H. unfold sz, znth, np_full. destruct (Z.ltb_spec n 0); [lia|]. destruct (Z.ltb_spec n 0); [lia|].
  rewrite (nth_indep _ 0 v) by (rewrite repeat_length; lia). apply nth_repeat.
Qed.

Lemma gcp_list_fit s ms rank :
  all_cols ms (cols (shp2_d ms 0)) && (shape_eqb (map rows ms) s && (cols (shp2_d ms 0) =? rank))
  = (zlen ms =? ndim s) && (cols (shp2_d ms 0) =? rank) && factors_fit s ms (np_full (ndim s) rank) (np_arange 0 (ndim s)).
Proof.
  destruct (Z.eqb_spec (cols (shp2_d ms 0)) rank) as [ER|ER]; bsimpl; [|reflexivity].
  rewrite ER. apply eq_iff_eq_true. rewrite !andb_true_iff. unfold all_cols, factors_fit.
  rewrite !forallb_forall, shape_eqb_eq, Z.eqb_eq. split.
  - intros [Hc Hs].
    assert (Hl : zlen ms = ndim s) by (rewrite <- Hs; unfold ndim, zlen; now rewrite map_length).
    split; [exact Hl|]. intros n Hn. apply in_np_arange in Hn. apply andb_true_iff. split.
    + apply Z.eqb_eq. rewrite <- Hs. unfold sz, shp2_d. rewrite (znth_map_in rows (0, 0)) by lia. reflexivity.
    + rewrite sz_np_full by lia. apply Hc. apply znth_In. lia.
  - intros [Hl Hf]. split.
    + intros m Hm. apply (In_nth _ _ (0, 0)) in Hm as (k & Hk & Hm). subst m.
      specialize (Hf (Z.of_nat k)). rewrite in_np_arange in Hf.
      assert (Hr : 0 <= Z.of_nat k < ndim s) by (rewrite <- Hl; unfold zlen; split; [lia|apply Nat2Z.inj_lt; exact Hk]). specialize (Hf Hr).
      apply andb_true_iff in Hf as [_ Hf]. rewrite sz_np_full in Hf by exact Hr. unfold shp2_d in Hf. rewrite znth_nat in Hf. exact Hf.
    + apply sz_ext.
      * unfold zlen. rewrite map_length. exact Hl.
      * intros n Hn. assert (Hn' : 0 <= n < zlen ms) by (unfold zlen in *; rewrite map_length in Hn; exact Hn).
        specialize (Hf n). rewrite in_np_arange in Hf. specialize (Hf ltac:(lia)).
        apply andb_true_iff in Hf as [Hf _]. apply Z.eqb_eq in Hf. unfold shp2_d in Hf.
        unfold sz at 1. rewrite (znth_map_in rows (0, 0)) by exact Hn'. exact Hf.
Qed.

Theorem gcp_opt_decides s rank init opt_ok : guard_gcp_opt s rank init opt_ok = decide (pre_gcp_opt s rank init opt_ok).
Proof.
  apply decide_by. unfold guard_gcp_opt, pre_gcp_opt.
  destruct init as [| | |ks R|ms]; okb; cbn [is_ok andb]; bsimpl; try reflexivity.
  - destruct (shape_eqb ks s && (R =? rank)), (0 <? rank), opt_ok; reflexivity.
  - unfold guard_ktensor_ctor. okb. cbn [is_ok]. bsimpl. rewrite <- andb_assoc, <- gcp_list_fit.
    destruct (all_cols ms (cols (shp2_d ms 0))), (shape_eqb (map rows ms) s && (cols (shp2_d ms 0) =? rank)), (0 <? rank), opt_ok; reflexivity.
Qed.
