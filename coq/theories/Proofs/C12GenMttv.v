(* Proofs/C12GenMttv.v — tensor.mttkrps over the GENERATED helpers (w3c task C12c.1).
   Gen/GenKernels3.v holds `mttv_left` / `mttv_mid` as regenerated from pyttb/tensor.py on every run, Gen/GenKernels.v the
   generated `khatrirao`.  `mttkrps_g` below is the body of tensor.mttkrps with EVERY call of mttv_left / mttv_mid / khatrirao
   going to those generated functions (result monad); only the two initial `reshape(data, ...).dot(K)` contractions and the two
   `for` sweeps are transliterated by hand (init_left / init_right of Proofs/C12Reshape.v, sweep_g here).
   Proved: on every well-formed integer array with positive sizes, factor matrices with R >= 1 columns and every admissible
   split index, mttkrps_g returns Ok of the byte-level model mttkrps_b, hence Ok of the per-mode MTTKRPs.  An edit of
   mttv_left / mttv_mid / khatrirao in /repo changes the generated text and breaks these proofs (or the evaluation of mttkrps_g
   against pyttb in the correspondence stream, op mttkrps). *)
From Coq Require Import List ZArith Arith Bool Lia Ring.
From PV Require Import Base.Index Base.Sum Np.Array Model.Sparse Model.Repr Model.C12Gcp Proofs.C12Tensor Proofs.C12Mttkrps
                       Model.C02Dense Proofs.C02DenseProofs Proofs.C12Reshape Proofs.C12KrTie.
From PV Require Import Np.NpZ Np.NpZ2 Np.NpZ3 Np.NpZ3c Gen.GenKernels Gen.GenKernels3 Proofs.W3Bridge Proofs.W3Kernels3.
From PV Require Model.C12Harness.
Import ListNotations.
Local Open Scope nat_scope.

Notation zmat := (list (list Z)).
Notation mlb := (mttv_left_b Z 0%Z Z.add Z.mul).
Notation mmb := (mttv_mid_b Z 0%Z Z.add Z.mul).
Notation KRz := (kr_rev Z.mul).

(* ---- small conversions between the Z-indexed numpy primitives and the nat-indexed model ---- *)
Lemma znth_nat {A} (d : A) (l : list A) (k : nat) : znth d l (Z.of_nat k) = nth k l d.
Proof.
  unfold znth. destruct (Z.ltb_spec (Z.of_nat k) 0); [lia|]. destruct (Z.ltb_spec (Z.of_nat k) 0); [lia|].
  now rewrite Nat2Z.id.
Qed.

Lemma zsum_sumv (l : list Z) : zsum l = sumv 0%Z Z.add l.
Proof. induction l as [|x l IH]; [reflexivity|]. cbn. unfold zsum in IH. now rewrite IH. Qed.

Lemma zsum_sum_over {A} (l : list A) (f : A -> Z) : zsum (map f l) = sum_over 0%Z Z.add l f.
Proof. unfold sum_over. apply zsum_sumv. Qed.

Lemma rows_have_wf (R : nat) (M : zmat) : wf_cols Z R M -> rows_have M (Z.of_nat R) = true.
Proof.
  intros H. unfold rows_have. apply forallb_forall. intros row Hrow. unfold wf_cols in H. rewrite Forall_forall in H.
  apply Z.eqb_eq. unfold zlen. now rewrite (H row Hrow).
Qed.

Lemma np_ncols_wf (R : nat) (M : zmat) : 1 <= length M -> wf_cols Z R M -> np_ncols M = Z.of_nat R.
Proof. intros HL HW. rewrite GenKhatriRao.np_ncols_nat. now rewrite (ncols_wf Z R M HL HW). Qed.

Lemma tab_wf d R f : wf_cols Z R (tab Z d R f).
Proof. apply tab_dims. Qed.

(* ---- the generated mttv_left returns the byte-level model ---- *)
Theorem mttv_left_generated (W U1 : zmat) (R d m : nat) :
  1 <= R -> 1 <= d -> length U1 = d -> wf_cols Z R U1 -> length W = d * m -> wf_cols Z R W ->
  mttv_left W U1 = Ok (mlb W U1).
Proof.
  intros HR Hd HU HUc HW HWc.
  assert (Enc : np_ncols U1 = Z.of_nat R) by (apply np_ncols_wf; [lia|exact HUc]).
  assert (Enr : np_nrows U1 = Z.of_nat d) by (unfold np_nrows, zlen; now rewrite HU).
  rewrite mttv_left_bridge by (rewrite Enc; now apply rows_have_wf).
  unfold H_mttv_left. rewrite Enc, Enr.
  assert (EW : zlen W = (Z.of_nat m * Z.of_nat d)%Z) by (unfold zlen; rewrite HW; lia).
  assert (Eok : np_reshape3_lead_ok W (Z.of_nat d) (Z.of_nat R) = true).
  { unfold np_reshape3_lead_ok. rewrite (rows_have_wf R W HWc). rewrite EW, Z.mod_mul by lia.
    destruct (Z.eqb_spec (Z.of_nat R) 0); [lia|]. destruct (Z.ltb_spec 0 (Z.of_nat d)); [reflexivity|lia]. }
  rewrite Eok, EW, Z.div_mul by lia. f_equal.
  unfold mttv_left_b. rewrite (ncols_wf Z R U1) by (auto; lia). rewrite HU, HW.
  replace (d * m / d) with m by (rewrite Nat.mul_comm, Nat.div_mul; lia).
  rewrite !np_arange_0. unfold tab. rewrite map_map. apply map_ext_in. intros q Hq. apply in_seq in Hq.
  rewrite map_map. apply map_ext_in. intros j Hj. apply in_seq in Hj.
  unfold left_entry. rewrite Enr, np_arange_0, map_map, zsum_sum_over.
  apply sum_over_ext. intros x Hx. unfold mget.
  rewrite <- Nat2Z.inj_mul, <- Nat2Z.inj_add, !znth_nat. reflexivity.
Qed.

(* ---- the generated mttv_mid (which calls the generated khatrirao) returns the byte-level model ---- *)
Theorem mttv_mid_generated (W : zmat) (Bs : list zmat) (R m : nat) :
  1 <= R -> Bs <> [] -> Forall (fun B => B <> [] /\ wf_cols Z R B) Bs ->
  length W = m * length (KRz Bs) -> wf_cols Z R W ->
  mttv_mid W Bs = Ok (mmb W Bs).
Proof.
  intros HR Hne HB HW HWc.
  assert (HBc : Forall (wf_cols Z R) Bs) by (eapply Forall_impl; [|exact HB]; now intros B [_ H]).
  destruct (kr_rev_wf Z Z.mul R Bs Hne HBc) as [HKc HKl].
  assert (Hpos : 1 <= length (KRz Bs)).
  { rewrite HKl. apply size_pos. apply Forall_forall. intros d Hd. apply in_map_iff in Hd as (B & <- & HBin).
    rewrite Forall_forall in HB. destruct (HB B HBin) as [HBne _]. destruct B; [congruence|cbn; lia]. }
  rewrite mttv_mid_bridge. unfold H_mttv_mid.
  assert (El : (@zlen mat Bs =? 0)%Z = false) by (apply Z.eqb_neq; unfold zlen; destruct Bs; [congruence|cbn [length]; lia]).
  rewrite El, (khatrirao_generated_kr_rev R Bs Hne HR HB).
  set (K := KRz Bs) in *. set (q := length K) in *.
  assert (Enc : np_ncols K = Z.of_nat R) by (apply np_ncols_wf; [lia|exact HKc]).
  assert (Enr : np_nrows K = Z.of_nat q) by reflexivity.
  rewrite Enc, Enr.
  assert (EW : zlen W = (Z.of_nat m * Z.of_nat q)%Z) by (unfold zlen; rewrite HW; lia).
  assert (Eok : np_reshape3_mid_ok W (Z.of_nat q) (Z.of_nat R) = true).
  { unfold np_reshape3_mid_ok. rewrite (rows_have_wf R W HWc). rewrite EW, Z.mod_mul by lia.
    destruct (Z.eqb_spec (Z.of_nat R) 0); [lia|]. destruct (Z.ltb_spec 0 (Z.of_nat q)); [reflexivity|lia]. }
  rewrite Eok, EW, Z.div_mul by lia. f_equal.
  unfold mttv_mid_b. destruct Bs as [|B0 Bs0]; [congruence|]. fold K. fold q.
  rewrite (ncols_wf Z R K) by (auto; lia). rewrite HW, Nat.div_mul by lia.
  rewrite !np_arange_0. unfold tab. rewrite map_map. apply map_ext_in. intros a Ha. apply in_seq in Ha.
  rewrite map_map. apply map_ext_in. intros j Hj. apply in_seq in Hj.
  unfold mid_entry. rewrite Enr, np_arange_0, map_map, zsum_sum_over.
  apply sum_over_ext. intros c Hc. unfold mget.
  rewrite <- Nat2Z.inj_mul, <- Nat2Z.inj_add, !znth_nat. reflexivity.
Qed.

(* ---- tensor.mttkrps with the generated helpers ---- *)
(* for k in range(...): V[k] = mttv_mid(W, U[k+1:...]); W = mttv_left(W, U[k])   and finally  V[last] = W *)
Fixpoint sweep_g (Bs : list zmat) (W : zmat) : res (list zmat) :=
  match Bs with
  | [] => Ok []
  | B :: Bs' =>
      match Bs' with
      | [] => Ok [W]
      | _ :: _ =>
          bind (mttv_mid W Bs') (fun Vk =>
          bind (mttv_left W B) (fun W' =>
          bind (sweep_g Bs' W') (fun rest => Ok (Vk :: rest))))
      end
  end.

(* K = khatrirao( *U[split_idx+1:], reverse=True); W = reshape(data, (-1, K.shape[0]), order).dot(K); left sweep;
   K = khatrirao( *U[0:split_idx+1], reverse=True); W = reshape(data, (K.shape[0], -1), order).transpose().dot(K); right sweep *)
Definition mttkrps_g (data : list Z) (As : list zmat) (sp : nat) : res (list zmat) :=
  bind (khatrirao (skipn (S sp) As) true) (fun K2 =>
  bind (sweep_g (firstn (S sp) As) (init_left Z 0%Z Z.add Z.mul data K2)) (fun Vl =>
  bind (khatrirao (firstn (S sp) As) true) (fun K1 =>
  bind (sweep_g (skipn (S sp) As) (init_right Z 0%Z Z.add Z.mul data K1)) (fun Vr =>
  Ok (Vl ++ Vr))))).

Lemma fdims_ne R (Bs : list zmat) t : Forall (fun d => 1 <= d) t -> fdims Z R Bs t ->
  Forall (fun B => B <> [] /\ wf_cols Z R B) Bs.
Proof.
  intros Hp [Hl Hc]. apply Forall_forall. intros B HB. split.
  - assert (Hin : In (length B) t) by (rewrite <- Hl; now apply in_map).
    rewrite Forall_forall in Hp. specialize (Hp _ Hin). destruct B; [cbn in Hp; lia|discriminate].
  - rewrite Forall_forall in Hc. auto.
Qed.

Lemma sweep_g_eq R : 1 <= R -> forall t (Bs : list zmat) W,
  Forall (fun d => 1 <= d) t -> fdims Z R Bs t -> length W = size t -> wf_cols Z R W ->
  sweep_g Bs W = Ok (sweep_b Z 0%Z Z.add Z.mul Bs W).
Proof.
  intros HR. induction t as [|d t IH]; intros Bs W Hp Hd HW HWc.
  - destruct Hd as [Hl _]. destruct Bs; [reflexivity|discriminate].
  - destruct (fdims_cons_inv Z R Bs d t Hd) as (B & Bs' & -> & HB & HBc & Hd').
    inversion Hp as [|? ? Hd1 Hp']; subst. cbn [sweep_g sweep_b].
    destruct Bs' as [|B' Bs'']; [reflexivity|].
    set (Bs' := B' :: Bs'') in *.
    assert (Hne : Bs' <> []) by discriminate.
    pose proof (fdims_ne R Bs' t Hp' Hd') as HBs.
    destruct Hd' as [Hl' Hc'].
    destruct (kr_rev_wf Z Z.mul R Bs' Hne Hc') as [_ HKl]. rewrite Hl' in HKl.
    assert (E1 : mttv_mid W Bs' = Ok (mmb W Bs')).
    { apply (mttv_mid_generated W Bs' R (length B)); auto. rewrite HKl, HW, size_cons. reflexivity. }
    assert (E2 : mttv_left W B = Ok (mlb W B)).
    { apply (mttv_left_generated W B R (length B) (size t)); auto. }
    rewrite E1, E2. cbn [bind].
    rewrite (IH Bs' (mlb W B)); auto.
    + split; auto.
    + unfold mttv_left_b. rewrite tab_length, HW, size_cons, Nat.mul_comm. apply Nat.div_mul. lia.
    + unfold mttv_left_b. rewrite (ncols_wf Z R B) by (auto; lia). apply tab_wf.
Qed.

Lemma init_left_dims R (data : list Z) (K : zmat) P : 1 <= length K -> wf_cols Z R K -> length data = P * length K ->
  length (init_left Z 0%Z Z.add Z.mul data K) = P /\ wf_cols Z R (init_left Z 0%Z Z.add Z.mul data K).
Proof.
  intros HK HKc Hd. unfold init_left. rewrite (ncols_wf Z R K) by auto. rewrite Hd, Nat.div_mul by lia.
  split; [apply tab_length|apply tab_wf].
Qed.

Lemma init_right_dims R (data : list Z) (K : zmat) P : 1 <= length K -> wf_cols Z R K -> length data = P * length K ->
  length (init_right Z 0%Z Z.add Z.mul data K) = P /\ wf_cols Z R (init_right Z 0%Z Z.add Z.mul data K).
Proof.
  intros HK HKc Hd. unfold init_right. rewrite (ncols_wf Z R K) by auto. rewrite Hd, Nat.div_mul by lia.
  split; [apply tab_length|apply tab_wf].
Qed.

(* tensor.mttkrps with the generated mttv_left / mttv_mid / khatrirao = the byte-level model, every admissible split index *)
Theorem mttkrps_g_bytes : forall s (data : list Z) (As : list zmat) R sp,
  1 <= R -> length data = size s -> Forall (fun d => 1 <= d) s -> fdims Z R As s -> S sp < length s ->
  mttkrps_g data As sp = Ok (mttkrps_b Z 0%Z Z.add Z.mul data As sp).
Proof.
  intros s data As R sp HR Hdata Hp Hd Hsp.
  destruct (fdims_split Z R As s (S sp) Hd) as [Hd1 Hd2].
  assert (HlA : length As = length s) by (destruct Hd as [Hl _]; now rewrite <- Hl, map_length).
  set (s1 := firstn (S sp) s) in *. set (s2 := skipn (S sp) s) in *.
  assert (Es : size s = size s1 * size s2) by (rewrite <- size_app; unfold s1, s2; now rewrite firstn_skipn).
  assert (Hp1 : Forall (fun d => 1 <= d) s1) by now apply Forall_firstn.
  assert (Hp2 : Forall (fun d => 1 <= d) s2) by now apply Forall_skipn.
  assert (N1 : firstn (S sp) As <> []).
  { destruct As; [cbn in HlA; lia|cbn; discriminate]. }
  assert (N2 : skipn (S sp) As <> []).
  { intros E. apply (f_equal (@length _)) in E. rewrite skipn_length in E. cbn in E. lia. }
  pose proof (fdims_ne R _ s1 Hp1 Hd1) as HB1. pose proof (fdims_ne R _ s2 Hp2 Hd2) as HB2.
  destruct (kr_rev_wf Z Z.mul R _ N1 (proj2 Hd1)) as [HK1c HK1l]. rewrite (proj1 Hd1) in HK1l.
  destruct (kr_rev_wf Z Z.mul R _ N2 (proj2 Hd2)) as [HK2c HK2l]. rewrite (proj1 Hd2) in HK2l.
  pose proof (size_pos s1 Hp1) as S1. pose proof (size_pos s2 Hp2) as S2.
  unfold mttkrps_g, mttkrps_b.
  rewrite (khatrirao_generated_kr_rev R _ N2 HR HB2). cbn [bind].
  assert (HL : length (init_left Z 0%Z Z.add Z.mul data (KRz (skipn (S sp) As))) = size s1 /\
               wf_cols Z R (init_left Z 0%Z Z.add Z.mul data (KRz (skipn (S sp) As)))).
  { apply init_left_dims; auto; try lia. }
  destruct HL as [L1 L2].
  rewrite (sweep_g_eq R HR s1) by auto. cbn [bind].
  rewrite (khatrirao_generated_kr_rev R _ N1 HR HB1). cbn [bind].
  assert (HRt : length (init_right Z 0%Z Z.add Z.mul data (KRz (firstn (S sp) As))) = size s2 /\
                wf_cols Z R (init_right Z 0%Z Z.add Z.mul data (KRz (firstn (S sp) As)))).
  { apply init_right_dims; auto; try lia. }
  destruct HRt as [R1 R2].
  rewrite (sweep_g_eq R HR s2) by auto. reflexivity.
Qed.

(* ... hence the per-mode MTTKRPs of the array the flat list denotes *)
Theorem mttkrps_generated : forall (T : dense Z) (As : list zmat) R sp,
  1 <= R -> wf_dense T -> Forall (fun d => 1 <= d) (dshape T) -> fdims Z R As (dshape T) -> S sp < length (dshape T) ->
  mttkrps_g (ddata T) As sp =
  Ok (map (mttkrp_den 0%Z 1%Z Z.add Z.mul (dshape T) (den_dense 0%Z T) As R) (seq 0 (length (dshape T)))).
Proof.
  intros T As R sp HR HT Hp Hd Hsp.
  rewrite (mttkrps_g_bytes (dshape T) (ddata T) As R sp) by auto.
  f_equal. apply (C12_mttkrps_bytes Z 0%Z 1%Z Z.add Z.mul Z.sub Z.opp Zth); auto.
Qed.

(* as called: split_idx = min_split(self.shape) *)
Corollary mttkrps_generated_py : forall (T : dense Z) (As : list zmat) R,
  1 <= R -> wf_dense T -> Forall (fun d => 1 <= d) (dshape T) -> fdims Z R As (dshape T) -> 2 <= length (dshape T) ->
  mttkrps_g (ddata T) As (C12Mttkrps.min_split (dshape T)) =
  Ok (map (mttkrp_den 0%Z 1%Z Z.add Z.mul (dshape T) (den_dense 0%Z T) As R) (seq 0 (length (dshape T)))).
Proof. intros T As R HR HT Hp Hd HN. apply mttkrps_generated; auto. now apply min_split_lt. Qed.

(* ---- fg.evaluate's gradient branch: G = ttb.tensor(Y).mttkrps(model.factor_matrices) with Y = gradient_handle(data, full) * weights ----
   running the generated-helper mttkrps on the flat F-order value list of the derivative array Y returns the model eval_G
   (about which C12_gradient / C12_gradient_weighted are proved), whatever element-wise derivative g, weight array w, split index *)
Theorem evaluate_G_generated : forall (g : Z -> Z -> Z) (K : ktensor Z) (X : dense Z) (w : option (dense Z)) sp,
  1 <= krank K -> Forall (fun d => 1 <= d) (dshape X) -> fdims Z (krank K) (kfactors K) (dshape X) -> S sp < length (dshape X) ->
  mttkrps_g (ddata (tabulate (dshape X) (eval_Y 0%Z 1%Z Z.add Z.mul g K X w))) (kfactors K) sp =
  Ok (eval_G 0%Z 1%Z Z.add Z.mul g K X w).
Proof.
  intros g K X w sp HR Hp Hd Hsp.
  set (Y := eval_Y 0%Z 1%Z Z.add Z.mul g K X w). set (T := tabulate (dshape X) Y).
  assert (Es : dshape T = dshape X) by apply dshape_tabulate.
  rewrite (mttkrps_generated T (kfactors K) (krank K) sp)
    by (first [assumption | apply wf_tabulate | now rewrite Es]).
  f_equal. rewrite Es. unfold eval_G. apply map_ext. intros k. apply mttkrp_den_ext.
  intros i Hi. unfold T. now rewrite den_tabulate.
Qed.

(* executable check used by the generated correspondence cases (op mttkrps): the matrices pyttb returned are what mttkrps_g computes *)
Definition zmttkrps_g_ok (data : list Z) (As : list zmat) (sp : nat) (G : list zmat) : bool :=
  match mttkrps_g data As sp with Ok Vs => C12Harness.mats_eqb Vs G | Err => false end.

(* ---- non-vacuity: skewed 4-way instance, every split index, through the GENERATED helpers ---- *)
Section Example.
Local Open Scope Z_scope.
Let s : shape := [3; 2; 2; 2]%nat.
Let T : dense Z := tabulate s (fun i => Z.of_nat (sub2ind s i) * Z.of_nat (sub2ind s i) - 7 * Z.of_nat (nth 0 i 0%nat) + 1).
Let As : list (list (list Z)) :=
  [ [[1; 2]; [-3; 4]; [5; -6]];
    [[2; 0]; [1; 3]];
    [[-1; 1]; [4; 2]];
    [[3; -2]; [0; 5]] ].
Let spec := map (mttkrp_den 0 1 Z.add Z.mul s (den_dense 0 T) As 2) (seq 0 4).
Example mttkrps_g_ex0 : mttkrps_g (ddata T) As 0 = Ok spec.
Proof. timeout 60 (vm_compute; reflexivity). Qed.
Example mttkrps_g_ex1 : mttkrps_g (ddata T) As 1 = Ok spec.
Proof. timeout 60 (vm_compute; reflexivity). Qed.
Example mttkrps_g_ex2 : mttkrps_g (ddata T) As 2 = Ok spec.
Proof. timeout 60 (vm_compute; reflexivity). Qed.
End Example.

Print Assumptions mttv_left_generated.
Print Assumptions mttv_mid_generated.
Print Assumptions mttkrps_generated.
Print Assumptions evaluate_G_generated.
