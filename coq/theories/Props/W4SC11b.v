(* Props/W4SC11b.v — C11 (CP-APR, damped-Newton row subproblems, tt_cp_apr_pdnr) stated over the GENERATED skeleton Gen/GenCpAprPdnr.v
   (tools/pyx2v_skel.py regenerates it from the region `M = init.copy()` .. `return M, output` of /repo/pyttb/cp_apr.py::tt_cp_apr_pdnr on
   every run): one KKT violation / function-evaluation count / objective slot / inner-iteration count / zero count / time per outer
   iteration performed, at least one and at most maxiters iterations; non-negativity of the result given the kernel contract
   (the line-search row is non-negative: Props/C11.v C11_proj_nonneg; normalisation / redistribution / row stores keep non-negativity).
   Same two statements for the quasi-Newton driver tt_cp_apr_pqnr over Gen/GenCpAprPqnr.v (two line searches in the contract: the priming
   steepest-descent search at i = 0 and the quasi-Newton search; the assertion 'L-BFGS first iterate is bad' is `None`).
   All numeric kernels and the clock are arbitrary.  Only statements, `exact`, Print Assumptions. *)
From Coq Require Import String List Arith Bool.
From PV Require Import Model.W4SPrelude Gen.GenCpAprPdnr Proofs.W4SCpAprPdnr Gen.GenCpAprPqnr Proofs.W4SCpAprPqnr.
Import ListNotations.
Local Open Scope nat_scope.

Theorem W4S_C11b_pdnr_bookkeeping :
  forall (T_W T_F T_K T_X T_Pi T_Xmat T_Idx T_Row : Type) (c_leF : T_F -> T_F -> bool) (c_zeroF c_m1F : T_F) (c_subF : T_F -> T_F -> T_F)
         (k_normalize : T_K -> nat -> T_K) (k_is_sptensor : T_X -> bool) (k_time : T_W -> T_W * T_F) (k_num_rows : T_K -> nat -> nat)
         (k_row_indices : T_X -> nat -> nat -> T_Idx) (k_ones_row : nat -> T_Row) (k_redistribute : T_K -> nat -> T_K) (k_is_tensor : T_X -> bool)
         (k_calcpi_dense : T_X -> T_K -> nat -> nat -> nat -> bool -> T_Pi) (k_unfold : T_X -> nat -> T_Xmat) (k_idx_empty : T_Idx -> bool)
         (k_zero_row : T_K -> nat -> nat -> T_K) (k_vals_at : T_X -> T_Idx -> T_Row)
         (k_calcpi_sparse : T_X -> T_K -> nat -> nat -> nat -> bool -> T_Idx -> T_Pi) (k_get_row : T_K -> nat -> nat -> T_Row)
         (k_calc_partials : bool -> T_Pi -> T_F -> T_Row -> T_Row -> T_Row * T_Row) (k_grad : T_Row -> T_Row -> T_Row)
         (k_kkt_row : T_Row -> T_Row -> T_F) (k_search_dir_pdnr : T_Pi -> T_Row -> nat -> T_Row -> T_Row -> T_F -> T_F -> T_Row * T_F)
         (k_linesearch : T_Row -> T_Row -> T_Row -> bool -> T_Row -> T_Pi -> T_Row -> bool -> T_Row * T_F * T_F * nat) (k_rho : T_F -> T_F -> T_F)
         (k_is_zeroF : T_F -> bool) (k_mu_times_10 : T_F -> T_F) (k_lt_quarter : T_F -> bool) (k_mu_times_7_2 : T_F -> T_F)
         (k_gt_three_quarters : T_F -> bool) (k_mu_times_2_7 : T_F -> T_F) (k_set_row : T_K -> nat -> nat -> T_Row -> T_K)
         (k_xmat_row : T_Xmat -> nat -> T_Row) (k_any_row : T_Row -> bool) (k_normalize_mode : T_K -> nat -> nat -> T_K)
         (k_count_zero : T_K -> nat -> nat) (k_max : list T_F -> T_F) (k_inexact_tol : T_F -> list T_F -> nat -> T_F)
         (k_print_now : nat -> nat -> bool) (k_neg_loglikelihood : T_X -> T_K -> T_F) (k_normalize_sort : T_K -> nat -> bool -> T_K)
         (k_loglikelihood : T_X -> T_K -> T_F) (w : T_W) (X : T_X) (rank : nat) (init : T_K) (stoptol stoptime : T_F) (maxiters maxinner : nat)
         (eps : T_F) (printitn printinner : nat) (epsActive mu0 : T_F) (precomp inexact : bool) (N : nat) (M : T_K) (kkt : list T_F) 
         (obj : T_F) (fnev : list nat) (fnv : list T_F) (ninner nz : list nat) (times : list T_F) (ttime : T_F) (w' : T_W),
       GenCpAprPdnr.cp_apr_pdnr T_W T_F T_K T_X T_Pi T_Xmat T_Idx T_Row c_leF c_zeroF c_m1F c_subF k_normalize k_is_sptensor k_time k_num_rows k_row_indices
         k_ones_row k_redistribute k_is_tensor k_calcpi_dense k_unfold k_idx_empty k_zero_row k_vals_at k_calcpi_sparse k_get_row k_calc_partials
         k_grad k_kkt_row k_search_dir_pdnr k_linesearch k_rho k_is_zeroF k_mu_times_10 k_lt_quarter k_mu_times_7_2 k_gt_three_quarters
         k_mu_times_2_7 k_set_row k_xmat_row k_any_row k_normalize_mode k_count_zero k_max k_inexact_tol k_print_now k_neg_loglikelihood
         k_normalize_sort k_loglikelihood w X rank init stoptol stoptime maxiters maxinner eps printitn printinner epsActive mu0 precomp inexact N =
       Some (M, (kkt, obj, fnev, fnv, ninner, nz, times, ttime), w') ->
       1 <= Datatypes.length kkt <= maxiters /\
       Datatypes.length fnev = Datatypes.length kkt /\
       Datatypes.length fnv = Datatypes.length kkt /\
       Datatypes.length ninner = Datatypes.length kkt /\ Datatypes.length nz = Datatypes.length kkt /\ Datatypes.length times = Datatypes.length kkt.
Proof. exact pdnr_bookkeeping. Qed.

Print Assumptions W4S_C11b_pdnr_bookkeeping.

Theorem W4S_C11b_pdnr_nonneg :
  forall (T_W T_F T_K T_X T_Pi T_Xmat T_Idx T_Row : Type) (c_leF : T_F -> T_F -> bool) (c_zeroF c_m1F : T_F) (c_subF : T_F -> T_F -> T_F)
         (k_normalize : T_K -> nat -> T_K) (k_is_sptensor : T_X -> bool) (k_time : T_W -> T_W * T_F) (k_num_rows : T_K -> nat -> nat)
         (k_row_indices : T_X -> nat -> nat -> T_Idx) (k_ones_row : nat -> T_Row) (k_redistribute : T_K -> nat -> T_K) (k_is_tensor : T_X -> bool)
         (k_calcpi_dense : T_X -> T_K -> nat -> nat -> nat -> bool -> T_Pi) (k_unfold : T_X -> nat -> T_Xmat) (k_idx_empty : T_Idx -> bool)
         (k_zero_row : T_K -> nat -> nat -> T_K) (k_vals_at : T_X -> T_Idx -> T_Row)
         (k_calcpi_sparse : T_X -> T_K -> nat -> nat -> nat -> bool -> T_Idx -> T_Pi) (k_get_row : T_K -> nat -> nat -> T_Row)
         (k_calc_partials : bool -> T_Pi -> T_F -> T_Row -> T_Row -> T_Row * T_Row) (k_grad : T_Row -> T_Row -> T_Row)
         (k_kkt_row : T_Row -> T_Row -> T_F) (k_search_dir_pdnr : T_Pi -> T_Row -> nat -> T_Row -> T_Row -> T_F -> T_F -> T_Row * T_F)
         (k_linesearch : T_Row -> T_Row -> T_Row -> bool -> T_Row -> T_Pi -> T_Row -> bool -> T_Row * T_F * T_F * nat) (k_rho : T_F -> T_F -> T_F)
         (k_is_zeroF : T_F -> bool) (k_mu_times_10 : T_F -> T_F) (k_lt_quarter : T_F -> bool) (k_mu_times_7_2 : T_F -> T_F)
         (k_gt_three_quarters : T_F -> bool) (k_mu_times_2_7 : T_F -> T_F) (k_set_row : T_K -> nat -> nat -> T_Row -> T_K)
         (k_xmat_row : T_Xmat -> nat -> T_Row) (k_any_row : T_Row -> bool) (k_normalize_mode : T_K -> nat -> nat -> T_K)
         (k_count_zero : T_K -> nat -> nat) (k_max : list T_F -> T_F) (k_inexact_tol : T_F -> list T_F -> nat -> T_F)
         (k_print_now : nat -> nat -> bool) (k_neg_loglikelihood : T_X -> T_K -> T_F) (k_normalize_sort : T_K -> nat -> bool -> T_K)
         (k_loglikelihood : T_X -> T_K -> T_F) (P : T_K -> Prop) (Q : T_Row -> Prop),
       (forall (M : T_K) (k : nat), P M -> P (k_normalize M k)) ->
       (forall (M : T_K) (n : nat), P M -> P (k_redistribute M n)) ->
       (forall (M : T_K) (n jj : nat), P M -> P (k_zero_row M n jj)) ->
       (forall (M : T_K) (n jj : nat) (r : T_Row), P M -> Q r -> P (k_set_row M n jj r)) ->
       (forall (M : T_K) (n k : nat), P M -> P (k_normalize_mode M n k)) ->
       (forall (M : T_K) (k : nat) (b : bool), P M -> P (k_normalize_sort M k b)) ->
       (forall (M : T_K) (n jj : nat), P M -> Q (k_get_row M n jj)) ->
       (forall (d g m : T_Row) (sp : bool) (x : T_Row) (Pi : T_Pi) (ph : T_Row) (dw : bool) (r : T_Row) (fo fu : T_F) (ne : nat),
        k_linesearch d g m sp x Pi ph dw = (r, fo, fu, ne) -> Q r) ->
       forall (w : T_W) (X : T_X) (rank : nat) (init : T_K) (stoptol stoptime : T_F) (maxiters maxinner : nat) (eps : T_F)
         (printitn printinner : nat) (epsActive mu0 : T_F) (precomp inexact : bool) (N : nat) (M : T_K)
         (out : list T_F * T_F * list nat * list T_F * list nat * list nat * list T_F * T_F) (w' : T_W),
       GenCpAprPdnr.cp_apr_pdnr T_W T_F T_K T_X T_Pi T_Xmat T_Idx T_Row c_leF c_zeroF c_m1F c_subF k_normalize k_is_sptensor k_time k_num_rows k_row_indices
         k_ones_row k_redistribute k_is_tensor k_calcpi_dense k_unfold k_idx_empty k_zero_row k_vals_at k_calcpi_sparse k_get_row k_calc_partials
         k_grad k_kkt_row k_search_dir_pdnr k_linesearch k_rho k_is_zeroF k_mu_times_10 k_lt_quarter k_mu_times_7_2 k_gt_three_quarters
         k_mu_times_2_7 k_set_row k_xmat_row k_any_row k_normalize_mode k_count_zero k_max k_inexact_tol k_print_now k_neg_loglikelihood
         k_normalize_sort k_loglikelihood w X rank init stoptol stoptime maxiters maxinner eps printitn printinner epsActive mu0 precomp inexact N =
       Some (M, out, w') -> P init -> P M.
Proof. exact pdnr_nonneg. Qed.

Print Assumptions W4S_C11b_pdnr_nonneg.

Theorem W4S_C11b_pqnr_bookkeeping :
  forall (T_W T_F T_K T_X T_Pi T_Xmat T_Idx T_Row T_Mem : Type) (c_leF : T_F -> T_F -> bool) (c_zeroF c_m1F : T_F) (c_subF : T_F -> T_F -> T_F)
         (k_normalize : T_K -> nat -> T_K) (k_is_sptensor : T_X -> bool) (k_time : T_W -> T_W * T_F) (k_num_rows : T_K -> nat -> nat)
         (k_row_indices : T_X -> nat -> nat -> T_Idx) (k_redistribute : T_K -> nat -> T_K)
         (k_calcpi_dense : T_X -> T_K -> nat -> nat -> nat -> bool -> T_Pi) (k_unfold : T_X -> nat -> T_Xmat) (k_idx_empty : T_Idx -> bool)
         (k_zero_row : T_K -> nat -> nat -> T_K) (k_vals_at : T_X -> T_Idx -> T_Row)
         (k_calcpi_sparse : T_X -> T_K -> nat -> nat -> nat -> bool -> T_Idx -> T_Pi) (k_get_row : T_K -> nat -> nat -> T_Row)
         (k_zeros_mem : nat -> nat -> T_Mem) (k_empty_row : T_Row -> T_Row) (k_calc_grad : bool -> T_Pi -> T_F -> T_Row -> T_Row -> T_Row * T_Row)
         (k_linesearch_first : T_Row -> T_Row -> bool -> T_Row -> T_Pi -> T_Row -> bool -> T_Row * nat) (k_kkt_row : T_Row -> T_Row -> T_F)
         (k_row_sub : T_Row -> T_Row -> T_Row) (k_row_dot : T_Row -> T_Row -> T_F) (k_is_zeroF : T_F -> bool) (k_recip : T_F -> T_F)
         (k_set_col : T_Mem -> nat -> T_Row -> T_Mem)
         (k_search_dir_pqnr : T_Row -> T_Row -> T_F -> T_Mem -> T_Mem -> list T_F -> nat -> nat -> bool -> T_Row)
         (k_linesearch : T_Row -> T_Row -> T_Row -> bool -> T_Row -> T_Pi -> T_Row -> bool -> T_Row * nat)
         (k_last_rho_positive : list T_F -> nat -> bool) (k_set_row : T_K -> nat -> nat -> T_Row -> T_K) (k_xmat_row : T_Xmat -> nat -> T_Row)
         (k_any_row : T_Row -> bool) (k_normalize_mode : T_K -> nat -> nat -> T_K) (k_count_zero : T_K -> nat -> nat) (k_max : list T_F -> T_F)
         (k_print_now : nat -> nat -> bool) (k_neg_loglikelihood : T_X -> T_K -> T_F) (k_normalize_sort : T_K -> nat -> bool -> T_K)
         (k_loglikelihood : T_X -> T_K -> T_F) (w : T_W) (X : T_X) (rank : nat) (init : T_K) (stoptol stoptime : T_F) (maxiters maxinner : nat)
         (eps : T_F) (printitn printinner : nat) (epsActive : T_F) (lbfgsMem : nat) (precomp : bool) (N : nat) (M : T_K) 
         (kkt : list T_F) (obj : T_F) (fnev : list nat) (fnv : list T_F) (ninner nz : list nat) (times : list T_F) (ttime : T_F) 
         (w' : T_W),
       GenCpAprPqnr.cp_apr_pqnr T_W T_F T_K T_X T_Pi T_Xmat T_Idx T_Row T_Mem c_leF c_zeroF c_m1F c_subF k_normalize k_is_sptensor k_time k_num_rows k_row_indices
         k_redistribute k_calcpi_dense k_unfold k_idx_empty k_zero_row k_vals_at k_calcpi_sparse k_get_row k_zeros_mem k_empty_row k_calc_grad
         k_linesearch_first k_kkt_row k_row_sub k_row_dot k_is_zeroF k_recip k_set_col k_search_dir_pqnr k_linesearch k_last_rho_positive k_set_row
         k_xmat_row k_any_row k_normalize_mode k_count_zero k_max k_print_now k_neg_loglikelihood k_normalize_sort k_loglikelihood w X rank init
         stoptol stoptime maxiters maxinner eps printitn printinner epsActive lbfgsMem precomp N =
       Some (M, (kkt, obj, fnev, fnv, ninner, nz, times, ttime), w') ->
       1 <= Datatypes.length kkt <= maxiters /\
       Datatypes.length fnev = Datatypes.length kkt /\
       Datatypes.length fnv = Datatypes.length kkt /\
       Datatypes.length ninner = Datatypes.length kkt /\ Datatypes.length nz = Datatypes.length kkt /\ Datatypes.length times = Datatypes.length kkt.
Proof. exact pqnr_bookkeeping. Qed.

Print Assumptions W4S_C11b_pqnr_bookkeeping.

Theorem W4S_C11b_pqnr_nonneg :
  forall (T_W T_F T_K T_X T_Pi T_Xmat T_Idx T_Row T_Mem : Type) (c_leF : T_F -> T_F -> bool) (c_zeroF c_m1F : T_F) (c_subF : T_F -> T_F -> T_F)
         (k_normalize : T_K -> nat -> T_K) (k_is_sptensor : T_X -> bool) (k_time : T_W -> T_W * T_F) (k_num_rows : T_K -> nat -> nat)
         (k_row_indices : T_X -> nat -> nat -> T_Idx) (k_redistribute : T_K -> nat -> T_K)
         (k_calcpi_dense : T_X -> T_K -> nat -> nat -> nat -> bool -> T_Pi) (k_unfold : T_X -> nat -> T_Xmat) (k_idx_empty : T_Idx -> bool)
         (k_zero_row : T_K -> nat -> nat -> T_K) (k_vals_at : T_X -> T_Idx -> T_Row)
         (k_calcpi_sparse : T_X -> T_K -> nat -> nat -> nat -> bool -> T_Idx -> T_Pi) (k_get_row : T_K -> nat -> nat -> T_Row)
         (k_zeros_mem : nat -> nat -> T_Mem) (k_empty_row : T_Row -> T_Row) (k_calc_grad : bool -> T_Pi -> T_F -> T_Row -> T_Row -> T_Row * T_Row)
         (k_linesearch_first : T_Row -> T_Row -> bool -> T_Row -> T_Pi -> T_Row -> bool -> T_Row * nat) (k_kkt_row : T_Row -> T_Row -> T_F)
         (k_row_sub : T_Row -> T_Row -> T_Row) (k_row_dot : T_Row -> T_Row -> T_F) (k_is_zeroF : T_F -> bool) (k_recip : T_F -> T_F)
         (k_set_col : T_Mem -> nat -> T_Row -> T_Mem)
         (k_search_dir_pqnr : T_Row -> T_Row -> T_F -> T_Mem -> T_Mem -> list T_F -> nat -> nat -> bool -> T_Row)
         (k_linesearch : T_Row -> T_Row -> T_Row -> bool -> T_Row -> T_Pi -> T_Row -> bool -> T_Row * nat)
         (k_last_rho_positive : list T_F -> nat -> bool) (k_set_row : T_K -> nat -> nat -> T_Row -> T_K) (k_xmat_row : T_Xmat -> nat -> T_Row)
         (k_any_row : T_Row -> bool) (k_normalize_mode : T_K -> nat -> nat -> T_K) (k_count_zero : T_K -> nat -> nat) (k_max : list T_F -> T_F)
         (k_print_now : nat -> nat -> bool) (k_neg_loglikelihood : T_X -> T_K -> T_F) (k_normalize_sort : T_K -> nat -> bool -> T_K)
         (k_loglikelihood : T_X -> T_K -> T_F) (P : T_K -> Prop) (Q : T_Row -> Prop),
       (forall (M : T_K) (k : nat), P M -> P (k_normalize M k)) ->
       (forall (M : T_K) (n : nat), P M -> P (k_redistribute M n)) ->
       (forall (M : T_K) (n jj : nat), P M -> P (k_zero_row M n jj)) ->
       (forall (M : T_K) (n jj : nat) (r : T_Row), P M -> Q r -> P (k_set_row M n jj r)) ->
       (forall (M : T_K) (n k : nat), P M -> P (k_normalize_mode M n k)) ->
       (forall (M : T_K) (k : nat) (b : bool), P M -> P (k_normalize_sort M k b)) ->
       (forall (M : T_K) (n jj : nat), P M -> Q (k_get_row M n jj)) ->
       (forall (g m : T_Row) (sp : bool) (x : T_Row) (Pi : T_Pi) (ph : T_Row) (dw : bool) (r : T_Row) (ne : nat),
        k_linesearch_first g m sp x Pi ph dw = (r, ne) -> Q r) ->
       (forall (d g m : T_Row) (sp : bool) (x : T_Row) (Pi : T_Pi) (ph : T_Row) (dw : bool) (r : T_Row) (ne : nat),
        k_linesearch d g m sp x Pi ph dw = (r, ne) -> Q r) ->
       forall (w : T_W) (X : T_X) (rank : nat) (init : T_K) (stoptol stoptime : T_F) (maxiters maxinner : nat) (eps : T_F)
         (printitn printinner : nat) (epsActive : T_F) (lbfgsMem : nat) (precomp : bool) (N : nat) (M : T_K)
         (out : list T_F * T_F * list nat * list T_F * list nat * list nat * list T_F * T_F) (w' : T_W),
       GenCpAprPqnr.cp_apr_pqnr T_W T_F T_K T_X T_Pi T_Xmat T_Idx T_Row T_Mem c_leF c_zeroF c_m1F c_subF k_normalize k_is_sptensor k_time k_num_rows k_row_indices
         k_redistribute k_calcpi_dense k_unfold k_idx_empty k_zero_row k_vals_at k_calcpi_sparse k_get_row k_zeros_mem k_empty_row k_calc_grad
         k_linesearch_first k_kkt_row k_row_sub k_row_dot k_is_zeroF k_recip k_set_col k_search_dir_pqnr k_linesearch k_last_rho_positive k_set_row
         k_xmat_row k_any_row k_normalize_mode k_count_zero k_max k_print_now k_neg_loglikelihood k_normalize_sort k_loglikelihood w X rank init
         stoptol stoptime maxiters maxinner eps printitn printinner epsActive lbfgsMem precomp N = Some (M, out, w') -> P init -> P M.
Proof. exact pqnr_nonneg. Qed.

Print Assumptions W4S_C11b_pqnr_nonneg.
