(* Proofs/C04GenBridge.v — C04, wave 3b: the hand model of the sparse region read (Model/C04Model.v: elem_indices, index_of,
   renumber, renumber_all, sp_region_get) against the functions the translator GENERATES from /repo/pyttb/pyttb_utils.py
   (Gen/GenUtils3.v: tt_renumberdim), using the laws the translator builder proved over them (Proofs/W3Laws.v).
   Per mode: for every key element e the specification accepts on a mode of extent d (elem_indices d e = Some (kept, l)) whose
   selection l does not repeat an index, the GENERATED tt_renumberdim applied to the stored subscripts of the mode (all inside
   the selection: the subdims filter) and to the key element as sptensor.__getitem__ passes it on (negative integers already
   normalised) returns exactly  map (index_of . l)  and the extent  len l  (0 for an integer: the caller drops the mode).
   This is the function `renumber` applies mode by mode, and renumber_all / sp_region_get coincide with it on such keys
   (renumber_all_nodup_lists).  An edit of tt_renumberdim in /repo regenerates Gen/GenUtils3.v and breaks these proofs. *)
From Coq Require Import List Arith ZArith Lia Bool.
From PV Require Import Base.Index Np.Array Model.Sparse.
From PV Require Import Np.NpZ Np.NpZ2 Np.NpZ3 Gen.GenUtils3 Model.W3Utils Proofs.W3Bridge Proofs.W3Laws.
From PV Require Import Model.C04Model Proofs.C04Dense Proofs.C04Sparse Proofs.C04RegionGet Proofs.C04Region.
Import ListNotations.

Definition zs (l : list nat) : vec := map Z.of_nat l.

Definition index_of0 (x : nat) (l : list nat) : nat := match C04Model.index_of x l with Some k => k | None => 0 end.

(* the key element as sptensor.__getitem__ hands it to tt_renumber: `if isinstance(value, int) and value < 0: value += shape[dim]` *)
Definition zkey (d : nat) (e : C04Model.kelem) : pyidx :=
  match e with
  | C04Model.KInt z => match norm_index d z with Some k => IxInt (Z.of_nat k) | None => IxNone end
  | C04Model.KSlice a b c => IxSlice (mkslice a b c)
  | C04Model.KList l => IxSeq l
  end.

Lemma index_of_unique l : NoDup l -> forall k x, k < length l -> nth k l 0 = x -> C04Model.index_of x l = Some k.
Proof.
  induction 1 as [|y r Hy Hn IH]; intros k x Hk Hx; cbn in Hk; [lia|]. cbn [C04Model.index_of].
  destruct k as [|k]; cbn in Hx.
  - subst. now rewrite Nat.eqb_refl.
  - destruct (Nat.eqb_spec x y) as [->|Hne].
    + exfalso. apply Hy. rewrite <- Hx. apply nth_In. lia.
    + rewrite (IH k x); auto. lia.
Qed.

Lemma zs_nodup l : NoDup l -> NoDup (zs l).
Proof. intros H. apply FinFun.Injective_map_NoDup; auto. intros a b E. lia. Qed.

Lemma zs_in x l : In x (zs l) -> exists y, x = Z.of_nat y /\ In y l.
Proof. intros H. apply in_map_iff in H as (y & <- & Hy). eauto. Qed.

Local Open Scope Z_scope.

(* any key entry whose selection (H_selection, the reference the generated text is bridged to) is the duplicate-free list l *)
Theorem gen_renumberdim_index_of (d : nat) (nr : pyidx) (l idx : list nat) :
  H_selection (Z.of_nat d) nr = Ok (zs l, zlen (zs l)) ->
  NoDup l -> (forall x, In x l -> (x < d)%nat) -> (forall x, In x idx -> In x l) ->
  tt_renumberdim (zs idx) (Z.of_nat d) nr = Ok (zs (map (fun x => index_of0 x l) idx), Z.of_nat (length l)).
Proof.
  intros Hsel Hn Hr Hin.
  destruct (renumberdim_positions (zs idx) (Z.of_nat d) nr (zs l) Hsel) as (newidx & E & Hlen & Hj).
  - lia.
  - now apply zs_nodup.
  - intros x Hx. apply zs_in in Hx as (y & -> & Hy). specialize (Hr y Hy). lia.
  - intros x Hx. apply zs_in in Hx as (y & -> & Hy). apply in_map. auto.
  - rewrite E. f_equal. f_equal; [|unfold zlen, zs; now rewrite map_length].
    unfold zs in *. rewrite map_length in Hlen.
    apply (nth_ext _ _ 0 0); [now rewrite !map_length|]. intros n Hn'. rewrite Hlen in Hn'.
    destruct (Hj n) as [[H1 H2] H3]; [now rewrite map_length|].
    rewrite znth_nonneg in H3 by exact H1.
    rewrite map_map.
    rewrite (nth_indep (map (fun x : nat => Z.of_nat (index_of0 x l)) idx) 0 (Z.of_nat (index_of0 0%nat l))) by (rewrite map_length; exact Hn').
    rewrite (map_nth (fun x => Z.of_nat (index_of0 x l))).
    change 0 with (Z.of_nat 0) in H3 at 2 3. rewrite !map_nth in H3. apply Nat2Z.inj in H3.
    unfold index_of0. rewrite (index_of_unique l Hn (Z.to_nat (nth n newidx 0)) (nth n idx 0%nat)); auto; [lia|].
    unfold zlen in H2. rewrite map_length in H2. lia.
Qed.

(* ---------------------------------------------------------------- index lists and integers *)
Lemma zs_of_nonneg (l : list Z) : (forall z, In z l -> 0 <= z) -> zs (map Z.to_nat l) = l.
Proof.
  intros H. unfold zs. rewrite map_map. rewrite <- (map_id l) at 2. apply map_ext_in. intros z Hz.
  apply Z2Nat.id. auto.
Qed.

Lemma index_of0_single x k : index_of0 x [k] = 0%nat.
Proof. unfold index_of0. cbn. destruct (Nat.eqb x k); reflexivity. Qed.

(* ---------------------------------------------------------------- slices: range(d)[a:b:c] of the two developments agree *)
Lemma slice_pos_in_range n start stop step j :
  0 < step -> 0 <= start -> stop <= n -> 0 <= j < slice_len start stop step -> 0 <= start + j * step < n.
Proof.
  intros Hs H0 Hn [Hj1 Hj2]. unfold slice_len in Hj2.
  destruct (Z.ltb_spec step 0); [lia|]. destruct (Z.ltb_spec start stop); [|lia].
  pose proof (Z.mul_div_le (stop - start - 1) step Hs). nia.
Qed.

Lemma slice_neg_in_range n start stop step j :
  step < 0 -> start <= n - 1 -> -1 <= stop -> 0 <= j < slice_len start stop step -> 0 <= start + j * step < n.
Proof.
  intros Hs H0 Hn [Hj1 Hj2]. unfold slice_len in Hj2.
  destruct (Z.ltb_spec step 0); [|lia]. destruct (Z.ltb_spec stop start); [|lia].
  pose proof (Z.mul_div_le (start - stop - 1) (- step) ltac:(lia)). nia.
Qed.

Lemma slice_len_nonneg a b st : st <> 0 -> 0 <= slice_len a b st.
Proof.
  intros H. unfold slice_len. destruct (Z.ltb_spec st 0); [destruct (Z.ltb_spec b a)|destruct (Z.ltb_spec a b)]; try lia;
    (apply Z.add_nonneg_nonneg; [apply Z.div_pos; lia|lia]).
Qed.

Lemma clamp_bounds (s : pyslice) n : 0 <= n ->
  let '(a, b, st) := slice_indices s n in
  (0 < st -> 0 <= a /\ b <= n) /\ (st < 0 -> a <= n - 1 /\ -1 <= b).
Proof.
  intros Hn. unfold slice_indices. cbv zeta. set (step := match sl_step s with Some k => k | None => 1 end).
  split; intros Hst.
  - destruct (Z.ltb_spec step 0); [lia|]. split.
    + destruct (sl_start s) as [k|]; [|lia].
      destruct (Z.ltb_spec k 0); [destruct (Z.ltb_spec (k + n) 0)|destruct (Z.leb_spec n k)]; lia.
    + destruct (sl_stop s) as [k|]; [|lia].
      destruct (Z.ltb_spec k 0); [destruct (Z.ltb_spec (k + n) 0)|destruct (Z.leb_spec n k)]; lia.
  - destruct (Z.ltb_spec step 0); [|lia]. split.
    + destruct (sl_start s) as [k|]; [|lia].
      destruct (Z.ltb_spec k 0); [destruct (Z.ltb_spec (k + n) 0)|destruct (Z.leb_spec n k)]; lia.
    + destruct (sl_stop s) as [k|]; [|lia].
      destruct (Z.ltb_spec k 0); [destruct (Z.ltb_spec (k + n) 0)|destruct (Z.leb_spec n k)]; lia.
Qed.

Lemma znth_arange n z : 0 <= z < Z.of_nat n -> znth 0 (np_arange 0 (Z.of_nat n)) z = z.
Proof.
  intros H. rewrite znth_nonneg by lia. rewrite np_arange_0.
  change 0 with (Z.of_nat 0). rewrite map_nth. rewrite seq_nth by lia. lia.
Qed.

Theorem gen_slice_selection (d : nat) a b c : slice_ok (mkslice a b c) = true ->
  NpZ3.py_slice 0 (np_arange 0 (Z.of_nat d)) (mkslice a b c) = zs (C04Model.py_slice d a b c).
Proof.
  intros Hok. unfold NpZ3.py_slice.
  assert (Hl : zlen (np_arange 0 (Z.of_nat d)) = Z.of_nat d).
  { unfold zlen. rewrite np_arange_0, map_length, seq_length. reflexivity. }
  rewrite Hl. pose proof (clamp_bounds (mkslice a b c) (Z.of_nat d) ltac:(lia)) as Hb.
  assert (Hstep : match c with Some s => s | None => 1 end <> 0).
  { unfold slice_ok in Hok. cbn in Hok. destruct c as [s|]; [|lia]. destruct s; try discriminate; lia. }
  unfold C04Model.py_slice. cbv zeta.
  destruct (Z.eqb_spec (match c with Some s => s | None => 1 end) 0) as [E|_]; [contradiction|].
  unfold slice_indices in *. cbn [sl_start sl_stop sl_step] in *. cbv zeta in Hb. destruct Hb as [Hp Hq].
  unfold zs. rewrite map_map.
  set (step := match c with Some s => s | None => 1 end) in *.
  match goal with |- map _ (seq 0 (Z.to_nat (slice_len ?st ?sp _))) = _ => set (start := st) in *; set (stop := sp) in * end.
  change (map (fun j : nat => znth 0 (np_arange 0 (Z.of_nat d)) (start + Z.of_nat j * step)) (seq 0 (Z.to_nat (slice_len start stop step))) =
          map (fun k : nat => Z.of_nat (Z.to_nat (start + Z.of_nat k * step))) (seq 0 (Z.to_nat (slice_len start stop step)))).
  apply map_ext_in. intros j Hj. apply in_seq in Hj.
  assert (Hj' : 0 <= Z.of_nat j < slice_len start stop step).
  { pose proof (slice_len_nonneg start stop step Hstep). lia. }
  assert (R : 0 <= start + Z.of_nat j * step < Z.of_nat d).
  { destruct (Z.lt_trichotomy step 0) as [Hneg|[F|Hpos]]; [|contradiction|].
    - destruct (Hq Hneg) as [Q1 Q2]. eapply slice_neg_in_range; eauto.
    - destruct (Hp Hpos) as [Q1 Q2]. eapply slice_pos_in_range; eauto. }
  rewrite znth_arange by exact R. rewrite Z2Nat.id; lia.
Qed.

Lemma c04_slice_range (d : nat) a b c x : In x (C04Model.py_slice d a b c) -> (x < d)%nat.
Proof.
  unfold C04Model.py_slice. cbv zeta.
  destruct (Z.eqb_spec (match c with Some s => s | None => 1 end) 0) as [E|Hstep]; [contradiction|].
  pose proof (clamp_bounds (mkslice a b c) (Z.of_nat d) ltac:(lia)) as Hb.
  unfold slice_indices in Hb. cbn [sl_start sl_stop sl_step] in Hb. cbv zeta in Hb. destruct Hb as [Hp Hq].
  set (step := match c with Some s => s | None => 1 end) in *.
  intros Hx. apply in_map_iff in Hx as (j & <- & Hj).
  match type of Hj with In _ (seq 0 (Z.to_nat ?cnt)) =>
    match goal with |- (Z.to_nat (?st + _) < _)%nat => set (start := st) in * end end.
  match type of Hp with _ -> _ /\ ?sp <= _ => set (stop := sp) in * end.
  apply in_seq in Hj.
  destruct (Z.lt_trichotomy step 0) as [Hneg|[F|Hpos]]; [|contradiction|].
  - destruct (Hq Hneg) as [Q1 Q2].
    assert (R : 0 <= start + Z.of_nat j * step < Z.of_nat d).
    { apply (slice_neg_in_range _ start stop step); auto.
      pose proof (slice_len_nonneg start stop step Hstep). unfold slice_len in *.
      destruct (Z.ltb_spec step 0); [|lia]. lia. }
    lia.
  - destruct (Hp Hpos) as [Q1 Q2].
    assert (R : 0 <= start + Z.of_nat j * step < Z.of_nat d).
    { apply (slice_pos_in_range _ start stop step); auto.
      pose proof (slice_len_nonneg start stop step Hstep). unfold slice_len in *.
      destruct (Z.ltb_spec step 0); [lia|]. lia. }
    lia.
Qed.

(* ---------------------------------------------------------------- every key element the specification accepts *)
Lemma norm_index_lt d z k : norm_index d z = Some k -> (k < d)%nat.
Proof.
  unfold norm_index. destruct (_ && _) eqn:E; [|discriminate]. intros H. inversion H; subst.
  apply andb_true_iff in E as [E1 E2]. apply Z.leb_le in E1. apply Z.ltb_lt in E2. lia.
Qed.

Theorem gen_renumberdim_elem (d : nat) (e : C04Model.kelem) kept (l idx : list nat) :
  elem_indices d e = Some (kept, l) -> NoDup l -> (forall x, In x idx -> In x l) ->
  tt_renumberdim (zs idx) (Z.of_nat d) (zkey d e) =
    Ok (zs (map (fun x => index_of0 x l) idx), if kept then Z.of_nat (length l) else 0).
Proof.
  intros He Hn Hin. destruct e as [z|a b c|zl]; cbn [elem_indices zkey] in *.
  - destruct (norm_index d z) as [k|] eqn:Ek; [|discriminate]. inversion He; subst. clear He.
    rewrite renumberdim_int.
    + f_equal. f_equal. unfold zs. rewrite !map_map. apply map_ext. intros x. now rewrite index_of0_single.
    + lia.
    + intros x Hx. apply zs_in in Hx as (y & -> & Hy). apply Hin in Hy. destruct Hy as [<-|[]].
      apply norm_index_lt in Ek. lia.
  - destruct (C04Model.py_slice d a b c) as [|x0 r] eqn:Es; [discriminate|]. inversion He; subst. clear He.
    assert (Hok : slice_ok (mkslice a b c) = true).
    { unfold slice_ok. cbn. destruct c as [s|]; auto. destruct (Z.eqb_spec s 0) as [->|Hs]; [|destruct s; auto; contradiction].
      unfold C04Model.py_slice in Es. cbn in Es. discriminate. }
    apply gen_renumberdim_index_of; auto.
    + cbn [H_selection]. rewrite Hok, gen_slice_selection, Es by exact Hok. reflexivity.
    + intros x Hx. apply (c04_slice_range d a b c). now rewrite Es.
  - destruct zl as [|z0 zr] eqn:Ezl; [discriminate|]. rewrite <- Ezl in *. clear Ezl z0 zr.
    destruct (forallb _ _) eqn:Ef; [|discriminate]. inversion He; subst. clear He.
    rewrite forallb_forall in Ef.
    assert (Hz : zs (map Z.to_nat zl) = zl).
    { apply zs_of_nonneg. intros z Hz. apply Ef in Hz. apply andb_true_iff in Hz as [Hz _]. now apply Z.leb_le. }
    apply gen_renumberdim_index_of; auto.
    + cbn [H_selection]. now rewrite Hz.
    + intros x Hx. apply in_map_iff in Hx as (z & <- & Hz'). apply Ef in Hz'. apply andb_true_iff in Hz' as [H1 H2].
      apply Z.leb_le in H1. apply Z.ltb_lt in H2. lia.
Qed.

Lemma index_of_in x l : In x l -> exists k, C04Model.index_of x l = Some k.
Proof.
  induction l as [|y r IH]; intros H; [contradiction|]. cbn.
  destruct (Nat.eqb_spec x y) as [->|Hne]; eauto.
  destruct H as [->|H]; [contradiction|]. destruct (IH H) as (k & ->). cbn. eauto.
Qed.

(* what `renumber` (hence renumber_all / sp_region_get on keys without a repeated index) does to one mode is what the
   generated tt_renumberdim returns for the stored subscripts of that mode *)
Lemma renumber_cons kept l ls x p : In x l ->
  renumber ((kept, l) :: ls) (x :: p) =
  match renumber ls p with Some r => Some (if kept then index_of0 x l :: r else r) | None => None end.
Proof.
  intros Hx. cbn [renumber]. unfold index_of0. destruct (index_of_in x l Hx) as (k & ->). reflexivity.
Qed.
