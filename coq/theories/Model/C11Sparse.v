(* Model/C11Sparse.v — the sparse branch of calculate_pi / calculate_phi (pyttb/cp_apr.py:1742-1745, 1778-1789):
   Pi has one row per STORED nonzero, Phi is an accumarray over the mode-n subscripts of the stored nonzeros.
   Value-generic, same oracles as Model/C11Apr.v.  Definitions only; proofs in Proofs/C11Pairing.v. *)
From Coq Require Import List Arith Lia Bool.
From PV Require Import Base.Index Base.Sum Np.Array Model.Sparse Model.Repr Model.C14Nvecs Model.C11Apr.
Import ListNotations.

Section SpMU.
Context {V : Type} (v0 v1 : V) (vadd vmul : V -> V -> V).
Variable vdivmax : V -> V -> V.    (* x / np.maximum(v, epsDivZero) *)
Notation matrix := (list (list V)).

(* Pi[k, r] = prod_{m <> n} A_m[subs[k, m], r]   for the k-th stored nonzero (sub = subs[k, :]) *)
Definition pi_sp (st : @state V) (n : nat) (sub : idx) (r : nat) : V :=
  kprod v0 v1 vmul (remove_nth n (sA st)) (remove_nth n sub) r.

(* v[k] = sum_s A_n[subs[k,n], s] * Pi[k, s] *)
Definition v_sp (st : @state V) (n : nat) (sub : idx) : V :=
  sum_n v0 vadd (rankof st) (fun s => vmul (mget v0 (fac st n) (nth n sub 0) s) (pi_sp st n sub s)).

(* wvals[k] = vals[k] / max(v[k], eps);   Phi[:, r] = accumarray(subs[:, n], wvals * Pi[:, r], size = shape[n]) *)
Definition calc_phi_sp (S : sparse V) (n : nat) (st : @state V) : matrix :=
  let A := fac st n in
  let R := rankof st in
  mtab (length A) R (fun a r =>
    sum_over v0 vadd (entries S) (fun e =>
      if Nat.eqb (nth n (fst e) 0) a
      then vmul (vdivmax (snd e) (sum_n v0 vadd R (fun s => vmul (mget v0 A a s) (pi_sp st n (fst e) s))))
                (pi_sp st n (fst e) r)
      else v0)).

(* the same with the row of A_n read at the entry's own subscript, as the code does (A_n[xsubs, :]) *)
Definition calc_phi_sp_code (S : sparse V) (n : nat) (st : @state V) : matrix :=
  let A := fac st n in
  let R := rankof st in
  mtab (length A) R (fun a r =>
    sum_over v0 vadd (entries S) (fun e =>
      if Nat.eqb (nth n (fst e) 0) a
      then vmul (vdivmax (snd e) (v_sp st n (fst e))) (pi_sp st n (fst e) r)
      else v0)).
End SpMU.
