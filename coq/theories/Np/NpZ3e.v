(* Np/NpZ3e.v — primitives for ktensor.redistribute (Gen/GenMethods3.v): field updates of the ktensor record.
   Definitions only; validated by the differential stream of tools/props/w3gen.py (op prim3_redistribute runs the
   generated method against pyttb's). *)
From Coq Require Import List ZArith Bool Lia.
From PV Require Import Np.NpZ Np.NpZ2 Np.NpZ3.
Import ListNotations.
Local Open Scope Z_scope.

(* self.ndims / self.ncomponents (the generated methods ktensor_ndims / ktensor_ncomponents of Gen/GenMethods.v) *)
Definition kt_ndims (k : ktz) : Z := zlen (kt_factors k).
Definition kt_ncomponents (k : ktz) : Z := zlen (kt_weights k).
(* self.factor_matrices[m][:, [r]] = self.factor_matrices[m][:, [r]] * c : column r of factor m scaled in place *)
Definition kt_scale_col_ok (k : ktz) (m r : Z) : bool := idx_ok (kt_factors k) m && np_col_ok (znth [] (kt_factors k) m) r.
Definition kt_scale_col (k : ktz) (m r c : Z) : ktz :=
  mkkt (kt_weights k) (np_set (kt_factors k) m (map (fun row => np_set row r (znth 0 row r * c)) (znth [] (kt_factors k) m))).
(* self.weights[r] = v *)
Definition kt_set_weight (k : ktz) (r v : Z) : ktz := mkkt (np_set (kt_weights k) r v) (kt_factors k).
