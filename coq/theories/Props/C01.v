(* Props/C01.v — conversions preserve the tensor. Only statements, `exact`, Print Assumptions. *)
From Coq Require Import List Arith Bool ZArith Ring.
From PV Require Import Base.Index Base.Perm Base.Sum Np.Array Model.Sparse Model.Repr Model.C07Ops Model.C01Conv
  Model.C01Unique Model.C01Coo Model.C01Ttm Model.C01W3 Model.C01W4 Proofs.C01Proofs Proofs.C01Kruskal Proofs.C01Tucker Proofs.C01Unique
  Proofs.C01Converse Proofs.C01Coo Proofs.C01Ttm Proofs.C01W3 Proofs.C01W4.
From Coq Require Import Permutation.
From PV Require Np.NpZ Np.NpZ2 Np.NpZ3 Gen.GenUtils Gen.GenUtils2 Gen.GenKernels Gen.GenMethods Proofs.NpZProofs Proofs.C01GenBridge Proofs.C01GenKr
  Proofs.C01GenMeth Proofs.C01GenReq.
Import ListNotations.

Section C01.
Context {V : Type} (v0 : V) (isz : V -> bool).
Hypothesis isz_spec : forall v, isz v = true <-> v = v0.

(* dense -> sparse: well-formed, same array, nnz = number of nonzero entries, and back = identity *)
Theorem C01_dense_sparse : forall T : dense V, wf_dense T ->
  wf_sp isz (to_sptensor v0 isz T) /\
  (forall i, den_sp v0 (to_sptensor v0 isz T) i = den_dense v0 T i) /\
  nnz (to_sptensor v0 isz T) = length (filter (fun v => negb (isz v)) (ddata T)) /\
  full v0 (to_sptensor v0 isz T) = T.
Proof.
  intros T W. exact (conj (to_sptensor_wf v0 isz T W)
    (conj (fun i => den_to_sptensor v0 isz isz_spec T i W)
    (conj (nnz_to_sptensor v0 isz T W) (full_to_sptensor v0 isz isz_spec T W)))).
Qed.

(* sparse -> dense: same array for EVERY in-bounds coordinate list (duplicates: last stored entry wins,
   any stored order), and the result is a well-formed dense tensor of the same shape *)
Theorem C01_sparse_dense : forall S : sparse V,
  Forall (fun j => inb (sshape S) j = true) (ssubs S) ->
  wf_dense (full v0 S) /\ dshape (full v0 S) = sshape S /\
  (forall i, den_dense v0 (full v0 S) i = den_sp v0 S i).
Proof.
  intros S Hb. exact (conj (wf_full v0 S) (conj eq_refl (fun i => den_full v0 S i Hb))).
Qed.
End C01.

Print Assumptions C01_dense_sparse.
Print Assumptions C01_sparse_dense.

(* non-vacuity: a concrete non-symmetric 2x3 instance *)
Example C01_example :
  let T := mkDense [2; 3] [0; 5; 7; 0; 0; 9]%Z in
  to_sptensor 0%Z (Z.eqb 0) T = mkSp [2; 3] [[1; 0]; [0; 1]; [1; 2]] [5; 7; 9]%Z
  /\ full 0%Z (to_sptensor 0%Z (Z.eqb 0) T) = T.
Proof. split; reflexivity. Qed.

(* ---------------------------------------------------------------------------------------------------------
   Matricisation, Kruskal / sum to dense (models in Model/C01Conv.v).
   [pick 0 r s] is numpy's s[r]; tm_pos s r c i = [sub2ind s[r] i[r]; sub2ind s[c] i[c]] is the matrix position of
   tensor entry i; den_tenmat / den_sptenmat read the matrix there. *)
Section C01conv.
Variable V : Type.
Variables (v0 v1 : V) (vadd vmul vsub : V -> V -> V) (vopp : V -> V) (isz : V -> bool).
Hypothesis Vring : ring_theory v0 v1 vadd vmul vsub vopp (@eq V).

(* every ordered partition (r, c) of the modes (either side may be empty): the matrix has Π s[r] rows and Π s[c] columns,
   entry (sub2ind s[r] i[r], sub2ind s[c] i[c]) is T[i], and to_tensor returns the identical tensor *)
Theorem C01_tenmat : forall (T : dense V) r c, wf_dense T -> is_perm (r ++ c) (length (dshape T)) ->
  exists M, to_tenmat v0 T r c = Some M /\ tm_r M = r /\ tm_c M = c /\ tm_tshape M = dshape T /\
    wf_dense (tm_data M) /\ dshape (tm_data M) = [size (pick 0 r (dshape T)); size (pick 0 c (dshape T))] /\
    (forall i, inb (dshape T) i = true ->
       inb (dshape (tm_data M)) (tm_pos (dshape T) r c i) = true /\ den_tenmat v0 M i = den_dense v0 T i) /\
    tenmat_to_tensor v0 M = T.
Proof. exact (to_tenmat_correct v0). Qed.

(* the request forms (rdims only, cdims only, both, and the fc / bc / t conventions for a single row mode) all produce
   an ordered partition, so C01_tenmat / C01_sptenmat apply to them *)
Theorem C01_request_forms : forall N rd cd cy, request_ok N rd cd ->
  exists r c, gather_wrap_dims N rd cd cy = Some (r, c) /\ is_perm (r ++ c) N /\
    (forall r0 c0, rd = Some r0 -> cd = Some c0 -> r = r0 /\ c = c0) /\
    (forall c0, rd = None -> cd = Some c0 -> c = c0) /\
    (forall r0, rd = Some r0 -> cd = None -> cy = None \/ length r0 <> 1 -> r = r0) /\
    (forall m, rd = Some [m] -> cd = None -> cy = Some CycT -> c = [m]) /\
    (forall m k, rd = Some [m] -> cd = None -> cy = Some k -> k <> CycT -> r = [m]).
Proof. exact gather_wrap_dims_partition. Qed.

(* sparse matricisation: same position law for every in-bounds coordinate list; values and nnz kept, triples in bounds,
   well-formedness preserved; full() of the sptenmat is the tenmat of the tensor; to_sptensor returns the identical object *)
Theorem C01_sptenmat : forall (S : sparse V) r c, is_perm (r ++ c) (length (sshape S)) ->
  Forall (fun j => inb (sshape S) j = true) (ssubs S) ->
  exists M, to_sptenmat S r c = Some M /\ stm_r M = r /\ stm_c M = c /\ stm_tshape M = sshape S /\
    stm_vals M = svals S /\ length (stm_subs M) = nnz S /\
    Forall (fun rc => inb (stm_shape M) rc = true) (stm_subs M) /\
    (wf_sp isz S -> wf_sp isz (stm_sp M)) /\
    (forall i, inb (sshape S) i = true -> den_sptenmat v0 M i = den_sp v0 S i) /\
    (forall i, inb (sshape S) i = true -> den_tenmat v0 (sptenmat_full v0 M) i = den_sp v0 S i) /\
    sptenmat_to_sptensor M = S.
Proof. exact (to_sptenmat_correct v0 isz). Qed.

(* Kruskal -> dense: the Khatri-Rao algorithm (two reversed Khatri-Rao products, weights, matrix product, F-order reshape)
   yields den_k for EVERY split point, any rank (0 included), any number >= 2 of modes *)
Theorem C01_kruskal_any_split : forall (K : ktensor V) isplit,
  rows_ok V (krank K) (kfactors K) -> 0 < isplit < length (kfactors K) ->
  exists D, ktensor_full_at v0 vadd vmul K isplit = Some D /\ wf_dense D /\ dshape D = kshape K /\
    forall i, den_dense v0 D i = den_k v0 v1 vadd vmul K i.
Proof. exact (ktensor_full_at_correct V v0 v1 vadd vmul vsub vopp Vring). Qed.

(* ... and ktensor.full as the code is (since /repo d9f07bf), for every N >= 1 and EVERY rank: no component -> the zero tensor
   (the branch the repair of N-C01-1 added), the single-mode branch (factor @ weights) and, for N >= 2, the split point the
   code chooses (min_split_dims) *)
Theorem C01_kruskal : forall K : ktensor V, rows_ok V (krank K) (kfactors K) -> 1 <= length (kfactors K) ->
  exists D, ktensor_full_code v0 vadd vmul K = Some D /\ wf_dense D /\ dshape D = kshape K /\
    (forall i, den_dense v0 D i = den_k v0 v1 vadd vmul K i) /\
    D = ktensor_full_spec v0 v1 vadd vmul K.
Proof. exact (ktensor_full_code_correct V v0 v1 vadd vmul vsub vopp Vring). Qed.

(* R = 0, unconditional (no hypothesis on the factor matrices or on N): the result is the zero tensor of the shape the
   factor matrices give, which is what a Kruskal tensor without components denotes *)
Theorem C01_kruskal_rank0 : forall K : ktensor V, krank K = 0 ->
  ktensor_full_code v0 vadd vmul K = Some (dense_zeros v0 (kshape K)) /\
  wf_dense (dense_zeros v0 (kshape K)) /\
  (forall i, den_dense v0 (dense_zeros v0 (kshape K)) i = den_k v0 v1 vadd vmul K i) /\
  (forall i, den_k v0 v1 vadd vmul K i = v0) /\
  dense_zeros v0 (kshape K) = ktensor_full_spec v0 v1 vadd vmul K.
Proof. exact (ktensor_full_code_rank0 V v0 v1 vadd vmul). Qed.

(* Tucker -> dense: multiplying the core by U_0, U_1, ... mode by mode (each product defined on subscripts:
   Y[i] = sum_j U[i_n, j] X[i with n := j]) yields den_t; result well-formed with shape (rows of U_n)_n *)
Theorem C01_tucker : forall T : ttensor V, wf_dense (tcore T) -> length (dshape (tcore T)) = length (tfactors T) ->
  wf_dense (ttensor_full v0 vadd vmul T) /\ dshape (ttensor_full v0 vadd vmul T) = tshape T /\
  forall i, den_dense v0 (ttensor_full v0 vadd vmul T) i = den_t v0 v1 vadd vmul T i.
Proof. exact (ttensor_full_correct V v0 v1 vadd vmul vsub vopp Vring). Qed.

(* sum -> dense: densify the first part, add the others; parts of any kind whose own densification is right *)
Theorem C01_sum : forall s (parts : list (part V)), parts <> [] -> Forall (part_ok V v0 v1 vadd vmul s) parts ->
  exists R, sum_full v0 v1 vadd vmul parts = Some R /\ wf_dense R /\ dshape R = s /\
    forall i, inb s i = true -> den_dense v0 R i = den_sum v0 vadd (map (part_den v0 v1 vadd vmul) parts) i.
Proof. exact (sum_full_correct V v0 v1 vadd vmul vsub vopp Vring). Qed.

Theorem C01_sum_parts : (forall T : dense V, wf_dense T -> part_ok V v0 v1 vadd vmul (dshape T) (PD T)) /\
  (forall S : sparse V, Forall (fun j => inb (sshape S) j = true) (ssubs S) -> part_ok V v0 v1 vadd vmul (sshape S) (PS S)) /\
  (forall K : ktensor V, part_ok V v0 v1 vadd vmul (kshape K) (PK K)) /\
  (forall T : ttensor V, wf_dense (tcore T) -> length (dshape (tcore T)) = length (tfactors T) ->
     part_ok V v0 v1 vadd vmul (tshape T) (PT T)).
Proof. exact (conj (part_ok_dense V v0 v1 vadd vmul) (conj (part_ok_sparse V v0 v1 vadd vmul)
        (conj (part_ok_kruskal V v0 v1 vadd vmul) (part_ok_tucker V v0 v1 vadd vmul vsub vopp Vring)))). Qed.
End C01conv.

Print Assumptions C01_tenmat.
Print Assumptions C01_request_forms.
Print Assumptions C01_sptenmat.
Print Assumptions C01_kruskal_any_split.
Print Assumptions C01_kruskal.
Print Assumptions C01_kruskal_rank0.
Print Assumptions C01_tucker.
Print Assumptions C01_sum.
Print Assumptions C01_sum_parts.

(* non-vacuity on a non-symmetric 2x3x4 instance: rows = modes [2;0] (non-involutive order), columns = [1] *)
Example C01_example_tenmat :
  let T := mkDense [2; 3; 4] (map Z.of_nat (seq 0 24)) in
  option_map (fun M => (dshape (tm_data M), den_tenmat 0%Z M [1; 2; 3], tenmat_to_tensor 0%Z M)) (to_tenmat 0%Z T [2; 0] [1])
    = Some ([8; 3], 23%Z, T) /\
  tm_pos [2; 3; 4] [2; 0] [1] [1; 2; 3] = [7; 2] /\
  gather_wrap_dims 3 (Some [1]) None (Some CycBC) = Some ([1], [0; 2]) /\
  gather_wrap_dims 4 (Some [1]) None (Some CycFC) = Some ([1], [2; 3; 0]).
Proof. repeat split; reflexivity. Qed.

Example C01_example_sptenmat :
  let S := mkSp [2; 3; 4] [[1; 2; 3]; [0; 1; 0]] [5; 7]%Z in
  option_map (fun M => (stm_subs M, stm_shape M, sptenmat_to_sptensor M)) (to_sptenmat S [2; 0] [1])
    = Some ([[7; 2]; [0; 1]], [8; 3], S).
Proof. reflexivity. Qed.

Example C01_example_kruskal :
  let K := mkK [2; 3]%Z [[[1; 2]; [3; 4]]; [[5; 6]; [7; 8]; [9; 1]]; [[1; 0]; [2; 1]; [0; 3]; [1; 1]]]%Z in
  ktensor_full_code 0%Z Z.add Z.mul K = Some (ktensor_full_spec 0%Z 1%Z Z.add Z.mul K) /\
  ktensor_full_at 0%Z Z.add Z.mul K 2 = ktensor_full_at 0%Z Z.add Z.mul K 1 /\
  den_k 0%Z 1%Z Z.add Z.mul K [1; 2; 3] = 66%Z /\ min_split_dims [2; 3; 4] = Some 2 /\
  ktensor_full_code 0%Z Z.add Z.mul (mkK [2; 3]%Z [[[1; 2]; [3; 4]; [5; 6]]%Z]) = Some (mkDense [3] [8; 18; 28]%Z) /\
  (* no component: 3 x 2 zeros (three rows without columns, two rows without columns) *)
  ktensor_full_code 0%Z Z.add Z.mul (mkK [] [[[]; []; []]; [[]; []]]) = Some (mkDense [3; 2] [0; 0; 0; 0; 0; 0]%Z).
Proof. repeat split; reflexivity. Qed.

Example C01_example_sum :
  let T := mkDense [2; 3] [1; 2; 3; 4; 5; 6]%Z in
  let S := mkSp [2; 3] [[1; 2]] [10%Z] in
  let K := mkK [2%Z] [[[1]; [2]]; [[1]; [0]; [3]]]%Z in
  sum_full 0%Z 1%Z Z.add Z.mul [PS S; PD T; PK K] = Some (mkDense [2; 3] [3; 6; 3; 4; 11; 28]%Z).
Proof. reflexivity. Qed.

Example C01_example_tucker :
  let Tk := mkT (mkDense [2; 1; 2] [2; 3; 1; 4]%Z) [[[1; 2]; [3; 4]; [0; 5]]; [[5]; [7]]; [[1; 0]; [2; 1]; [0; 3]; [1; 1]]]%Z in
  dshape (ttensor_full 0%Z Z.add Z.mul Tk) = [3; 2; 4] /\
  den_dense 0%Z (ttensor_full 0%Z Z.add Z.mul Tk) [2; 1; 3] = den_t 0%Z 1%Z Z.add Z.mul Tk [2; 1; 3] /\
  den_t 0%Z 1%Z Z.add Z.mul Tk [2; 1; 3] = 245%Z.
Proof. repeat split; reflexivity. Qed.

(* ---------------------------------------------------------------------------------------------------------
   Second wave: the constructors behind the matricised holders (Model/C01Unique.v), the converse direction, the scipy
   views / from_array (Model/C01Coo.v), and pyttb's own ttm route inside ttensor.full (Model/C01Ttm.v). *)
Section C01deep.
Variable V : Type.
Variables (v0 v1 : V) (vadd vmul vsub : V -> V -> V) (vopp : V -> V) (isz : V -> bool).
Hypothesis Vring : ring_theory v0 v1 vadd vmul vsub vopp (@eq V).
Hypothesis isz_spec : forall v, isz v = true <-> v = v0.

(* np.unique(axis=0) + accumarray(sum) + nonzero of sptenmat.__init__ (insertion into a sorted accumulator): rows come out
   strictly increasing in (row, col) order, hence pairwise distinct; no zero value is kept; every position denotes the SUM
   of the values given for it; distinct zero-free input is only reordered; strictly sorted zero-free input is unchanged *)
Theorem C01_unique : forall (M : sptenmat V) k, length (stm_subs M) = length (stm_vals M) ->
  Forall (fun rc => length rc = k) (stm_subs M) ->
  let M' := stm_norm vadd isz M in
  stm_r M' = stm_r M /\ stm_c M' = stm_c M /\ stm_tshape M' = stm_tshape M /\
  length (stm_subs M') = length (stm_vals M') /\
  ssorted (stm_subs M') /\ NoDup (stm_subs M') /\
  Forall (fun v => isz v = false) (stm_vals M') /\
  (forall rc, In rc (stm_subs M') -> In rc (stm_subs M)) /\
  (forall rc, den_sp v0 (stm_sp M') rc = vsum_at v0 vadd rc (stm_entries V M)) /\
  (NoDup (stm_subs M) -> Forall (fun v => isz v = false) (stm_vals M) ->
     Permutation (stm_entries V M') (stm_entries V M) /\ forall rc, den_sp v0 (stm_sp M') rc = den_sp v0 (stm_sp M) rc) /\
  (ssorted (stm_subs M) -> Forall (fun v => isz v = false) (stm_vals M) -> M' = M).
Proof. exact (stm_norm_correct V v0 v1 vadd vmul vsub vopp isz Vring isz_spec). Qed.

(* sptensor.to_sptenmat WITH the constructor (what pyttb stores): strictly sorted triples; for a well-formed sparse tensor a
   reordering of the per-entry images, nnz kept, the same array (also through full()), and back to an equivalent tensor *)
Theorem C01_sptenmat_sorted : forall (S : sparse V) r c, is_perm (r ++ c) (length (sshape S)) ->
  Forall (fun j => inb (sshape S) j = true) (ssubs S) -> length (ssubs S) = length (svals S) ->
  exists M0 M, to_sptenmat S r c = Some M0 /\ to_sptenmat_sorted vadd isz S r c = Some M /\ M = stm_norm vadd isz M0 /\
    stm_r M = r /\ stm_c M = c /\ stm_tshape M = sshape S /\ ssorted (stm_subs M) /\ wf_sp isz (stm_sp M) /\
    (forall rc, den_sp v0 (stm_sp M) rc = vsum_at v0 vadd rc (stm_entries V M0)) /\
    (wf_sp isz S ->
       Permutation (stm_entries V M) (stm_entries V M0) /\ length (stm_subs M) = nnz S /\
       (forall i, inb (sshape S) i = true -> den_sptenmat v0 M i = den_sp v0 S i) /\
       (forall i, inb (sshape S) i = true -> den_tenmat v0 (sptenmat_full v0 M) i = den_sp v0 S i) /\
       let B := sptenmat_to_sptensor M in
       wf_sp isz B /\ sshape B = sshape S /\ nnz B = nnz S /\ forall i, den_sp v0 B i = den_sp v0 S i).
Proof. exact (to_sptenmat_sorted_correct V v0 v1 vadd vmul vsub vopp isz Vring isz_spec). Qed.

(* tenmat.__init__ (argument checks transliterated as tm_ctor): what an accepted call guarantees ... *)
Theorem C01_tenmat_guard : forall (D : dense V) rd cd ts M, wf_dense D -> tm_ctor (Some D) rd cd ts = CtorOk M ->
  wf_dense (tm_data M) /\ ddata (tm_data M) = ddata D /\ length (dshape (tm_data M)) = 2 /\
  (length (dshape D) = 2 -> tm_data M = D) /\
  is_perm (tm_r M ++ tm_c M) (length (tm_tshape M)) /\ size (dshape (tm_data M)) = size (tm_tshape M) /\
  gather_wrap_dims (length (tm_tshape M)) rd cd None = Some (tm_r M, tm_c M) /\
  (forall t, ts = Some t -> tm_tshape M = t) /\ (ts = None -> tm_tshape M = dshape (tm_data M)).
Proof. exact (@tm_ctor_sound V). Qed.

(* ... and the converse of C01_tenmat: every tenmat that passes the constructor checks converts back (to_tensor) to a
   well-formed tensor of shape tshape whose matricisation along the same modes has the same data list, reports
   (prod tshape[r], prod tshape[c]), and IS the object whenever its data matrix has that shape (the constructor compares
   only the element count: known finding C19-N11) *)
Theorem C01_tenmat_converse : forall (D : dense V) rd cd ts M, wf_dense D -> tm_ctor (Some D) rd cd ts = CtorOk M ->
  let T := tenmat_to_tensor v0 M in
  wf_dense T /\ dshape T = tm_tshape M /\ is_perm (tm_r M ++ tm_c M) (length (tm_tshape M)) /\
  exists M', to_tenmat v0 T (tm_r M) (tm_c M) = Some M' /\ tm_r M' = tm_r M /\ tm_c M' = tm_c M /\
    tm_tshape M' = tm_tshape M /\ dshape (tm_data M') = tm_rc M /\ ddata (tm_data M') = ddata (tm_data M) /\
    (dshape (tm_data M) = tm_rc M -> M' = M) /\
    (forall i, inb (tm_tshape M) i = true -> den_tenmat v0 M' i = den_dense v0 T i) /\
    tenmat_to_tensor v0 M' = T.
Proof. exact (tm_ctor_converse v0). Qed.

(* sptenmat.__init__ (stm_ctor): accepts every in-bounds triple list along a mode partition; an accepted call had one *)
Theorem C01_sptenmat_guard :
  (forall subs vals r c ts, is_perm (r ++ c) (length ts) ->
     Forall (fun rc => inb [size (pick 0 r ts); size (pick 0 c ts)] rc = true) subs ->
     stm_ctor vadd isz (Some subs) (Some vals) (Some r) (Some c) ts = Some (stm_norm vadd isz (mkSTM subs vals r c ts))) /\
  (forall subs vals rd cd ts M, stm_ctor vadd isz subs vals rd cd ts = Some M ->
     (rd = None /\ cd = None /\ subs = None /\ vals = None /\ M = mkSTM [] [] [] [] []) \/
     exists r c, gather_wrap_dims (length ts) rd cd None = Some (r, c) /\ is_perm (r ++ c) (length ts) /\
       Forall (fun rc => nth 0 rc 0 < size (pick 0 r ts) /\ nth 1 rc 0 < size (pick 0 c ts)) (olist subs) /\
       M = stm_norm vadd isz (mkSTM (olist subs) (olist vals) r c ts)).
Proof. exact (conj (stm_ctor_accepts V vadd isz) (stm_ctor_sound V vadd isz)). Qed.

(* the converse of C01_sptenmat: every sptenmat that passes the constructor checks (subs an nnz x 2 array, vals nnz values)
   is strictly sorted and well-formed, denotes the per-position sums of the given values, and converts back (to_sptensor)
   to a well-formed sparse tensor of shape tshape whose to_sptenmat — with or without the constructor's sorting — is that
   very object *)
Theorem C01_sptenmat_converse : forall subs vals rd cd ts M, stm_ctor vadd isz subs vals rd cd ts = Some M ->
  rd <> None \/ cd <> None -> length (olist subs) = length (olist vals) -> Forall (fun rc => length rc = 2) (olist subs) ->
  stm_tshape M = ts /\ is_perm (stm_r M ++ stm_c M) (length ts) /\
  ssorted (stm_subs M) /\ wf_sp isz (stm_sp M) /\
  (forall rc, den_sp v0 (stm_sp M) rc = vsum_at v0 vadd rc (combine (olist subs) (olist vals))) /\
  let S := sptenmat_to_sptensor M in
  wf_sp isz S /\ sshape S = ts /\ nnz S = length (stm_subs M) /\
  to_sptenmat S (stm_r M) (stm_c M) = Some M /\ to_sptenmat_sorted vadd isz S (stm_r M) (stm_c M) = Some M /\
  (forall i, inb ts i = true -> den_sp v0 S i = den_sptenmat v0 M i).
Proof. exact (stm_ctor_converse V v0 v1 vadd vmul vsub vopp isz Vring isz_spec). Qed.

(* scipy views: for distinct in-bounds positions the coo matrix (toarray sums repeated positions) is the scatter *)
Theorem C01_spmatrix : forall S : sparse V, length (sshape S) = 2 -> length (ssubs S) = length (svals S) -> NoDup (ssubs S) ->
  Forall (fun rc => inb (sshape S) rc = true) (ssubs S) ->
  exists C, spmatrix S = Some C /\ coo_shape C = sshape S /\ coo_toarray v0 vadd C = full v0 S /\
    forall rc, den_coo v0 vadd C rc = den_sp v0 S rc.
Proof. exact (spmatrix_correct V v0 v1 vadd vmul vsub vopp Vring). Qed.

Theorem C01_sptenmat_double : forall M : sptenmat V, length (stm_subs M) = length (stm_vals M) -> NoDup (stm_subs M) ->
  Forall (fun rc => inb (stm_shape M) rc = true) (stm_subs M) ->
  coo_shape (stm_double M) = stm_shape M /\
  coo_toarray v0 vadd (stm_double M) = tm_data (sptenmat_full v0 M) /\
  forall rc, den_coo v0 vadd (stm_double M) rc = den_sp v0 (stm_sp M) rc.
Proof. exact (stm_double_correct V v0 v1 vadd vmul vsub vopp Vring). Qed.

Theorem C01_tenmat_double : forall M : tenmat V, tm_double M = tm_data M /\
  forall i, den_dense v0 (tm_double M) (tm_pos (tm_tshape M) (tm_r M) (tm_c M) i) = den_tenmat v0 M i.
Proof. exact (tm_double_correct V v0). Qed.

(* sptenmat.from_array of a dense matrix / of a scipy matrix: the sptenmat denotes that matrix (a coo matrix denotes the
   sums of its stored values) and satisfies everything C01_sptenmat_converse gives *)
Theorem C01_from_array_dense : forall (A : dense V) R C rd cd ts M, wf_dense A -> dshape A = [R; C] ->
  from_array_dense v0 vadd isz A rd cd ts = Some M -> rd <> None \/ cd <> None ->
  (forall rc, den_sp v0 (stm_sp M) rc = den_dense v0 A rc) /\
  exists subs vals, stm_converse_concl V v0 vadd isz subs vals ts M.
Proof. exact (from_array_dense_correct V v0 v1 vadd vmul vsub vopp isz Vring isz_spec). Qed.

Theorem C01_from_array_coo : forall (Cm : coo V) rd cd ts M, length (coo_subs Cm) = length (coo_data Cm) ->
  Forall (fun rc => length rc = 2) (coo_subs Cm) ->
  from_array_coo vadd isz Cm rd cd ts = Some M -> rd <> None \/ cd <> None ->
  (forall rc, den_sp v0 (stm_sp M) rc = vsum_at v0 vadd rc (coo_entries Cm)) /\
  (forall rc, inb (coo_shape Cm) rc = true -> den_sp v0 (stm_sp M) rc = den_coo v0 vadd Cm rc) /\
  exists subs vals, stm_converse_concl V v0 vadd isz subs vals ts M.
Proof. exact (from_array_coo_correct V v0 v1 vadd vmul vsub vopp isz Vring isz_spec). Qed.

(* ttensor.full with a dense core as the code runs it: tensor.ttm (permute, F-reshape, matrix product, F-reshape, inverse
   permute; Model/C02Dense.v) over the modes 0..N-1 is the subscript-level product of C01_tucker, hence den_t *)
Theorem C01_tucker_impl : forall T : ttensor V, wf_dense (tcore T) -> length (dshape (tcore T)) = length (tfactors T) ->
  ttensor_full_impl v0 vadd vmul T = ttensor_full v0 vadd vmul T /\
  wf_dense (ttensor_full_impl v0 vadd vmul T) /\ dshape (ttensor_full_impl v0 vadd vmul T) = tshape T /\
  forall i, den_dense v0 (ttensor_full_impl v0 vadd vmul T) i = den_t v0 v1 vadd vmul T i.
Proof. exact (ttensor_full_impl_correct V v0 v1 vadd vmul vsub vopp Vring). Qed.
End C01deep.

Print Assumptions C01_unique.
Print Assumptions C01_sptenmat_sorted.
Print Assumptions C01_tenmat_guard.
Print Assumptions C01_tenmat_converse.
Print Assumptions C01_sptenmat_guard.
Print Assumptions C01_sptenmat_converse.
Print Assumptions C01_spmatrix.
Print Assumptions C01_sptenmat_double.
Print Assumptions C01_tenmat_double.
Print Assumptions C01_from_array_dense.
Print Assumptions C01_from_array_coo.
Print Assumptions C01_tucker_impl.

(* non-vacuity *)
Example C01_example_unique :
  (* rows given unsorted, (1,2) twice, (0,1) cancelling to zero: sorted, summed, the zero dropped *)
  let M := mkSTM [[1; 2]; [0; 1]; [1; 0]; [1; 2]; [0; 1]] [5; 3; 7; 2; -3]%Z [0] [1] [2; 3] in
  stm_norm Z.add (Z.eqb 0) M = mkSTM [[1; 0]; [1; 2]] [7; 7]%Z [0] [1] [2; 3] /\
  stm_ctor Z.add (Z.eqb 0) (Some (stm_subs M)) (Some (stm_vals M)) (Some [0]) None [2; 3] = Some (stm_norm Z.add (Z.eqb 0) M) /\
  stm_ctor Z.add (Z.eqb 0) (Some [[2; 0]]) (Some [1%Z]) (Some [0]) (Some [1]) [2; 3] = None /\
  (* a sparse tensor stored in F order, matricised with rows = mode 1: pyttb stores the triples row-major *)
  option_map (fun M => (stm_subs M, stm_vals M))
    (to_sptenmat_sorted Z.add (Z.eqb 0) (mkSp [2; 3] [[1; 0]; [0; 1]; [1; 2]; [0; 2]] [5; 7; 9; 4]%Z) [1] [0])
    = Some ([[0; 1]; [1; 0]; [2; 0]; [2; 1]], [5; 7; 4; 9]%Z).
Proof. repeat split; reflexivity. Qed.

Example C01_example_converse :
  let D := mkDense [3; 8] (map Z.of_nat (seq 0 24)) in
  (* accepted: rows = mode 1, columns = modes 2, 0 of a 2x3x4 tensor; converts back and forth to itself *)
  (match tm_ctor (Some D) (Some [1]) (Some [2; 0]) (Some [2; 3; 4]) with
   | CtorOk M => to_tenmat 0%Z (tenmat_to_tensor 0%Z M) [1] [2; 0] = Some M /\ den_dense 0%Z (tenmat_to_tensor 0%Z M) [1; 2; 3] = 23%Z
   | _ => False end) /\
  tm_ctor (Some D) (Some [1]) (Some [2; 1]) (Some [2; 3; 4]) = CtorReject /\
  tm_ctor (Some D) (Some [1]) None (Some [2; 3; 5]) = CtorReject /\
  tm_ctor (@None (dense Z)) None None None = CtorEmpty /\
  (* the element-count check alone: an 8x3 matrix is accepted for a 3x8 split (C19-N11), and then M' <> M *)
  (match tm_ctor (Some (mkDense [8; 3] (ddata D))) (Some [1]) (Some [2; 0]) (Some [2; 3; 4]) with
   | CtorOk M => option_map (fun M' => dshape (tm_data M')) (to_tenmat 0%Z (tenmat_to_tensor 0%Z M) [1] [2; 0]) = Some [3; 8]
   | _ => False end).
Proof. repeat split; reflexivity. Qed.

Example C01_example_coo :
  let A := mkDense [2; 3] [0; 5; 7; 0; 0; 9]%Z in
  option_map (fun M => (stm_subs M, stm_vals M)) (from_array_dense 0%Z Z.add (Z.eqb 0) A (Some [1]) (Some [0]) [3; 2])
    = Some ([[0; 1]; [1; 0]; [1; 2]], [7; 5; 9]%Z) /\
  option_map (fun M => (stm_subs M, stm_vals M))
    (from_array_coo Z.add (Z.eqb 0) (mkCoo [2; 3] [[1; 2]; [0; 0]; [1; 2]; [0; 1]] [4; 0; 5; 7]%Z) (Some [0]) (Some [1]) [2; 3])
    = Some ([[0; 1]; [1; 2]], [7; 9]%Z) /\
  coo_toarray 0%Z Z.add (mkCoo [2; 3] [[1; 2]; [0; 0]; [1; 2]; [0; 1]] [4; 0; 5; 7]%Z) = mkDense [2; 3] [0; 0; 7; 0; 0; 9]%Z.
Proof. repeat split; reflexivity. Qed.

Example C01_example_tucker_impl :
  let Tk := mkT (mkDense [2; 1; 2] [2; 3; 1; 4]%Z) [[[1; 2]; [3; 4]; [0; 5]]; [[5]; [7]]; [[1; 0]; [2; 1]; [0; 3]; [1; 1]]]%Z in
  ttensor_full_impl 0%Z Z.add Z.mul Tk = ttensor_full 0%Z Z.add Z.mul Tk /\
  den_dense 0%Z (ttensor_full_impl 0%Z Z.add Z.mul Tk) [2; 1; 3] = 245%Z.
Proof. split; reflexivity. Qed.

(* ---------------------------------------------------------------------------------------------------------
   Third wave (Model/C01W3.v): the conversions that were tied by correspondence only. *)
Section C01w3.
Variable V : Type.
Variables (v0 v1 : V) (vadd vmul vsub : V -> V -> V) (vopp : V -> V) (isz : V -> bool).
Hypothesis Vring : ring_theory v0 v1 vadd vmul vsub vopp (@eq V).
Hypothesis isz_spec : forall v, isz v = true <-> v = v0.

(* ktensor.to_tenmat = full().to_tenmat(rdims, cdims, cdims_cyclic), for every admissible request form: the matrix holds
   sum_r w_r prod_n A_n[i_n, r] at (sub2ind i[r], sub2ind i[c]) and converts back to the dense Kruskal tensor *)
Theorem C01_kruskal_to_tenmat : forall (K : ktensor V) rd cd cy,
  rows_ok V (krank K) (kfactors K) -> 1 <= length (kfactors K) -> request_ok (length (kfactors K)) rd cd ->
  exists r c M, gather_wrap_dims (length (kshape K)) rd cd cy = Some (r, c) /\ is_perm (r ++ c) (length (kshape K)) /\
    ktensor_to_tenmat v0 vadd vmul K rd cd cy = Some M /\ tm_r M = r /\ tm_c M = c /\ tm_tshape M = kshape K /\
    wf_dense (tm_data M) /\ dshape (tm_data M) = [size (pick 0 r (kshape K)); size (pick 0 c (kshape K))] /\
    (forall i, inb (kshape K) i = true -> den_tenmat v0 M i = den_k v0 v1 vadd vmul K i) /\
    tenmat_to_tensor v0 M = ktensor_full_spec v0 v1 vadd vmul K.
Proof. exact (ktensor_to_tenmat_correct V v0 v1 vadd vmul vsub vopp Vring). Qed.

(* ktensor.double / ttensor.double / sumtensor.double = full().double(): the arrays of C01_kruskal / C01_tucker_impl / C01_sum *)
Theorem C01_double_aliases :
  (forall K : ktensor V, rows_ok V (krank K) (kfactors K) -> 1 <= length (kfactors K) ->
     ktensor_double v0 vadd vmul K = ktensor_full_code v0 vadd vmul K /\
     ktensor_double v0 vadd vmul K = Some (ktensor_full_spec v0 v1 vadd vmul K)) /\
  (forall T : ttensor V, wf_dense (tcore T) -> length (dshape (tcore T)) = length (tfactors T) ->
     ttensor_double v0 vadd vmul T = ttensor_full_impl v0 vadd vmul T /\
     wf_dense (ttensor_double v0 vadd vmul T) /\ dshape (ttensor_double v0 vadd vmul T) = tshape T /\
     forall i, den_dense v0 (ttensor_double v0 vadd vmul T) i = den_t v0 v1 vadd vmul T i) /\
  (forall s (parts : list (part V)), parts <> [] -> Forall (part_ok V v0 v1 vadd vmul s) parts ->
     sum_double v0 v1 vadd vmul parts = sum_full v0 v1 vadd vmul parts /\
     exists R, sum_double v0 v1 vadd vmul parts = Some R /\ wf_dense R /\ dshape R = s /\
       forall i, inb s i = true -> den_dense v0 R i = den_sum v0 vadd (map (part_den v0 v1 vadd vmul) parts) i).
Proof. exact (double_aliases_correct V v0 v1 vadd vmul vsub vopp Vring). Qed.

(* sptenmat(subs, vals, rdims, cdims, tshape, copy=False): the same argument checks; the arguments are stored as given
   (any order, stored zeros kept); copy=True stores the normal form (C01_unique) of exactly this object, and the same
   object when the triples are strictly sorted and zero-free; the object converts back to a sparse tensor with in-bounds
   (for distinct positions: distinct) subscripts whose to_sptenmat is that object, with the same array through
   to_sptensor and full *)
Theorem C01_sptenmat_nocopy : forall subs vals rd cd ts M, stm_ctor_nocopy subs vals rd cd ts = Some M ->
  length subs = length vals -> Forall (fun rc => length rc = 2) subs ->
  exists r c, gather_wrap_dims (length ts) rd cd None = Some (r, c) /\ is_perm (r ++ c) (length ts) /\
    M = mkSTM subs vals r c ts /\
    Forall (fun rc => inb (stm_shape M) rc = true) (stm_subs M) /\
    stm_ctor vadd isz (Some subs) (Some vals) rd cd ts = Some (stm_norm vadd isz M) /\
    (ssorted subs -> Forall (fun v => isz v = false) vals -> stm_ctor vadd isz (Some subs) (Some vals) rd cd ts = Some M) /\
    let S := sptenmat_to_sptensor M in
    sshape S = ts /\ Forall (fun j => inb ts j = true) (ssubs S) /\ svals S = vals /\ nnz S = length subs /\
    (NoDup subs -> NoDup (ssubs S)) /\
    to_sptenmat S r c = Some M /\
    (forall i, inb ts i = true -> den_sp v0 S i = den_sptenmat v0 M i) /\
    (forall i, inb ts i = true -> den_tenmat v0 (sptenmat_full v0 M) i = den_sptenmat v0 M i).
Proof. exact (stm_ctor_nocopy_correct V v0 v1 vadd vmul vsub vopp isz Vring isz_spec). Qed.

(* tenmat(..., copy=False): the checks and the stored matrix of copy=True — C01_tenmat_guard / C01_tenmat_converse apply *)
Theorem C01_tenmat_nocopy : forall (data : option (dense V)) rd cd ts, tm_ctor_nocopy data rd cd ts = tm_ctor data rd cd ts.
Proof. exact (tm_ctor_nocopy_correct V). Qed.

(* sptensor.ttm in one mode n as the code runs it — to_sptenmat([n], "t") with the sorting constructor, the scipy view,
   Z = X @ U.T, sptenmat.from_array(Z, rdims, cdims, new shape), to_sptensor, to_tensor — is the mode-n product of the
   densified tensor: Y[i] = sum_j U[i_n, j] * S[i with n := j] *)
Theorem C01_sptensor_ttm : forall (G : sparse V) (U : matrix (V:=V)) n, wf_sp isz G -> n < length (sshape G) ->
  sp_ttm v0 vadd vmul isz G U n = Some (ttm_mode v0 vadd vmul (full v0 G) U n).
Proof. exact (sp_ttm_correct V v0 v1 vadd vmul vsub vopp isz Vring isz_spec). Qed.

(* ttensor.full() with a SPARSE core as the code runs it (sptensor.ttm in mode 0 — its result is dense — then tensor.ttm
   for the modes 1..N-1): the Tucker array sum_j G[j] prod_n U_n[i_n, j_n] of the stored core *)
Theorem C01_tucker_sparse_core : forall (G : sparse V) (Us : list (matrix (V:=V))),
  wf_sp isz G -> length (sshape G) = length Us -> Us <> [] ->
  let T := mkT (full v0 G) Us in
  ttensor_full_spcore v0 vadd vmul isz G Us = Some (ttensor_full v0 vadd vmul T) /\
  wf_dense (ttensor_full v0 vadd vmul T) /\ dshape (ttensor_full v0 vadd vmul T) = tshape T /\
  (forall j, den_dense v0 (tcore T) j = den_sp v0 G j) /\
  forall i, den_dense v0 (ttensor_full v0 vadd vmul T) i = den_t v0 v1 vadd vmul T i.
Proof. exact (ttensor_full_spcore_correct V v0 v1 vadd vmul vsub vopp isz Vring isz_spec). Qed.
End C01w3.

Print Assumptions C01_kruskal_to_tenmat.
Print Assumptions C01_double_aliases.
Print Assumptions C01_sptenmat_nocopy.
Print Assumptions C01_tenmat_nocopy.
Print Assumptions C01_sptensor_ttm.
Print Assumptions C01_tucker_sparse_core.

(* non-vacuity *)
Example C01_example_w3 :
  (* Kruskal 2x3 of rank 2 matricised with the transposed single-mode convention: rows = mode 1, column = mode 0 *)
  let K := mkK [2; 3]%Z [[[1; 2]; [3; 4]]; [[5; 6]; [7; 8]; [9; 1]]]%Z in
  option_map (fun M => (tm_r M, tm_c M, dshape (tm_data M), ddata (tm_data M)))
    (ktensor_to_tenmat 0%Z Z.add Z.mul K (Some [0]) None (Some CycT))
    = Some ([1], [0], [3; 2], [46; 62; 24; 102; 138; 66]%Z) /\
  ktensor_double 0%Z Z.add Z.mul K = Some (mkDense [2; 3] [46; 102; 62; 138; 24; 66]%Z) /\
  (* copy=False keeps the triples as given (unsorted, a stored zero); copy=True sorts and drops the zero *)
  stm_ctor_nocopy [[1; 2]; [0; 1]; [1; 0]] [5; 0; 7]%Z (Some [0]) (Some [1]) [2; 3]
    = Some (mkSTM [[1; 2]; [0; 1]; [1; 0]] [5; 0; 7]%Z [0] [1] [2; 3]) /\
  stm_ctor Z.add (Z.eqb 0) (Some [[1; 2]; [0; 1]; [1; 0]]) (Some [5; 0; 7]%Z) (Some [0]) (Some [1]) [2; 3]
    = Some (mkSTM [[1; 0]; [1; 2]] [7; 5]%Z [0] [1] [2; 3]) /\
  stm_ctor_nocopy [[2; 0]] [1%Z] (Some [0]) (Some [1]) [2; 3] = None /\
  (* a 2x1x2 sparse core stored in reversed order, three factor matrices *)
  let G := mkSp [2; 1; 2] [[1; 0; 1]; [0; 0; 1]; [0; 0; 0]] [4; 1; 2]%Z in
  let Us := [[[1; 2]; [3; 4]; [0; 5]]; [[5]; [7]]; [[1; 0]; [2; 1]; [0; 3]; [1; 1]]]%Z in
  sp_ttm 0%Z Z.add Z.mul (Z.eqb 0) G [[1; 2]; [3; 4]; [0; 5]]%Z 0 = Some (mkDense [3; 1; 2] [2; 6; 0; 9; 19; 20]%Z) /\
  ttensor_full_spcore 0%Z Z.add Z.mul (Z.eqb 0) G Us = Some (ttensor_full 0%Z Z.add Z.mul (mkT (full 0%Z G) Us)) /\
  option_map (fun D => den_dense 0%Z D [2; 1; 3]) (ttensor_full_spcore 0%Z Z.add Z.mul (Z.eqb 0) G Us) = Some 140%Z.
Proof. repeat split; vm_compute; reflexivity. Qed.

(* ---------------------------------------------------------------------------------------------------------
   Tie to the translator: the function GENERATED from pyttb_utils.gather_wrap_dims on every run (Gen/GenUtils2.v, over
   numpy integer vectors) answers, for every request form and every N, exactly what the hand model gather_wrap_dims of
   C01_request_forms / to_tenmat_req / to_sptenmat_req / stm_ctor / tm_ctor answers (zv = map Z.of_nat, cyc_gen = the
   cdims_cyclic string). An edit of gather_wrap_dims in /repo breaks this proof. *)
Theorem C01_gather_wrap_dims_generated : forall N rd cd cy,
  PV.Gen.GenUtils2.gather_wrap_dims (Z.of_nat N) (option_map C01GenBridge.zv rd) (option_map C01GenBridge.zv cd)
    (option_map C01GenBridge.cyc_gen cy)
  = match gather_wrap_dims N rd cd cy with
    | Some (r, c) => NpZ.Ok (C01GenBridge.zv r, C01GenBridge.zv c)
    | None => NpZ.Err
    end.
Proof. exact C01GenBridge.gather_wrap_dims_generated. Qed.

(* ... and the per-side index computations of the sparse matricisation: the GENERATED tt_sub2ind applied to the row (side 0)
   or column (side 1) subscripts of the stored entries yields exactly the row / column indices the model's to_sptenmat stores,
   and the GENERATED tt_ind2sub applied to the stored row / column indices yields the per-side subscripts the model's
   to_sptensor reassembles (the sides with no mode are separate branches of the code and of the model) *)
Theorem C01_sparse_index_generated : forall V : Type,
  (forall (S : sparse V) r c M side, is_perm (r ++ c) (length (sshape S)) ->
     Forall (fun j => inb (sshape S) j = true) (ssubs S) -> to_sptenmat S r c = Some M ->
     let q := nth side [r; c] [] in q <> [] -> side < 2 ->
     PV.Gen.GenUtils.tt_sub2ind (NpZProofs.zs (pick 0 q (sshape S))) (NpZProofs.zm (map (pick 0 q) (ssubs S))) NpZ.OrdF
       = NpZ.Ok (map (fun rc => Z.of_nat (nth side rc 0)) (stm_subs M))) /\
  (forall (M : sptenmat V) side, Forall (fun rc => inb (stm_shape M) rc = true) (stm_subs M) -> side < 2 ->
     let q := nth side [stm_r M; stm_c M] [] in
     PV.Gen.GenUtils.tt_ind2sub (NpZProofs.zs (pick 0 q (stm_tshape M)))
         (NpZProofs.zs (map (fun rc => nth side rc 0) (stm_subs M))) NpZ.OrdF
       = NpZ.Ok (map (fun rc => NpZProofs.zs (ind2sub (pick 0 q (stm_tshape M)) (nth side rc 0))) (stm_subs M))).
Proof. exact (fun V => conj (@C01GenBridge.to_sptenmat_side_generated V) (@C01GenBridge.sptenmat_back_side_generated V)). Qed.

Print Assumptions C01_gather_wrap_dims_generated.
Print Assumptions C01_sparse_index_generated.

Example C01_example_generated :
  PV.Gen.GenUtils2.gather_wrap_dims 4%Z (Some [1%Z]) None (Some NpZ2.CycBC) = NpZ.Ok ([1%Z], [0; 3; 2]%Z) /\
  gather_wrap_dims 4 (Some [1]) None (Some CycBC) = Some ([1], [0; 3; 2]) /\
  PV.Gen.GenUtils2.gather_wrap_dims 3%Z None (Some [2; 0]%Z) None = NpZ.Ok ([1%Z], [2; 0]%Z) /\
  (* rows = modes [2; 0] of a 2x3x4 sparse tensor: the generated tt_sub2ind gives the stored row indices 7 and 0 *)
  PV.Gen.GenUtils.tt_sub2ind [4; 2]%Z [[3; 1]; [0; 0]]%Z NpZ.OrdF = NpZ.Ok [7; 0]%Z /\
  option_map (fun M => map (fun rc => nth 0 rc 0) (stm_subs M)) (to_sptenmat (mkSp [2; 3; 4] [[1; 2; 3]; [0; 1; 0]] [5; 7]%Z) [2; 0] [1])
    = Some [7; 0] /\
  PV.Gen.GenUtils.tt_ind2sub [4; 2]%Z [7; 0]%Z NpZ.OrdF = NpZ.Ok [[3; 1]; [0; 0]]%Z.
Proof. repeat split; reflexivity. Qed.

(* ---------------------------------------------------------------------------------------------------------
   Fourth wave — ktensor.full tied to the translator: the two Khatri-Rao products inside ktensor.full are calls of
   pyttb.khatrirao(..., reverse=True); Gen/GenKernels.v holds the function GENERATED from pyttb/khatrirao.py on every run
   (over numpy integer matrices). An edit of khatrirao.py in /repo breaks these proofs. *)

(* on non-empty integer matrices with R >= 1 columns each, the generated khatrirao(reverse=True) returns exactly what the
   hand model khatrirao_rev of C01_kruskal_any_split / C01_kruskal returns; on matrices WITHOUT columns it raises (the
   reason for N-C01-1 and for the `ncomponents == 0` branch of /repo d9f07bf) *)
Theorem C01_khatrirao_generated :
  (forall (R : nat) (Ms : list (list (list Z))), Ms <> [] -> 1 <= R -> C01GenKr.mats_ok R Ms ->
     exists P, khatrirao_rev Z.mul Ms = Some P /\ PV.Gen.GenKernels.khatrirao Ms true = NpZ.Ok P) /\
  (forall Ms : list (list (list Z)), C01GenKr.mats_ok 0 Ms -> PV.Gen.GenKernels.khatrirao Ms true = NpZ.Err).
Proof. exact (conj C01GenKr.khatrirao_generated_c01 C01GenKr.khatrirao_generated_rank0). Qed.

(* ktensor.full with the GENERATED khatrirao in place of the hand model (C01GenKr.ktensor_full_gen: rank-0 branch, single-mode
   branch, min_split_dims, generated khatrirao on both sides of the split, (L * w) @ R.T, F-order reshape) returns the
   specified dense tensor for every integer Kruskal tensor with N >= 1 modes of size >= 1 and EVERY rank (0 included);
   without the rank-0 branch the same route gives no answer for R = 0, N >= 2 *)
Theorem C01_kruskal_generated :
  (forall K : ktensor Z, rows_ok Z (krank K) (kfactors K) -> Forall (fun A => A <> []) (kfactors K) -> 1 <= length (kfactors K) ->
     C01GenKr.ktensor_full_gen K = ktensor_full_code 0%Z Z.add Z.mul K /\
     C01GenKr.ktensor_full_gen K = Some (ktensor_full_spec 0%Z 1%Z Z.add Z.mul K)) /\
  (forall K : ktensor Z, krank K = 0 -> rows_ok Z 0 (kfactors K) -> Forall (fun A => A <> []) (kfactors K) ->
     2 <= length (kfactors K) -> C01GenKr.ktensor_full_gen_norank0 K = None).
Proof. exact (conj C01GenKr.ktensor_full_gen_correct C01GenKr.ktensor_full_gen_norank0_fails). Qed.

Print Assumptions C01_khatrirao_generated.
Print Assumptions C01_kruskal_generated.

Example C01_example_kruskal_generated :
  let K := mkK [2; 3]%Z [[[1; 2]; [3; 4]]; [[5; 6]; [7; 8]; [9; 1]]; [[1; 0]; [2; 1]; [0; 3]; [1; 1]]]%Z in
  C01GenKr.ktensor_full_gen K = Some (ktensor_full_spec 0%Z 1%Z Z.add Z.mul K) /\
  PV.Gen.GenKernels.khatrirao [[[1; 2]; [3; 4]]; [[5; 6]; [7; 8]; [9; 1]]]%Z true
    = NpZ.Ok [[5; 12]; [15; 24]; [7; 16]; [21; 32]; [9; 2]; [27; 4]]%Z /\
  C01GenKr.ktensor_full_gen (mkK [] [[[]; []; []]; [[]; []]]) = Some (mkDense [3; 2] [0; 0; 0; 0; 0; 0]%Z) /\
  C01GenKr.ktensor_full_gen_norank0 (mkK [] [[[]; []; []]; [[]; []]]) = None.
Proof. exact C01GenKr.ktensor_full_gen_example. Qed.

(* ---------------------------------------------------------------------------------------------------------
   Fourth wave — sumtensor.full AS EXECUTED (Model/C01W4.v sum_full_code): `result = parts[0].full(); for part in parts[1:]:
   result += part`, where tensor.__add__ densifies the part by the part's own full() (tensor: itself; sptensor: scatter;
   ktensor: rank-0 branch / single-mode branch / Khatri-Rao split; ttensor with a dense core: tensor.ttm mode by mode; ttensor
   with a SPARSE core: sptensor.ttm in mode 0, tensor.ttm afterwards), asserts equal shapes and adds the data arrays. For every
   non-empty list of admissible parts of one shape (part4_ok: what the part constructors guarantee) it equals the specified
   sum_full of C01_sum on the denoted parts, sumtensor.double gives the same array, and the result is well-formed, of that
   shape, and holds the sum of what the parts denote at every position. A part whose densification has another shape is
   rejected (the assert of tenfun_binary). *)
Section C01w4.
Context {V : Type} (v0 v1 : V) (vadd vmul vsub : V -> V -> V) (vopp : V -> V) (isz : V -> bool).
Hypothesis Vring : ring_theory v0 v1 vadd vmul vsub vopp (@eq V).
Hypothesis isz_spec : forall v, isz v = true <-> v = v0.

Theorem C01_sum_impl : forall s (parts : list (part4 V)), parts <> [] -> Forall (part4_ok V isz s) parts ->
  sum_full_code v0 vadd vmul isz parts = sum_full v0 v1 vadd vmul (map (part4_spec v0) parts) /\
  sum_double_code v0 vadd vmul isz parts = sum_full_code v0 vadd vmul isz parts /\
  Forall (part_ok V v0 v1 vadd vmul s) (map (part4_spec v0) parts) /\
  exists R, sum_full_code v0 vadd vmul isz parts = Some R /\ wf_dense R /\ dshape R = s /\
    forall i, inb s i = true ->
      den_dense v0 R i = den_sum v0 vadd (map (part_den v0 v1 vadd vmul) (map (part4_spec v0) parts)) i.
Proof. exact (sum_full_code_correct V v0 v1 vadd vmul vsub vopp isz Vring isz_spec). Qed.

(* the multi-step history tensor -> to_tenmat(r, c) -> to_tensor -> to_sptensor -> to_sptenmat(r2, c2) (with the sorting
   constructor) -> to_sptensor -> full, for every well-formed tensor and every two ordered mode partitions: every
   intermediate object is well-formed and reports the number of nonzero entries of the tensor, the sparse matricisation holds
   T[i] at tm_pos i, and the last step returns the tensor the history started from *)
Theorem C01_chain : forall (T : dense V) r c r2 c2, wf_dense T ->
  is_perm (r ++ c) (length (dshape T)) -> is_perm (r2 ++ c2) (length (dshape T)) ->
  let nz := length (filter (fun v => negb (isz v)) (ddata T)) in
  exists M M2,
    to_tenmat v0 T r c = Some M /\ tenmat_to_tensor v0 M = T /\
    wf_sp isz (to_sptensor v0 isz (tenmat_to_tensor v0 M)) /\ nnz (to_sptensor v0 isz (tenmat_to_tensor v0 M)) = nz /\
    to_sptenmat_sorted vadd isz (to_sptensor v0 isz (tenmat_to_tensor v0 M)) r2 c2 = Some M2 /\
    ssorted (stm_subs M2) /\ wf_sp isz (stm_sp M2) /\ length (stm_subs M2) = nz /\
    (forall i, inb (dshape T) i = true -> den_sptenmat v0 M2 i = den_dense v0 T i) /\
    wf_sp isz (sptenmat_to_sptensor M2) /\ nnz (sptenmat_to_sptensor M2) = nz /\
    full v0 (sptenmat_to_sptensor M2) = T.
Proof. exact (chain_correct V v0 v1 vadd vmul vsub vopp isz Vring isz_spec). Qed.

Theorem C01_sum_impl_shape_guard : forall (a : dense V) (q : part4 V) b,
  part4_full v0 vadd vmul isz q = Some b -> dshape a <> dshape b -> iadd_part v0 vadd vmul isz (Some a) q = None.
Proof. exact (sum_full_code_shape_mismatch V v0 vadd vmul isz). Qed.
End C01w4.

Print Assumptions C01_sum_impl.
Print Assumptions C01_sum_impl_shape_guard.
Print Assumptions C01_chain.

Example C01_example_sum_impl :
  (* 2x2: a dense part, a sparse part (stored in reversed order), a rank-0 Kruskal part, a rank-1 Kruskal part, a Tucker part
     with a 1x1 sparse core *)
  let parts := [QD (mkDense [2; 2] [1; 2; 3; 4]%Z); QS (mkSp [2; 2] [[1; 1]; [0; 1]] [5; 7]%Z);
                QK (mkK [] [[[]; []]; [[]; []]]); QK (mkK [2%Z] [[[1]; [2]]; [[3]; [1]]]%Z);
                QTS (mkSp [1; 1] [[0; 0]] [2%Z]) [[[1]; [0]]; [[1]; [1]]]%Z] in
  sum_full_code 0%Z Z.add Z.mul (Z.eqb 0) parts = Some (mkDense [2; 2] [9; 14; 14; 13]%Z) /\
  sum_full 0%Z 1%Z Z.add Z.mul (map (part4_spec 0%Z) parts) = Some (mkDense [2; 2] [9; 14; 14; 13]%Z) /\
  iadd_part 0%Z Z.add Z.mul (Z.eqb 0) (Some (mkDense [2; 2] [1; 2; 3; 4]%Z)) (QD (mkDense [4] [1; 2; 3; 4]%Z)) = None /\
  (* the chain on a 2x3 tensor: rows = mode 1, then the sparse matricisation with everything in the columns *)
  let T := mkDense [2; 3] [0; 5; 0; 0; 7; 1]%Z in
  option_map (fun M => ddata (tm_data M)) (to_tenmat 0%Z T [1] [0]) = Some [0; 0; 7; 5; 0; 1]%Z /\
  option_map (fun M => (stm_subs M, stm_vals M)) (to_sptenmat_sorted Z.add (Z.eqb 0) (to_sptensor 0%Z (Z.eqb 0) T) [] [1; 0])
    = Some ([[0; 2]; [0; 3]; [0; 5]], [7; 5; 1]%Z) /\
  option_map (fun M => full 0%Z (sptenmat_to_sptensor M)) (to_sptenmat_sorted Z.add (Z.eqb 0) (to_sptensor 0%Z (Z.eqb 0) T) [] [1; 0])
    = Some T.
Proof. repeat split; vm_compute; reflexivity. Qed.

(* ---------------------------------------------------------------------------------------------------------
   Fourth wave — what the objects REPORT, and the branch conditions of ktensor.full, tied to the translator: Gen/GenMethods.v
   holds sptensor.nnz, sptensor.ndims, ktensor.ncomponents, ktensor.ndims GENERATED from pyttb/sptensor.py / ktensor.py on
   every run (`self` = the record of the fields the method reads; sptz_of S = subscript array and shape of S). *)

(* the generated nnz / ndims of any in-bounds coordinate list of an N >= 1 way shape are the model's nnz and N; for the result
   of tensor.to_sptensor the reported nonzero count is the number of nonzero entries of the dense tensor *)
Theorem C01_reports_generated : forall (V : Type) (v0 : V) (isz : V -> bool),
  (forall (S : sparse V) (vals : NpZ.vec), Forall (fun j => inb (sshape S) j = true) (ssubs S) -> 1 <= length (sshape S) ->
     PV.Gen.GenMethods.sptensor_nnz (C01GenMeth.sptz_of S vals) = NpZ.Ok (Z.of_nat (nnz S)) /\
     PV.Gen.GenMethods.sptensor_ndims (C01GenMeth.sptz_of S vals) = NpZ.Ok (Z.of_nat (length (sshape S)))) /\
  (forall (T : dense V) (vals : NpZ.vec), wf_dense T -> 1 <= length (dshape T) ->
     PV.Gen.GenMethods.sptensor_nnz (C01GenMeth.sptz_of (to_sptensor v0 isz T) vals)
       = NpZ.Ok (Z.of_nat (length (filter (fun v => negb (isz v)) (ddata T))))).
Proof. exact (fun V v0 isz => conj (@C01GenMeth.sptensor_reports_generated V) (@C01GenMeth.to_sptensor_nnz_generated V v0 isz)). Qed.

(* ktensor.full with `self.ncomponents == 0` / `self.ndims == 1` read through the GENERATED properties and both Khatri-Rao
   products through the GENERATED khatrirao: the specified dense tensor, every integer Kruskal tensor, every rank *)
Theorem C01_kruskal_generated_methods :
  (forall K : ktensor Z, C01GenMeth.ktensor_full_gen2 K = C01GenKr.ktensor_full_gen K) /\
  (forall K : ktensor Z, rows_ok Z (krank K) (kfactors K) -> Forall (fun A => A <> []) (kfactors K) -> 1 <= length (kfactors K) ->
     C01GenMeth.ktensor_full_gen2 K = Some (ktensor_full_spec 0%Z 1%Z Z.add Z.mul K)).
Proof. exact (conj C01GenMeth.ktensor_full_gen2_eq C01GenMeth.ktensor_full_gen2_correct). Qed.

Print Assumptions C01_reports_generated.
Print Assumptions C01_kruskal_generated_methods.

Example C01_example_generated_methods :
  PV.Gen.GenMethods.sptensor_nnz (C01GenMeth.sptz_of (to_sptensor 0%Z (Z.eqb 0) (mkDense [2; 3] [0; 5; 0; 0; 7; 1]%Z)) []) = NpZ.Ok 3%Z /\
  PV.Gen.GenMethods.sptensor_ndims (C01GenMeth.sptz_of (to_sptensor 0%Z (Z.eqb 0) (mkDense [2; 3] [0; 5; 0; 0; 7; 1]%Z)) []) = NpZ.Ok 2%Z /\
  C01GenMeth.ktensor_full_gen2 (mkK [2; 3]%Z [[[1; 2]; [3; 4]]; [[5; 6]; [7; 8]; [9; 1]]]%Z)
    = Some (mkDense [2; 3] [46; 102; 62; 138; 24; 66]%Z) /\
  C01GenMeth.ktensor_full_gen2 (mkK [] [[[]; []; []]; [[]; []]]) = Some (mkDense [3; 2] [0; 0; 0; 0; 0; 0]%Z) /\
  C01GenMeth.ktensor_full_gen2 (mkK [2; 3]%Z [[[1; 2]; [3; 4]; [5; 6]]%Z]) = Some (mkDense [3] [8; 18; 28]%Z).
Proof. exact C01GenMeth.c01_gen_meth_example. Qed.

(* ---------------------------------------------------------------------------------------------------------
   Fourth wave — the matricisation REQUEST theorems over the GENERATED gather_wrap_dims (Gen/GenUtils2.v): for every admissible
   request (rdims only, cdims only, both, the fc / bc / t conventions) the generated function answers Ok (r, c) with (r, c) an
   ordered partition of the modes, and tensor.to_tenmat / sptensor.to_sptenmat along that answer obey the position law and convert
   back to the identical object; a request the generated function rejects yields no object. *)
Theorem C01_tenmat_request_generated : forall (V : Type) (v0 : V) (T : dense V) rd cd cy,
  wf_dense T -> request_ok (length (dshape T)) rd cd ->
  exists r c M,
    PV.Gen.GenUtils2.gather_wrap_dims (Z.of_nat (length (dshape T))) (option_map C01GenBridge.zv rd) (option_map C01GenBridge.zv cd)
      (option_map C01GenBridge.cyc_gen cy) = NpZ.Ok (C01GenBridge.zv r, C01GenBridge.zv c) /\
    is_perm (r ++ c) (length (dshape T)) /\
    to_tenmat_req v0 T rd cd cy = Some M /\ to_tenmat v0 T r c = Some M /\
    tm_r M = r /\ tm_c M = c /\ tm_tshape M = dshape T /\
    wf_dense (tm_data M) /\ dshape (tm_data M) = [size (pick 0 r (dshape T)); size (pick 0 c (dshape T))] /\
    (forall i, inb (dshape T) i = true -> den_tenmat v0 M i = den_dense v0 T i) /\
    tenmat_to_tensor v0 M = T.
Proof. exact (@C01GenReq.to_tenmat_request_generated). Qed.

Theorem C01_sptenmat_request_generated : forall (V : Type) (v0 : V) (isz : V -> bool) (S : sparse V) rd cd cy,
  request_ok (length (sshape S)) rd cd -> Forall (fun j => inb (sshape S) j = true) (ssubs S) ->
  exists r c M,
    PV.Gen.GenUtils2.gather_wrap_dims (Z.of_nat (length (sshape S))) (option_map C01GenBridge.zv rd) (option_map C01GenBridge.zv cd)
      (option_map C01GenBridge.cyc_gen cy) = NpZ.Ok (C01GenBridge.zv r, C01GenBridge.zv c) /\
    is_perm (r ++ c) (length (sshape S)) /\
    to_sptenmat_req S rd cd cy = Some M /\ to_sptenmat S r c = Some M /\
    stm_r M = r /\ stm_c M = c /\ stm_tshape M = sshape S /\ stm_vals M = svals S /\ length (stm_subs M) = nnz S /\
    (wf_sp isz S -> wf_sp isz (stm_sp M)) /\
    (forall i, inb (sshape S) i = true -> den_sptenmat v0 M i = den_sp v0 S i) /\
    sptenmat_to_sptensor M = S.
Proof. exact (@C01GenReq.to_sptenmat_request_generated). Qed.

Theorem C01_request_rejected_generated : forall (V : Type) (v0 : V) (T : dense V) (S : sparse V) rd cd cy,
  (PV.Gen.GenUtils2.gather_wrap_dims (Z.of_nat (length (dshape T))) (option_map C01GenBridge.zv rd) (option_map C01GenBridge.zv cd)
      (option_map C01GenBridge.cyc_gen cy) = NpZ.Err <-> gather_wrap_dims (length (dshape T)) rd cd cy = None) /\
  (PV.Gen.GenUtils2.gather_wrap_dims (Z.of_nat (length (dshape T))) (option_map C01GenBridge.zv rd) (option_map C01GenBridge.zv cd)
      (option_map C01GenBridge.cyc_gen cy) = NpZ.Err -> to_tenmat_req v0 T rd cd cy = None) /\
  (PV.Gen.GenUtils2.gather_wrap_dims (Z.of_nat (length (sshape S))) (option_map C01GenBridge.zv rd) (option_map C01GenBridge.zv cd)
      (option_map C01GenBridge.cyc_gen cy) = NpZ.Err -> to_sptenmat_req S rd cd cy = None).
Proof. exact (@C01GenReq.request_rejected_generated). Qed.

Print Assumptions C01_tenmat_request_generated.
Print Assumptions C01_sptenmat_request_generated.
Print Assumptions C01_request_rejected_generated.

Example C01_example_request_generated :
  let T := mkDense [2; 3; 2] [1; 2; 3; 4; 5; 6; 7; 8; 9; 10; 11; 12]%Z in
  PV.Gen.GenUtils2.gather_wrap_dims 3%Z (Some [1%Z]) None (Some NpZ2.CycBC) = NpZ.Ok ([1%Z], [0; 2]%Z) /\
  option_map (fun M => (tm_r M, tm_c M, ddata (tm_data M))) (to_tenmat_req 0%Z T (Some [1]) None (Some CycBC))
    = Some ([1], [0; 2], [1; 3; 5; 2; 4; 6; 7; 9; 11; 8; 10; 12]%Z) /\
  PV.Gen.GenUtils2.gather_wrap_dims 3%Z None None None = NpZ.Err /\ to_tenmat_req 0%Z T None None None = None.
Proof. exact C01GenReq.c01_gen_req_example. Qed.
