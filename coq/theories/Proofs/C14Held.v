(* Proofs/C14Held.v — the Gram matrix of a sparse / Tucker holder of element type B, formed after the conversion to V, is gram_spec of the
   converted denotation (sptensor.nvecs / ttensor.nvecs since /repo 6aef7c8 / 4b7dc0e: findings C14-F4 / C14-F5 repaired). *)
From Coq Require Import List Arith Lia Bool Ring ZArith.
From PV Require Import Base.Index Base.Sum Np.Array Model.Sparse Model.Repr Model.C01Conv Model.C01Coo Model.C14Nvecs Model.C14Gram
  Model.C14Unfold Model.C14SpPath Model.C14Held Proofs.C14Sums Proofs.C14Split Proofs.C14GramSp Proofs.C14GramT Proofs.C14Unfold
  Proofs.C14Coo Proofs.C14SpPath.
Import ListNotations.

Section HeldProofs.
Variable V : Type.
Variables (v0 v1 : V) (vadd vmul vsub : V -> V -> V) (vopp : V -> V).
Hypothesis Vring : ring_theory v0 v1 vadd vmul vsub vopp (@eq V).
Variable isz : V -> bool.
Variables (B : Type) (b0 : B) (dbl : B -> V).
Hypothesis dbl0 : dbl b0 = v0.

Lemma last_match_map (i : idx) : forall (es : list (idx * B)) (d : B),
  last_match i (map (fun e => (fst e, dbl (snd e))) es) (dbl d) = dbl (last_match i es d).
Proof.
  induction es as [|[j v] es IH]; intros d; [reflexivity|]. cbn [map last_match fst snd].
  destruct (idx_eqb i j); apply IH.
Qed.

Lemma sp_double_den (S : sparse B) (i : idx) : den_sp v0 (sp_double dbl S) i = dbl (den_sp b0 S i).
Proof.
  unfold den_sp, entries, sp_double. cbn [ssubs svals]. rewrite <- dbl0, <- last_match_map. f_equal.
  generalize (svals S). induction (ssubs S) as [|j l IH]; intros [|v vs]; cbn [map combine fst snd]; try reflexivity. now rewrite IH.
Qed.

(* sptensor.nvecs with the conversion in front of the product: accepted on the whole domain of C14_gram_sparse_code and the matrix handed
   to the solver is the Gram matrix IN V of the converted entries *)
Theorem gram_sp_held_spec (S : sparse B) (n a b : nat) :
  let s := sshape S in
  wf_sp isz (sp_double dbl S) -> n < length s -> ~ (nth n s 0 = 1 /\ size (remove_nth n s) = 1) -> a < nth n s 0 -> b < nth n s 0 ->
  exists Y, gram_sp_code_path v0 vadd vmul (sp_double dbl S) n = Some Y /\
    Y = gram_sp_impl v0 vadd vmul (sp_double dbl S) n /\
    mget v0 Y a b = gram_spec v0 vadd vmul s (fun i => dbl (den_sp b0 S i)) n a b.
Proof.
  intros s W Hn Hns Ha Hb. pose proof W as (HL & _ & Hin & _).
  exists (gram_sp_impl v0 vadd vmul (sp_double dbl S) n). split.
  - apply (gram_sp_code_path_eq V v0 vadd vmul (sp_double dbl S) n Hn HL Hin Hns).
  - split; [reflexivity|].
    rewrite (gram_sparse V v0 v1 vadd vmul vsub vopp Vring isz (sp_double dbl S) n a b W Hn Ha Hb).
    unfold gram_spec. cbn [sp_double sshape]. apply sum_over_ext. intros i _. now rewrite !sp_double_den.
Qed.

(* ttensor.nvecs on converted holders: the matrix handed to the solver is gram_spec of the Tucker tensor the CONVERTED core and factors
   denote in V *)
Theorem gram_t_held_spec (T : ttensor B) (n a b : nat) :
  let T' := tt_double dbl T in
  wf_dense (tcore T') -> wf_tucker V T' -> n < length (tfactors T') ->
  a < nrows (nth n (tfactors T') []) -> b < nrows (nth n (tfactors T') []) ->
  gram_t_tm v0 vadd vmul T' n = Some (gram_t_impl v0 v1 vadd vmul T' n) /\
  mget v0 (gram_t_impl v0 v1 vadd vmul T' n) a b = gram_spec v0 vadd vmul (tshape T') (den_t v0 v1 vadd vmul T') n a b.
Proof.
  intros T' Wc W Hn Ha Hb. split.
  - apply (gram_t_tm_eq V v0 v1 vadd vmul vsub vopp Vring T' n Wc W Hn).
  - apply (gram_tucker V v0 v1 vadd vmul vsub vopp Vring T' n a b W Hn Ha Hb).
Qed.
End HeldProofs.

(* uint8-like vals (arithmetic modulo 256): after the conversion the Gram matrix is 40009 / 20021 / 10049, in the holder's own type 73 / 53 / 65 *)
Example gram_sp_held_example :
  let S := mkSp [2; 2] [[0; 0]; [1; 0]; [0; 1]; [1; 1]] [200; 3; 100; 7]%Z in
  gram_sp_code_path 0%Z Z.add Z.mul (sp_double (fun x : Z => x) S) 1 = Some [[40009; 20021]; [20021; 10049]]%Z /\
  gram_sp_code_path 0%Z (fun x y => (x + y) mod 256)%Z (fun x y => (x * y) mod 256)%Z S 1 = Some [[73; 53]; [53; 65]]%Z.
Proof. vm_compute. repeat split. Qed.
