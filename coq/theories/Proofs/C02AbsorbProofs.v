(* Proofs/C02AbsorbProofs.v — "Kruskal operand with its weights applied": the defining sum with weights lam equals the defining sum
   with unit weights over the factor list produced by get_mttkrp_factors (weights absorbed into a non-skipped factor).  A statement
   about spec_mttkrp, hence valid for every representation of the data; sums of parts are linear. *)
From Coq Require Import List Arith Lia Bool Permutation Ring.
From PV Require Import Base.Index Base.Perm Base.Sum Np.Array Model.Sparse Model.Repr Model.C02Spec Model.C02Dense Model.C02Absorb
                       Proofs.C02DenseProofs.
Import ListNotations.

Section P.
Variable V : Type.
Variables (v0 v1 : V) (vadd vmul vsub : V -> V -> V) (vopp : V -> V).
Hypothesis Vring : ring_theory v0 v1 vadd vmul vsub vopp (@eq V).
Add Ring Vr8 : Vring.

Local Notation "x + y" := (vadd x y).
Local Notation "x * y" := (vmul x y).
Local Notation So := (sum_over v0 vadd).
Local Notation kp := (kprod v0 v1 vmul).

Lemma mget_scale_cols R (w : list V) (A : @matrix V) k r : wf_cols V R A -> length w = R -> r < R ->
  mget v0 (scale_cols vmul w A) k r = mget v0 A k r * nth r w v0.
Proof.
  intros WA Hw Hr. unfold mget, scale_cols.
  destruct (Nat.lt_ge_cases k (length A)) as [Hk|Hk].
  - set (g := fun row : list V => zipmul vmul row w).
    rewrite (nth_indep _ [] (g [])) by (now rewrite map_length). rewrite (map_nth g). unfold g.
    apply (nth_zipmul V v0 vmul); [rewrite (wf_cols_nth V R A k WA Hk)|]; lia.
  - rewrite !nth_overflow with (n := k) by (rewrite ?map_length; lia). destruct r; cbn; ring.
Qed.

(* the factor list handed to the kernels after get_mttkrp_factors: the first of the non-skipped factors is column-scaled *)
Lemma remove_at_absorb (lam : list V) (Us : list (@matrix V)) n : 2 <= length Us -> n < length Us ->
  exists U0 rest, remove_at n Us = U0 :: rest /\
                  remove_at n (get_mttkrp_factors_k vmul lam Us n) = scale_cols vmul lam U0 :: rest.
Proof.
  intros HN Hn. unfold get_mttkrp_factors_k, absorb_mode.
  destruct Us as [|A [|B Us]]; cbn [length] in HN; try lia.
  destruct n as [|n]; cbn [Nat.eqb nth upd].
  - exists B, Us. split; reflexivity.
  - exists A, (remove_at n (B :: Us)). split; reflexivity.
Qed.

Theorem spec_mttkrp_absorb (f : idx -> V) s n (lam : list V) (Us : list (@matrix V)) R x r :
  2 <= length Us -> n < length Us -> length s = length Us ->
  Forall (wf_cols V R) (remove_at n Us) -> length lam = R -> r < R ->
  spec_mttkrp v0 v1 vadd vmul f s n (repeat v1 R) (get_mttkrp_factors_k vmul lam Us n) x r =
  spec_mttkrp v0 v1 vadd vmul f s n lam Us x r.
Proof.
  intros HN Hn Hs HW Hl Hr. unfold spec_mttkrp.
  destruct (remove_at_absorb lam Us n HN Hn) as (U0 & rest & E1 & E2). rewrite E1, E2.
  rewrite E1 in HW. inversion HW as [|? ? W0 _]; subst.
  apply sum_over_ext. intros j Hj.
  rewrite nth_indep with (d' := v1) by (now rewrite repeat_length). rewrite nth_repeat.
  destruct j as [|k j]; cbn [kprod].
  { exfalso. apply in_allsubs, inb_length in Hj. cbn [length] in Hj. pose proof (remove_at_length n s ltac:(lia)). lia. }
  rewrite (mget_scale_cols (length lam)) by auto. ring.
Qed.

(* ---------------------------------------------------------------- sums of parts: the defining sums are linear in the data *)
Lemma den_parts_cons (p : idx -> V) parts i : den_parts v0 vadd (p :: parts) i = p i + den_parts v0 vadd parts i.
Proof. unfold den_parts, den_sum. apply sum_over_cons. Qed.

Theorem spec_innerprod_sum (parts : list (idx -> V)) (g : idx -> V) s :
  spec_innerprod v0 vadd vmul (den_parts v0 vadd parts) g s =
  So parts (fun p => spec_innerprod v0 vadd vmul p g s).
Proof.
  unfold spec_innerprod. induction parts as [|p parts IH].
  - rewrite sum_over_nil. apply (sum_over_zero _ _ _ _ _ _ _ Vring). intros i _. unfold den_parts, den_sum. rewrite sum_over_nil. ring.
  - rewrite sum_over_cons, <- IH, <- (sum_over_add _ _ _ _ _ _ _ Vring). apply sum_over_ext. intros i _.
    rewrite den_parts_cons. ring.
Qed.

Theorem spec_mttkrp_sum (parts : list (idx -> V)) s n lam Us x r :
  spec_mttkrp v0 v1 vadd vmul (den_parts v0 vadd parts) s n lam Us x r =
  So parts (fun p => spec_mttkrp v0 v1 vadd vmul p s n lam Us x r).
Proof.
  unfold spec_mttkrp. induction parts as [|p parts IH].
  - rewrite sum_over_nil. apply (sum_over_zero _ _ _ _ _ _ _ Vring). intros i _. unfold den_parts, den_sum. rewrite sum_over_nil. ring.
  - rewrite sum_over_cons, <- IH, <- (sum_over_add _ _ _ _ _ _ _ Vring). apply sum_over_ext. intros i _.
    rewrite den_parts_cons. ring.
Qed.

Lemma sum_modes_add sizes : forall vs (g h : idx -> V),
  sum_modes v0 vadd vmul sizes vs (fun ks => g ks + h ks) =
  sum_modes v0 vadd vmul sizes vs g + sum_modes v0 vadd vmul sizes vs h.
Proof.
  induction sizes as [|d sizes IH]; intros [|v vs] g h; cbn [sum_modes]; try reflexivity.
  unfold sum_n. rewrite <- (sum_over_add _ _ _ _ _ _ _ Vring). apply sum_over_ext. intros k _.
  rewrite IH. ring.
Qed.

Lemma sum_modes_zero sizes : forall vs, sum_modes v0 vadd vmul sizes vs (fun _ => v0) = v0.
Proof.
  induction sizes as [|d sizes IH]; intros [|v vs]; cbn [sum_modes]; try reflexivity.
  apply (sum_over_zero _ _ _ _ _ _ _ Vring). intros k _. rewrite IH. ring.
Qed.

Lemma sum_modes_ext0 sizes : forall vs (g h : idx -> V), (forall ks, g ks = h ks) ->
  sum_modes v0 vadd vmul sizes vs g = sum_modes v0 vadd vmul sizes vs h.
Proof.
  induction sizes as [|d sizes IH]; intros [|v vs] g h H; cbn [sum_modes]; try apply H.
  apply sum_n_ext. intros k _. f_equal. apply IH. intros ks. apply H.
Qed.

Theorem spec_ttv_sum (parts : list (idx -> V)) s dims vs i' :
  spec_ttv v0 vadd vmul (den_parts v0 vadd parts) s dims vs i' =
  So parts (fun p => spec_ttv v0 vadd vmul p s dims vs i').
Proof.
  unfold spec_ttv. induction parts as [|p parts IH].
  - rewrite sum_over_nil.
    transitivity (sum_modes v0 vadd vmul (pick 0 dims s) vs (fun _ => v0)); [|apply sum_modes_zero].
    apply sum_modes_ext0. intros ks. unfold den_parts, den_sum. apply sum_over_nil.
  - rewrite sum_over_cons, <- IH, <- sum_modes_add.
    apply sum_modes_ext0. intros ks. apply den_parts_cons.
Qed.

End P.
