(* Proofs/C15Dense.v — wave 4: the container-level executions of Model/C15Dense.v (one materialised array per group /
   per max-fix round, as in pyttb and as evaluated by the generated correspondence cases) denote the spec average:
   the tabulate / den round trip between the steps loses nothing, because every step reads its input only at in-bounds
   subscripts (class members, sorted exemplars and permuted subscripts of an in-bounds subscript are in bounds when the
   groups are cubical). *)
From Coq Require Import List Arith Lia Bool Permutation Ring.
From PV Require Import Base.Index Base.Perm Base.Sum Np.Array Model.Sparse Model.Repr Model.C15Sym Model.C15Impl
  Model.C15Dense Proofs.C15Proofs Proofs.C15Orbit Proofs.C15ImplProofs Proofs.C15Old.
Import ListNotations.

(* ------------------------------------------------------------------------------------------------ *)
(* the rows of sym_perms move every mode to a mode of the same size (cubical groups)                 *)
(* ------------------------------------------------------------------------------------------------ *)
Lemma sym_perms_sizes s G : groups_ok (length s) G -> (forall g, In g G -> group_cubical s g = true) ->
  forall p, In p (sym_perms (length s) G) -> forall k, k < length s -> nth (nth k p 0) s 0 = nth k s 0.
Proof.
  induction G as [|g G IH]; intros HG Hc p Hp k Hk.
  - cbn in Hp. destruct Hp as [<-|[]]. now rewrite seq_nth.
  - destruct HG as (Hok & D & HG). cbn in Hp. apply in_flat_map in Hp as (p' & Hp' & Hp).
    apply in_map_iff in Hp as (gp & <- & Hgp).
    destruct (sym_perms_row_ok _ G HG p' Hp') as [Hperm Hfix].
    pose proof (perms_sound g gp Hgp) as P. pose proof (Permutation_length P) as HL.
    pose proof (is_perm_length _ _ Hperm) as HpL.
    pose proof (cubical_sizes s g (Hc g (or_introl eq_refl))) as Hd.
    destruct (in_dec Nat.eq_dec k g) as [Hin|Hout].
    + destruct (In_nth g k 0 Hin) as (t & Ht & <-).
      rewrite nth_put_in; [|now rewrite HpL|lia|exact Ht].
      rewrite (Hd (nth t gp 0)); [now rewrite (Hd (nth t g 0)) by (apply nth_In; lia)|].
      eapply Permutation_in; [symmetry; exact P|]. apply nth_In. lia.
    + rewrite nth_put_out by exact Hout. apply IH; auto. intros g' Hg'. apply Hc. now right.
Qed.

(* X.permute(p) reads an in-bounds subscript when p moves modes to modes of the same size *)
Lemma inb_put_perm s p i : is_perm p (length s) -> (forall k, k < length s -> nth (nth k p 0) s 0 = nth k s 0) ->
  inb s i = true -> inb s (put p i i) = true.
Proof.
  intros Hp Hsz Hi. apply inb_nth in Hi as [HL Hn]. apply inb_nth. split; [now rewrite length_put|].
  intros m Hm. pose proof (is_perm_length _ _ Hp) as HpL.
  assert (Hin : In m p) by (now apply (is_perm_In p (length s) m Hp)).
  destruct (In_nth p m 0 Hin) as (t & Ht & <-).
  rewrite nth_put_in; [|rewrite HL; now apply is_perm_okg|lia|exact Ht].
  rewrite Hsz by lia. apply Hn. lia.
Qed.

Section Dense15.
Variable V : Type.
Variables (v0 v1 : V) (vadd vmul vsub : V -> V -> V) (vopp vinv : V -> V) (veqb : V -> V -> bool).
Hypothesis Vring : ring_theory v0 v1 vadd vmul vsub vopp (@eq V).
Hypothesis veqb_spec : forall a b, veqb a b = true <-> a = b.
Notation ofn := (of_nat v0 v1 vadd).
Notation symg := (sym_group v0 v1 vadd vmul vinv).
Notation ssym := (spec_sym v0 v1 vadd vmul vinv).
Notation den := (den_dense v0).
Hypothesis char0 : forall n, n <> 0 -> ofn n <> v0.
Hypothesis vinv_l : forall x, x <> v0 -> vmul (vinv x) x = v1.

Lemma dshape_sym_new_d G : forall T : dense V, dshape (sym_new_d v0 v1 vadd vmul vinv veqb T G) = dshape T.
Proof. induction G as [|g G IH]; intros T; cbn; auto. unfold sym_new_d in IH. now rewrite IH. Qed.

(* NEW symmetrize on the container: the stored result denotes the spec average of the stored input *)
Theorem sym_new_d_correct (T : dense V) G :
  (forall g, In g G -> okg (length (dshape T)) g /\ group_cubical (dshape T) g = true) ->
  forall i, inb (dshape T) i = true ->
  den (sym_new_d v0 v1 vadd vmul vinv veqb T G) i = ssym (den T) G i.
Proof.
  intros HG.
  assert (Hgen : forall (T' : dense V) (Y : idx -> V), dshape T' = dshape T ->
            (forall j, inb (dshape T) j = true -> den T' j = Y j) ->
            forall i, inb (dshape T) i = true -> den (sym_new_d v0 v1 vadd vmul vinv veqb T' G) i = ssym Y G i).
  2:{ intros i Hi. now apply Hgen. }
  induction G as [|g G IH]; intros T' Y Hs H i Hi; [now apply H|].
  destruct (HG g (or_introl eq_refl)) as [Hok Hc].
  cbn [sym_new_d fold_left spec_sym]. apply (IH (fun g' Hg' => HG g' (or_intror Hg'))); auto.
  intros j Hj. unfold sym_new_step. rewrite Hs, den_tabulate by exact Hj.
  rewrite (sym_new_group_correct V v0 v1 vadd vmul vsub vopp vinv veqb Vring veqb_spec char0 vinv_l) by auto.
  now apply (sym_group_ext_inb V v0 v1 vadd vmul vinv (dshape T)).
Qed.

(* ... and is a well-formed container of the same shape, so it IS the tabulated spec *)
Theorem sym_new_d_tabulate (T : dense V) G : wf_dense T ->
  (forall g, In g G -> okg (length (dshape T)) g /\ group_cubical (dshape T) g = true) ->
  sym_new_d v0 v1 vadd vmul vinv veqb T G = tabulate (dshape T) (ssym (den T) G).
Proof.
  intros W HG. apply (dense_ext v0).
  - destruct G as [|g G]; [exact W|]. clear HG W. revert T g. induction G as [|g' G IH]; intros T g.
    + cbn. apply wf_tabulate.
    + change (sym_new_d v0 v1 vadd vmul vinv veqb T (g :: g' :: G))
        with (sym_new_d v0 v1 vadd vmul vinv veqb (sym_new_step v0 v1 vadd vmul vinv veqb T g) (g' :: G)). apply IH.
  - apply wf_tabulate.
  - now rewrite dshape_sym_new_d, dshape_tabulate.
  - intros i Hi. rewrite dshape_sym_new_d in Hi. rewrite den_tabulate by exact Hi. now apply sym_new_d_correct.
Qed.

Section MaxFixD.
Variable vmax : V -> V -> V.
Hypothesis vmax_idem : forall a, vmax a a = a.

(* OLD symmetrize on the container: one materialised array per max-fix round *)
Theorem sym_old_d_correct (T : dense V) G : groups_ok (length (dshape T)) G ->
  (forall g, In g G -> group_cubical (dshape T) g = true) ->
  sym_old_d v0 v1 vadd vmul vinv vmax T G = tabulate (dshape T) (ssym (den T) G).
Proof.
  intros HG Hc. unfold sym_old_d. set (s := dshape T). set (N := length s). set (Z := ssym (den T) G).
  assert (H0 : tabulate s (sym_old_avg v0 v1 vadd vmul vinv N (den T) G) = tabulate s Z).
  { apply tabulate_ext. intros i Hi. apply (old_avg_spec V v0 v1 vadd vmul vsub vopp vinv Vring char0 vinv_l); auto.
    now apply inb_length. }
  rewrite H0.
  assert (Hrows : forall p, In p (sym_perms N G) -> forall i, inb s i = true ->
            inb s (put p i i) = true /\ Z (put p i i) = Z i).
  { intros p Hp i Hi. destruct (sym_perms_row_ok N G HG p Hp) as [Hperm _]. split.
    - apply inb_put_perm; auto. now apply (sym_perms_sizes s G).
    - apply (sym_row_invariant V N G HG); auto; [|now apply inb_length].
      intros g Hg. now apply (spec_sym_symmetric V v0 v1 vadd vmul vsub vopp vinv (fun _ _ => true) Vring N G HG). }
  revert Hrows. generalize (sym_perms N G). intros ps. induction ps as [|p ps IH]; intros Hrows; cbn [fold_left]; auto.
  assert (E : tabulate s (maxfix_step vmax (den (tabulate s Z)) p) = tabulate s Z).
  { apply tabulate_ext. intros i Hi. destruct (Hrows p (or_introl eq_refl) i Hi) as [Hb Hz].
    unfold maxfix_step, permuted. rewrite !den_tabulate by auto. rewrite Hz. apply vmax_idem. }
  rewrite E. apply IH. intros q Hq. apply Hrows. now right.
Qed.

(* "the two implementations of each dense operation agree with each other", on the stored containers *)
Theorem sym_d_versions_agree (T : dense V) G : wf_dense T -> groups_ok (length (dshape T)) G ->
  (forall g, In g G -> group_cubical (dshape T) g = true) ->
  sym_new_d v0 v1 vadd vmul vinv veqb T G = sym_old_d v0 v1 vadd vmul vinv vmax T G.
Proof.
  intros W HG Hc. rewrite sym_old_d_correct by auto. apply sym_new_d_tabulate; auto.
  intros g Hg. split; [eapply groups_ok_okg; eauto|auto].
Qed.
End MaxFixD.

(* the symmetry tests on the container: both versions compute the spec test of the denoted array *)
Theorem issym_d_correct (T : dense V) G : (forall g, In g G -> okg (length (dshape T)) g) ->
  issym_new_d v0 veqb T G = spec_issym veqb (dshape T) (den T) G /\
  issym_old_d v0 veqb T G = spec_issym veqb (dshape T) (den T) G.
Proof.
  intros HG. split.
  - now apply (impl_issym_new_correct V veqb veqb_spec).
  - now apply (impl_issym_old_correct V veqb veqb_spec).
Qed.

(* "the result passes the symmetry test" on the container: the stored result of NEW symmetrize passes the spec test *)
End Dense15.
