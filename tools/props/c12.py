"""C12 — GCP losses, gradients and their tensor-level evaluation are mutually consistent (DESIGN §C12)."""
import math
from fractions import Fraction

from vcheck import Case, gz, gzlist, gnlist, gnmat, gnat, gopt, gq
import tgen
from props import c12_util as U

PROP = "C12"
LEVEL = "proof"
GEN_UNITS = ["GenHandles", "GenFgSetup", "GenKernels", "GenKernels3"]
COQ_TARGETS = ["Props/C12.vo", "Model/C12Harness.vo", "Proofs/C12Mttkrps.vo", "Proofs/C12Setup.vo", "Proofs/C12GenTie.vo", "Proofs/C12Reshape.vo", "Proofs/C12KrTie.vo", "Proofs/C12GenMttv.vo", "Proofs/C12GenMttvPy.vo", "Proofs/C12EvalBytes.vo", "Proofs/C12HandleNum.vo", "Proofs/C12EstLine.vo", "Model/Harness.vo"]
THEOREM_FILES = ["Props/C12.v"]
COQ_IMPORTS = ("From Coq Require Import List ZArith Bool QArith Qcanon.\n"
               "From PV Require Import Base.Index Np.Array Model.Sparse Model.Repr Model.Harness Model.C12Gcp Model.C12Harness Proofs.C12Mttkrps Proofs.C12Reshape Proofs.C12GenMttv Proofs.C12GenMttvPy Proofs.C12EvalBytes Proofs.C12HandleNum Proofs.C12EstLine.\nFrom PV Require Np.NpZ.\n"
               "Set Warnings \"-ambiguous-paths\".\nFrom PV Require Import Proofs.C12Setup.\n")
RULE = ("N-way shapes (N = 2..4, sizes 1..4, singleton modes, <= 48 cells) plus skewed 4-way shapes on both sides of min_split "
        "((6,2,2,3), (2,2,3,8), (4,1,2,2), (2,2,2,5)) and 5-way shapes, ranks 1..3, integer factors / data / masks, "
        "component-weight vectors all-ones / mixed (some exactly 1, some not) / all-non-unit under lambda_check True and False, "
        "4 polynomial (loss, derivative) pairs so float64 results are exact; samples with repeats and correction ranges; "
        "memory layouts (data array C / F / strided view handed to the tensor constructor, factor matrices C / F / strided view, weight "
        "array C / F / view, handles returning C-ordered arrays); weight-array value classes (None, 0/1 float, np.bool_ mask, small integers "
        "incl. 2 and -1, fractional k / 2^e with e = 1..3 — handed to pyttb as fractions, result * 2^e compared with the model on the "
        "numerators, justified by C12_weights_linear_F / _G —, all zero, zero but one cell); degenerate operands (weight arrays all zero / zero but one cell, sparse "
        "data with no stored entry / one entry, exact fits, 1x1 / 3x1 / singleton-mode 5-way shapes, sample sets with 0 / 1 samples / one "
        "subscript repeated, correction range None / all / empty); every returned matrix must be a 2-D array of the size of its factor; "
        "the ten real losses at a grid of rational points through an evaluator of the generated Gallina text; "
        "non-trivial = more than one cell and data and factors not all zero; distinct = distinct (op,args)")
EXPLANATION = ("T1 theorems are stated over Gen/GenHandles.v, regenerated from pyttb/gcp/handles.py on this run. "
               "Numeric tie of the ten real handles: decided in Coq — hnum_check (Proofs/C12HandleNum.v) encloses the GENERATED handle at the rational "
               "point with the Interval library's verified evaluator and accepts pyttb's float only if |handle - value| <= 1e-9 * max(1, |value|) "
               "is proved (C12_handles_numeric); the Python evaluator of the generated text (tools/props/c12_util.py) is kept as a second opinion. fg.evaluate / fg_est.estimate / tensor.mttkrps are compared "
               "exactly (integers) with the executable model Model/C12Gcp.v, about which T2 is proved; op evaluate demands the exact "
               "partial derivatives (weights[r] * MTTKRP column r, C12_gradient_weighted; mismatches on models with component weights "
               "are the known finding C12-W1), op evaluate_struct on the same weighted models checks the objective and 'all modes at once = "
               "per-mode MTTKRPs of the derivative array'; op mttkrps evaluates the byte-level model mttkrps_b (flat F-order list, reshape "
               "index arithmetic, Khatri-Rao row lists; Proofs/C12Reshape.v) at min_split next to the per-mode definition; "
               "estimate_lam = fg_est.estimate on models with all-ones / mixed / all-non-unit component weights under both lambda_check "
               "settings, compared with the exact evaluation of the same model (1e-9, the normalisation introduces square roots); "
               "setup = fg_setup.setup over all ten objectives against the table of Proofs/C12Setup.v.")
CORRESPONDENCE_ONLY = ["fg_setup.setup: the executable acceptance check on concrete data (value classes) is a hand model tied by correspondence; "
                       "the table itself (handles, bound, parameter, which valid_* flag) is proved equal to the generated Gen/GenFgSetup.v",
                       "fg_est.estimate(lambda_check=True): that ktensor.normalize(0) divides every column by its norm and absorbs weight * product of "
                       "norms into mode 0 is read off the source (not generated: square root); that THIS rescaling multiplies to the weights is proved for "
                       "nonzero norms (C12_lambda_normalize0), zero-norm columns and the norms themselves are correspondence (computed by the harness); "
                       "everything downstream is proved for every such rescaling (C12_lambda_values / _estimate / _exact / _mttkrp_scale)",
                       "tensor.mttkrps: mttv_left / mttv_mid / khatrirao / min_split are the translator-GENERATED functions (C12_mttv_left_generated, "
                       "C12_mttv_mid_generated, C12_khatrirao_generated, C12_min_split_generated, C12_mttkrps_generated); what stays a hand transliteration "
                       "tied by correspondence (op mttkrps evaluates mttkrps_g at min_split against pyttb) is the BODY of tensor.mttkrps itself: the two "
                       "initial reshape(data, ...).dot(K) contractions (init_left / init_right) and the two `for` sweeps (sweep_g)",
                       "fg.evaluate: the byte-level form (flat F-order lists of data / model.full() / weights, position-wise Y *= weights, flat sum, "
                       "byte-level mttkrps) is PROVED equal to eval_F / eval_G (C12_evaluate_bytes_F / _G; C12_objective itself only unfolds eval_F); what is "
                       "correspondence: that numpy pairs entries of equal subscript whatever the memory layouts of data / weights / handle results "
                       "(exercised with C / F / strided arrays), and that model.full() is the F-order list of the Kruskal denotation (ktensor.full: C01/C08)",
                       "fg_est.estimate / estimate_helper: the LINE-BY-LINE array-level transliteration (Proofs/C12EstLine.v: Uexp, the two Zexp passes, mvals, "
                       "Y[crng] -= ..., csr_array(...).dot(Zexp[k])) is PROVED to compute the subscript-level models est_F / est_G (C12_estimate_helper_line, "
                       "C12_estimate_F_line, C12_estimate_G_line); what is correspondence: that the transliteration is what numpy / scipy do (fancy row indexing, in-place "
                       "Hadamard products, fancy-index subtraction with repeated indices, csr_array product) — exact integer comparison with pyttb, every layout of the "
                       "subscript array; theorems about est_F / est_G: C12_leave_one_out, C12_estimate_exact, C12_estimate_gradient, C12_lambda_*"]
ASSUMPTIONS = ["models have at least two modes (fg.evaluate and fg_est.estimate raise on 1-way models)",
               "real functions ln/exp/PI are the mathematical ones; EPS is the exact rational 1/10^10; IEEE rounding not modelled"]

NFID = 4


def _finding_open(fid):
    """status of one of C12's own findings (findings.d/C12.jsonl): decides which single behaviour op evaluate_struct demands"""
    import json
    import os
    fn = os.path.join(os.path.dirname(os.path.abspath(__file__)), "..", "..", "findings.d", "C12.jsonl")
    try:
        for line in open(fn):
            if line.strip():
                j = json.loads(line)
                if j.get("finding_id") == fid:
                    return j.get("status", "open") == "open"
    except OSError:
        pass
    return False


# while C12-W1 is open, op evaluate_struct pins what fg.evaluate does on models with component weights (objective + "all modes at once =
# the per-mode MTTKRPs of the derivative array", no weights); once the finding is flipped to fixed it demands the exact partial
# derivatives like op evaluate (ONE accepted behaviour at any time)
W1_OPEN = _finding_open("C12-W1")


def _rand_factors(rng, shape, R, lo=-2, hi=2):
    return [[[rng.randint(lo, hi) for _ in range(R)] for _ in range(d)] for d in shape]


def _mask(rng, mask, n):
    """weight / mask arrays: None, 0/1, small integers, all zero, zero except one cell"""
    if mask is None:
        return None
    if mask == "zero":
        return [0] * n
    if mask == "one0":
        w = [0] * n
        w[rng.randrange(n)] = rng.choice([1, 2, -1])
        return w
    if mask == "frac":          # numerators of a fractional weight array k / 2^e (denominator in args["wden"]): 1/2, 3/4, 5/2, -1/4 ...
        return [rng.randint(-3, 9) for _ in range(n)]
    return [rng.randint(0, 1) if mask in ("01", "bool") else rng.randint(-1, 2) for _ in range(n)]


def _wkind(rng, mask):
    """how the weight array reaches pyttb: float64 (default), np.bool_ mask, or numerators divided by 2^e (fractional / inverse-variance
    weights; exact in float64, result * 2^e compared with the model on the numerators: C12_weights_linear_F / _G)"""
    if mask == "bool":
        return {"wbool": True}
    if mask == "frac":
        return {"wden": rng.choice([2, 4, 8])}
    return {}


def _lay(rng):
    """memory layouts: data array handed to the tensor constructor, factor matrices, weight array, arrays returned by the handles"""
    if rng.random() < 0.4:
        return {"data": "F", "fac": "C", "w": "F", "h": "F"}
    return {"data": rng.choice(["F", "C", "view"]), "fac": rng.choice(["C", "F", "view"]),
            "w": rng.choice(["F", "C", "view"]), "h": rng.choice(["F", "C"])}


def gen_cases(rng, tier):
    big = tier == "thorough"
    cases = []
    shapes = [s for s in tgen.shapes_upto(8, maxn=3, minn=2)]
    shapes += [tuple(tgen.rand_shape(rng, maxn=4, maxcells=48, maxdim=4, minn=2)) for _ in range(60 if big else 14)]
    # >= 4 modes with skewed sizes (min_split = 0 / 2 / 3: two or more matrices in the middle Khatri-Rao product of mttkrps) and 5 modes
    many = [(6, 2, 2, 3), (2, 2, 3, 8), (4, 1, 2, 2), (2, 2, 2, 5), (2, 2, 2, 2, 2), (2, 3, 2, 3, 2), (2, 1, 2, 2, 3), (1, 2, 2, 2, 6)]
    if big:
        many += [(3, 1, 1, 2, 2), (7, 2, 3, 2), (2, 3, 2, 9), (2, 2, 2, 2, 3), (2, 2, 1, 2, 2, 2)]
        many += [tuple(rng.choice([1, 2, 2, 3]) for _ in range(5)) for _ in range(6)]
    shapes += many
    for shp in shapes:
        n = math.prod(shp)
        for rep in range(2 if big else 1):
            R = rng.randint(1, 3) if n <= 48 else rng.randint(1, 2)
            fac = _rand_factors(rng, shp, R)
            lam = [1] * R if rng.random() < 0.6 else [rng.randint(-2, 3) for _ in range(R)]
            data = tgen.rand_dense(rng, shp, rng.choice([0.3, 0.7, 1.0]), -3, 4)
            mask = rng.choice([None, "01", "int", "zero", "one0", "frac", "frac", "bool"])
            w = _mask(rng, mask, n)
            fid = rng.randrange(NFID)
            nt = n > 1 and any(data) and any(any(any(r) for r in A) for A in fac)
            sparse_data = rng.random() < 0.3
            ev = {"shape": list(shp), "R": R, "factors": fac, "lam": lam, "data": data,
                  "w": w, "fid": fid, "sparse": sparse_data, "lay": _lay(rng), **_wkind(rng, mask)}
            cases.append(Case("evaluate", ev, nt))
            if any(x != 1 for x in lam):
                # models with component weights: objective + "all modes at once = the per-mode MTTKRPs of the derivative array"
                # (holds whatever the weights; the derivative clause itself is checked by op evaluate, finding C12-W1)
                cases.append(Case("evaluate_struct", dict(ev), nt))
            # sampled estimator: random sample with repeats, integer weights, optional correction range
            ns = rng.choice([1, 1, 2, 3, 4, 5, 6, 7])
            subs = [[rng.randrange(d) for d in shp] for _ in range(ns)]
            xs = [rng.randint(-3, 4) for _ in range(ns)]
            ws = [rng.randint(-1, 3) for _ in range(ns)]
            crng = None if rng.random() < 0.5 else list(range(rng.randint(0, ns)))
            cases.append(Case("estimate", {"shape": list(shp), "R": R, "factors": fac, "lam": lam, "subs": subs,
                                           "xs": xs, "ws": ws, "crng": crng, "fid": rng.randrange(NFID), "lay": _lay(rng)}, nt))
            # estimator on every subscript once with unit weights == exact evaluation
            cases.append(Case("estimate_full", {"shape": list(shp), "R": R, "factors": fac, "data": data,
                                                "fid": rng.randrange(NFID), "lay": _lay(rng)}, nt))
            cases.append(Case("mttkrps", {"shape": list(shp), "R": R, "factors": fac, "data": data, "lay": _lay(rng)}, nt))
    # degenerate operands: weight arrays that are all zero / zero but one cell, data that are sparse tensors with no stored entry or
    # exactly one, exact fits (data = model values), every memory layout of data / weight array / factor matrices / handle results
    deg_shapes = [(2, 3), (3, 1), (1, 1), (2, 2, 2), (1, 3, 2), (2, 1, 2, 2), (2, 2, 1, 2, 2), (3, 2, 2, 2)]
    for shp in deg_shapes if not big else deg_shapes * 3:
        n = math.prod(shp)
        R = rng.randint(1, 3)
        fac = _rand_factors(rng, shp, R)
        for kind in ("empty", "one", "fit", "dense"):
            if kind == "empty":
                data = [0] * n
            elif kind == "one":
                data = [0] * n
                data[rng.randrange(n)] = rng.choice([-3, 2, 4])
            elif kind == "fit":
                data = [sum(math.prod(A[i[l]][r] for l, A in enumerate(fac)) for r in range(R)) for i in tgen.all_subs(shp)]
            else:
                data = tgen.rand_dense(rng, shp, 1.0, -3, 4)
            for mask in (("zero", "one0", None, "01", "frac", "bool") if big else ("zero", rng.choice(["one0", None, "01", "frac", "bool"]))):
                lay = {"data": rng.choice(["F", "C", "view"]), "fac": rng.choice(["C", "F", "view"]),
                       "w": rng.choice(["F", "C", "view"]), "h": rng.choice(["F", "C"])}
                cases.append(Case("evaluate", {"shape": list(shp), "R": R, "factors": fac, "lam": [1] * R, "data": data,
                                               "w": _mask(rng, mask, n), "fid": rng.randrange(NFID),
                                               "sparse": kind in ("empty", "one") or rng.random() < 0.3, "lay": lay,
                                               **_wkind(rng, mask)}, n > 1))
            lay = {"data": rng.choice(["F", "C", "view"]), "fac": rng.choice(["C", "F", "view"]), "w": "F", "h": "F"}
            cases.append(Case("mttkrps", {"shape": list(shp), "R": R, "factors": fac, "data": data, "lay": lay}, n > 1 and any(data)))
            cases.append(Case("estimate_full", {"shape": list(shp), "R": R, "factors": fac, "data": data,
                                                "fid": rng.randrange(NFID), "lay": lay}, n > 1))
        # sample sets with no sample / one sample / one subscript repeated, with and without the correction range
        for ns, rep in ((0, False), (1, False), (3, True), (2, False)):
            one = [rng.randrange(d) for d in shp]
            subs = [list(one) if rep else [rng.randrange(d) for d in shp] for _ in range(ns)]
            for crng in (None, list(range(ns)), []):
                cases.append(Case("estimate", {"shape": list(shp), "R": R, "factors": fac, "lam": [1] * R, "subs": subs,
                                               "xs": [rng.randint(-3, 4) for _ in range(ns)], "ws": [rng.randint(-1, 3) for _ in range(ns)],
                                               "crng": crng, "fid": rng.randrange(NFID), "lay": _lay(rng)}, ns > 0))
    # former C12-W2 witness (repaired in /repo 3455138): all-ones 2x3 rank-2 model, EMPTY sample set, gradient requested -> zero matrices
    for fid in range(NFID):
        cases.append(Case("estimate", {"shape": [2, 3], "R": 2, "factors": [[[1, 1], [1, 1]], [[1, 1], [1, 1], [1, 1]]], "lam": [1, 1],
                                       "subs": [], "xs": [], "ws": [], "crng": None, "fid": fid, "lay": dict(_DLAY)}, False))
    # fg_est.estimate and the model's component weights: all-ones / mixed / all-non-unit under both lambda_check settings,
    # on the full subscript set with unit sample weights (compared with the exact evaluation of the same model) and on samples
    lam_shapes = [(2, 3), (3, 2, 2), (2, 2, 3), (4, 2), (2, 2, 2, 2), (3, 1, 2)]
    for shp in lam_shapes if not big else lam_shapes * 3 + [(2, 3, 4), (5, 2)]:
        n = math.prod(shp)
        for R in ((2, 3) if not big else (1, 2, 3)):
            for kind in ("ones", "mixed", "mixed", "nonunit"):
                if kind == "ones":
                    lam = [1] * R
                elif kind == "nonunit":
                    lam = [rng.choice([-2, 2, 3, 5]) for _ in range(R)]
                else:
                    lam = [1] + [rng.choice([-3, 2, 3, 4]) for _ in range(R - 1)]
                    rng.shuffle(lam)
                    if R >= 3 and rng.random() < 0.5:
                        lam[rng.randrange(R)] = 1
                    if R == 1:
                        lam = [rng.choice([2, -3])]
                fac = _rand_factors(rng, shp, R, -2, 3)
                if rng.random() < 0.8:          # no all-zero columns most of the time
                    for A in fac:
                        for r in range(R):
                            if not any(row[r] for row in A):
                                A[0][r] = 1
                data = tgen.rand_dense(rng, shp, 0.8, -3, 4)
                for lcheck in (True, False):
                    fid = rng.randrange(NFID)
                    cases.append(Case("estimate_lam", {"shape": list(shp), "R": R, "factors": fac, "lam": lam, "lcheck": lcheck,
                                                       "mode": "full", "data": data, "fid": fid, "kind": kind}, True))
                    ns = rng.randint(2, 6)
                    subs = [[rng.randrange(d) for d in shp] for _ in range(ns)]
                    cases.append(Case("estimate_lam", {"shape": list(shp), "R": R, "factors": fac, "lam": lam, "lcheck": lcheck,
                                                       "mode": "sample", "subs": subs, "xs": [rng.randint(-3, 4) for _ in range(ns)],
                                                       "ws": [rng.randint(-1, 3) for _ in range(ns)],
                                                       "crng": None if rng.random() < 0.5 else list(range(rng.randint(0, ns))),
                                                       "fid": fid, "kind": kind}, True))
    # fg_setup.setup: all ten objectives x (no data / dense / sparse data of every class) x (extra parameter given or not)
    datasets = [None]
    classes = {"binary": [0, 2, 2, 0], "binary1": [2, 2], "natural": [0, 4, 6, 2], "negint": [-2, 4], "positive": [1, 3, 5],
               "with_zero": [3, 0, 2], "negative": [3, -1, 2], "fraction": [2, 1], "big": [2, 4, 14]}
    for nm, hs in classes.items():
        datasets.append({"sparse": False, "halves": hs, "cls": nm})
        if all(h != 0 for h in hs):
            datasets.append({"sparse": True, "halves": hs, "cls": nm})
    for obj in range(10):
        for d in datasets:
            for hp in (True, False):
                cases.append(Case("setup", {"obj": obj, "data": d, "has_param": hp}, True))
    # the ten real losses at rational points (both sides of every switch: huber threshold, data 0/1, m = 0)
    for name in U.HANDLES:
        pts = U.grid(name, rng, 40 if big else 12)
        cases.append(Case("handle", {"name": name, "pts": [[str(Fraction(v)) for v in p] for p in pts]}, True))
    return cases


def _pyfg(fid):
    f = [lambda d, m: (m - d) * (m - d), lambda d, m: m * m * m - 3 * d * m, lambda d, m: d * m * m + m, lambda d, m: m + 0 * d][fid]
    g = [lambda d, m: 2 * (m - d), lambda d, m: 3 * m * m - 3 * d, lambda d, m: 2 * d * m + 1, lambda d, m: 1 + 0 * m + 0 * d][fid]
    return f, g


_DLAY = {"data": "F", "fac": "C", "w": "F", "h": "F"}


def _mat(np, A, R, lay):
    """factor matrix in a given memory layout: C-contiguous (numpy default), F-contiguous (what pyttb holds), strided view"""
    base = np.array(A, dtype=float).reshape((len(A), R))
    if lay == "F":
        return np.asfortranarray(base)
    if lay == "view":
        big = np.full((2 * len(A) + 1, R + 2), 7.0)
        big[1::2, 1:R + 1] = base
        return big[1::2, 1:R + 1]
    return base


def _nd(np, shape, data, lay):
    """N-way array from an F-order value list in a given memory layout"""
    a = tgen.np_dense(np, shape, data)
    if lay == "C":
        return np.ascontiguousarray(a)
    if lay == "view":
        big = np.full((2 * shape[0],) + tuple(shape[1:]), 9.0)
        big[::2] = a
        return big[::2]
    return a


def _subs(np, rows, N, lay):
    s = np.array(rows, dtype=int).reshape((len(rows), N))
    if lay == "F":
        return np.asfortranarray(s)
    if lay == "view" and len(rows):
        big = np.zeros((len(rows), 2 * N), dtype=int)
        big[:, ::2] = s
        return big[:, ::2]
    return s


def _obsG(np, G, shape, R):
    """matrices as returned + whether each one is a 2-D array of the size of its factor matrix"""
    ok = isinstance(G, (list, tuple)) and len(G) == len(shape) and all(
        isinstance(x, np.ndarray) and x.shape == (shape[k], R) for k, x in enumerate(G))
    return [tgen.obs_matrix(np, x) for x in G], bool(ok)


def run_impl(c):
    import logging
    import numpy as np
    import pyttb as ttb
    from pyttb.gcp import fg, fg_est
    logging.disable(logging.WARNING)      # pyttb logs "Selected no copy, but input data isn't F ordered" for C-ordered handle results
    a = c.args
    try:
        if c.op == "handle":
            return {"vals": U.run_handles(a["name"], a["pts"])}
        if c.op == "setup":
            return U.run_setup(a)
        lay = a.get("lay") or _DLAY
        shp, R = a["shape"], a["R"]
        mkfac = lambda: [_mat(np, A, R, lay["fac"]) for A in a["factors"]]
        fac = mkfac()
        if c.op == "mttkrps":
            T = ttb.tensor(_nd(np, shp, a["data"], lay["data"]))
            G = T.mttkrps(mkfac())
            one = [T.mttkrp(mkfac(), k) for k in range(len(shp))]
            from pyttb.tensor import min_split
            oG, ok1 = _obsG(np, G, shp, R)
            o1, ok2 = _obsG(np, one, shp, R)
            return {"G": oG, "one": o1, "split": int(min_split(tuple(shp))), "dims_ok": ok1 and ok2}
        lam = np.array(a.get("lam", [1] * R), dtype=float)
        model = lambda: ttb.ktensor(mkfac(), lam.copy())
        f0, g0 = _pyfg(a["fid"])
        if lay["h"] == "C":          # handles that return C-ordered arrays (fg.evaluate wraps the result in a tensor without copying)
            f, g = (lambda d, m: np.ascontiguousarray(f0(d, m))), (lambda d, m: np.ascontiguousarray(g0(d, m)))
        else:
            f, g = f0, g0
        if c.op in ("evaluate", "evaluate_struct"):
            def data():
                if a["sparse"]:
                    subs, vals = tgen.dense_to_sparse(shp, a["data"])
                    if not subs:
                        return ttb.sptensor(shape=tuple(shp))
                    return tgen.mk_sptensor(ttb, np, shp, subs, vals)
                return ttb.tensor(_nd(np, shp, a["data"], lay["data"]))
            wden = a.get("wden", 1)

            def w():
                if a["w"] is None:
                    return None
                arr = _nd(np, shp, a["w"], lay["w"])
                if a.get("wbool"):
                    return arr.astype(bool)          # keeps the layout class of arr (C / F; a view becomes a fresh array)
                return arr / wden if wden != 1 else arr
            F, G = fg.evaluate(model(), data(), w(), f, g)
            F1 = fg.evaluate(model(), data(), w(), f, None)
            G1 = fg.evaluate(model(), data(), w(), None, g)
            if wden != 1:      # weights k / 2^e: results times 2^e (exact in float64) are those for the numerators k (C12_weights_linear_F / _G)
                F, F1, G, G1 = F * wden, F1 * wden, [x * wden for x in G], [x * wden for x in G1]
            oG, ok1 = _obsG(np, G, shp, R)
            oG1, ok2 = _obsG(np, G1, shp, R)
            return {"F": tgen.exact(F), "G": oG, "F1": tgen.exact(F1), "G1": oG1, "dims_ok": ok1 and ok2}
        if c.op == "estimate_lam":
            return U.run_estimate_lam(a, fac, f, g)
        if c.op == "estimate":
            subs = lambda: _subs(np, a["subs"], len(shp), lay["data"])
            xs = np.array(a["xs"], dtype=float)
            ws = np.array(a["ws"], dtype=float)
            crng = lambda: None if a["crng"] is None else np.array(a["crng"], dtype=int)
            F, G = fg_est.estimate(model(), subs(), xs.copy(), ws.copy(), f, g, False, crng())
            F1 = fg_est.estimate(model(), subs(), xs.copy(), ws.copy(), f, None, False, crng())
            G1 = fg_est.estimate(model(), subs(), xs.copy(), ws.copy(), None, g, False, crng())
            oG, ok1 = _obsG(np, G, shp, R)
            oG1, ok2 = _obsG(np, G1, shp, R)
            return {"F": tgen.exact(F), "G": oG, "F1": tgen.exact(F1), "G1": oG1, "dims_ok": ok1 and ok2}
        if c.op == "estimate_full":
            X = ttb.tensor(_nd(np, shp, a["data"], lay["data"]))
            allsubs = tgen.all_subs(shp)
            subs = _subs(np, allsubs, len(shp), lay["data"])
            xs = np.array(a["data"], dtype=float)
            F, G = fg_est.estimate(model(), subs, xs, np.ones(len(allsubs)), f, g, True, None)
            F2, G2 = fg.evaluate(model(), X, None, f, g)
            oG, ok1 = _obsG(np, G, shp, R)
            oG2, ok2 = _obsG(np, G2, shp, R)
            return {"F": tgen.exact(F), "G": oG, "F2": tgen.exact(F2), "G2": oG2, "dims_ok": ok1 and ok2}
    except Exception as ex:
        return {"exc": type(ex).__name__, "msg": str(ex)[:200]}
    raise ValueError(c.op)


def _gmats(ms):
    return "[" + "; ".join(tgen.gmatrix(m) for m in ms) + "]"


def _ints(x):
    if isinstance(x, list):
        return all(_ints(y) for y in x)
    return isinstance(x, int)


def coq_check(c, o):
    a = c.args
    if "exc" in o:
        return "false"
    if c.op == "setup":
        return U.check_setup(a, o)
    if c.op == "handle":
        if U.compare_handles(a["name"], a["pts"], o["vals"]) is not None:      # Python evaluator of the generated text (kept as a second opinion)
            return "false"
        # decided in Coq: verified interval evaluation of the GENERATED handles (Proofs/C12HandleNum.v, hnum_check_sound)
        return U.coq_handles(a["name"], a["pts"], o["vals"])
    shp = a["shape"]
    As = _gmats(a["factors"])
    if c.op == "estimate_lam":
        return U.check_estimate_lam(a, o, As)
    if not o.get("dims_ok", True):
        return "false"
    if not _ints([v for k, v in o.items() if k != "dims_ok"]):
        return "false"
    if c.op == "mttkrps":
        T = tgen.gdense(shp, a["data"])
        return (f"mats_eqb (zmttkrps {T} {As} {gnat(a['R'])}) {_gmats(o['G'])} && "
                f"mats_eqb (zmttkrps {T} {As} {gnat(a['R'])}) {_gmats(o['one'])} && "
                f"Nat.eqb (min_split {gnlist(shp)}) {gnat(o['split'])} && "
                f"mats_eqb (mttkrps_py Z 0%Z 1%Z Z.add Z.mul {gnlist(shp)} (den_dense 0%Z {T}) {As} {gnat(a['R'])}) {_gmats(o['G'])} && "
                f"mats_eqb (mttkrps_b Z 0%Z Z.add Z.mul {gzlist(a['data'])} {As} (min_split {gnlist(shp)})) {_gmats(o['G'])} && "
                # ... and the body of tensor.mttkrps over the GENERATED mttv_left / mttv_mid / khatrirao (Proofs/C12GenMttv.v)
                f"zmttkrps_g_ok {gzlist(a['data'])} {As} (min_split {gnlist(shp)}) {_gmats(o['G'])} && "
                # ... with the split index from the GENERATED min_split as well (Proofs/C12GenMttvPy.v)
                f"match mttkrps_gen {gnlist(shp)} {gzlist(a['data'])} {As} with NpZ.Ok Vs => mats_eqb Vs {_gmats(o['G'])} | NpZ.Err => false end")
    fid = gnat(a["fid"])
    if c.op in ("evaluate", "evaluate_struct"):
        K = tgen.gktensor(a["lam"], a["factors"])
        X = tgen.gdense(shp, a["data"])
        w = "None" if a["w"] is None else f"(Some {tgen.gdense(shp, a['w'])})"
        # evaluate: the matrices must be the exact partial derivatives (weights[r] * MTTKRP column r, C12_gradient_weighted);
        # evaluate_struct: they must be the per-mode MTTKRPs of the element-wise derivative array
        unweighted = c.op == "evaluate_struct" and W1_OPEN
        gm = "zeval_G" if unweighted else "zeval_Gw"
        # ... and the byte-level form of fg.evaluate (flat F-order lists, position-wise weighting, flat sum, byte-level mttkrps at
        # min_split; Proofs/C12EvalBytes.v) — its matrices are the unweighted MTTKRPs, so they are compared where those are what is
        # demanded (evaluate_struct, and evaluate on models whose component weights are all 1)
        byt = f"Z.eqb (evaluate_F_b Z 0%Z 1%Z Z.add Z.mul (zf {fid}) {K} {X} {w}) {gz(o['F'])}"
        if unweighted or all(x == 1 for x in a["lam"]):
            byt += (f" && mats_eqb (evaluate_G_b Z 0%Z 1%Z Z.add Z.mul (zg {fid}) {K} {X} {w} (min_split {gnlist(shp)})) "
                    f"{_gmats(o['G'])}")
        return (f"Z.eqb (zeval_F {fid} {K} {X} {w}) {gz(o['F'])} && mats_eqb ({gm} {fid} {K} {X} {w}) {_gmats(o['G'])} && "
                f"Z.eqb {gz(o['F1'])} {gz(o['F'])} && mats_eqb {_gmats(o['G1'])} {_gmats(o['G'])} && {byt}")
    if c.op == "estimate":
        crng = gnlist(a["crng"] or [])
        args = f"{As} {gnat(a['R'])} {gnmat(a['subs'])} {gzlist(a['xs'])} {gzlist(a['ws'])} {crng}"
        # ... and the line-by-line transliteration of estimate_helper / estimate on whole arrays (Proofs/C12EstLine.v; crng None / array)
        ocr = "None" if a["crng"] is None else f"(Some {gnlist(a['crng'])})"
        line = (f"Z.eqb (zest_F_line {fid} {As} {gnmat(a['subs'])} {gzlist(a['xs'])} {gzlist(a['ws'])} {ocr}) {gz(o['F'])} && "
                f"mats_eqb (zest_G_line {fid} {As} {gnat(a['R'])} {gnlist(shp)} {gnmat(a['subs'])} {gzlist(a['xs'])} {gzlist(a['ws'])} {ocr}) "
                f"{_gmats(o['G'])}")
        return (f"Z.eqb (zest_F {fid} {args}) {gz(o['F'])} && mats_eqb (zest_G {fid} {args} {gnlist(shp)}) {_gmats(o['G'])} && "
                f"Z.eqb {gz(o['F1'])} {gz(o['F'])} && mats_eqb {_gmats(o['G1'])} {_gmats(o['G'])} && {line}")
    if c.op == "estimate_full":
        n = math.prod(shp)
        K = tgen.gktensor([1] * a["R"], a["factors"])
        X = tgen.gdense(shp, a["data"])
        args = f"{As} {gnat(a['R'])} (allsubs {gnlist(shp)}) {gzlist(a['data'])} {gzlist([1] * n)} (@nil nat)"
        line = (f"Z.eqb (zest_F_line {fid} {As} (allsubs {gnlist(shp)}) {gzlist(a['data'])} {gzlist([1] * n)} None) {gz(o['F'])} && "
                f"mats_eqb (zest_G_line {fid} {As} {gnat(a['R'])} {gnlist(shp)} (allsubs {gnlist(shp)}) {gzlist(a['data'])} {gzlist([1] * n)} None) "
                f"{_gmats(o['G'])}")
        return (f"Z.eqb (zest_F {fid} {args}) {gz(o['F'])} && mats_eqb (zest_G {fid} {args} {gnlist(shp)}) {_gmats(o['G'])} && "
                f"Z.eqb (zeval_F {fid} {K} {X} None) {gz(o['F2'])} && mats_eqb (zeval_G {fid} {K} {X} None) {_gmats(o['G2'])} && "
                f"Z.eqb {gz(o['F'])} {gz(o['F2'])} && mats_eqb {_gmats(o['G'])} {_gmats(o['G2'])} && {line}")
    raise ValueError(c.op)


def oracle(c, o):
    """independent brute force (pure Python loops / exact rationals): does pyttb's output satisfy what C12 states?"""
    a = c.args
    if "exc" in o:
        return f"admissible request raised {o['exc']}: {o.get('msg')}"
    if c.op == "handle":
        return U.compare_handles(a["name"], a["pts"], o["vals"], against_derivative=True)
    if c.op == "setup":
        return U.oracle_setup(a, o)
    if o.get("dims_ok") is False:
        return "a returned gradient matrix is not a 2-D array of the size of its factor matrix"
    for x, y in (("F1", "F"), ("G1", "G")):
        if c.op in ("evaluate", "evaluate_struct", "estimate") and o[x] != o[y]:
            return f"requesting only one of (objective, gradients) returns a different {y} than requesting both"
    # evaluate_struct demands the unweighted MTTKRPs only while C12-W1 is open (see W1_OPEN), afterwards the exact partial derivatives
    return U.oracle_tensor("evaluate" if c.op == "evaluate_struct" and not W1_OPEN else c.op, a, o)


# ----------------------------------------------------------------------------------------- findings
def _w_a34():
    """negative_binomial_grad vs a central difference of negative_binomial at the Coq witness (data, model, trials) = (3, 1, 1)"""
    pts = [["3", "1", "1"]]
    vals = U.run_handles("negative_binomial", pts)
    return U.compare_handles("negative_binomial", pts, vals, against_derivative=True)


def _w_w1():
    import numpy as np
    import pyttb as ttb
    from pyttb.gcp import fg
    K = ttb.ktensor([np.array([[1.0], [2.0]]), np.array([[1.0], [1.0]])], np.array([2.0]))
    X = ttb.tensor(np.zeros((2, 2)))
    G = fg.evaluate(K, X, None, None, lambda d, m: 2 * (m - d))
    return None if G[0][0, 0] == 16 else f"fg.evaluate with model weights [2]: dF/dA_0[0,0] returned {G[0][0, 0]}, the partial derivative is 16"


def _t_w1(c):
    """evaluate on a model with component weights where some returned entry with weight != 1 is nonzero (pure-Python evaluation)"""
    a = c.args
    if c.op != "evaluate" or all(x == 1 for x in a["lam"]):
        return False
    G = U.brute_grad(a, weighted=False)
    return any(a["lam"][r] != 1 and v != 0 for M in G for row in M for r, v in enumerate(row))


# C12-W2 (estimate on an empty sample set with a gradient handle raised IndexError) is repaired in /repo 3455138: no trigger, no
# witness function any more — the witness input is an ordinary regression case of op estimate (gen_cases, "former C12-W2 witness").
TRIGGERS = {"never": lambda c: False, "weighted_gradient": _t_w1}
WITNESSES = {"A-34": _w_a34, "C12-W1": _w_w1}
