(* Proofs/C02Mttkrps.v — tensor.mttkrps in C02's terms: the byte-level algorithm proved by C12 (Proofs/C12Reshape.v: min_split, both
   sweeps, mttv_left / mttv_mid as index arithmetic on the flat F-order data list) returns, for every mode n, the matrix whose entry
   (x, r) is the defining sum spec_mttkrp of Model/C02Spec.v.  Imported, not re-proved: C12_mttkrps_bytes_py; the bridge between
   C12's mttkrp_den (sum over the FILTERED subscripts) and spec_mttkrp goes through C09's mttkrp_den (Proofs/C09Holders.v). *)
From Coq Require Import List Arith Lia Bool Ring.
From PV Require Import Base.Index Base.Perm Base.Sum Np.Array Model.Sparse Model.Repr Model.C02Spec Model.C02Dense
                       Proofs.C02DenseProofs Model.C09Als Proofs.C09Holders Model.C12Gcp Proofs.C12Tensor Proofs.C12Mttkrps Proofs.C12Reshape.
Import ListNotations.

Section P.
Variable V : Type.
Variables (v0 v1 : V) (vadd vmul vsub : V -> V -> V) (vopp : V -> V).
Hypothesis Vring : ring_theory v0 v1 vadd vmul vsub vopp (@eq V).
Add Ring Vr43 : Vring.

Lemma kprod_skip_ex : forall (As : list (list (list V))) (i : idx) r k,
  kprod_skip v0 v1 vmul As i r k = kprod_ex v0 v1 vmul k As i r.
Proof.
  induction As as [|A As IH]; intros [|x i] r [|k]; cbn [kprod_skip kprod_ex]; try reflexivity. now rewrite IH.
Qed.

Lemma nth_map_seq {A} (F : nat -> A) (d : A) n k : k < n -> nth k (map F (seq 0 n)) d = F k.
Proof.
  intros H. rewrite (nth_indep _ d (F 0)) by (now rewrite map_length, seq_length).
  rewrite (map_nth F). now rewrite seq_nth.
Qed.

(* entry (x, r) of C12's mode-n MTTKRP matrix is C02's defining sum *)
Lemma mttkrp_den_entry (s : shape) (f : idx -> V) (As : list (list (list V))) R n x r :
  n < length s -> length As = length s -> x < nth n s 0 -> r < R ->
  mget v0 (C12Gcp.mttkrp_den v0 v1 vadd vmul s f As R n) x r =
  spec_mttkrp v0 v1 vadd vmul f s n (repeat v1 R) As x r.
Proof.
  intros Hn HL Hx Hr. unfold C12Gcp.mttkrp_den, mget.
  rewrite (nth_map_seq _ [] _ x Hx). rewrite (nth_map_seq _ v0 _ r Hr).
  rewrite (sum_over_filter V v0 v1 vadd vmul vsub vopp Vring).
  rewrite (spec_mttkrp_den V v0 v1 vadd vmul vsub vopp Vring f s n As R x r Hn HL Hx Hr).
  unfold C09Als.mttkrp_den. apply sum_over_ext. intros i _. now rewrite kprod_skip_ex.
Qed.

Theorem mttkrps_bytes_spec (T : dense V) (As : list (list (list V))) (R : nat) :
  wf_dense T -> Forall (fun d => 1 <= d) (dshape T) -> fdims V R As (dshape T) -> 2 <= length (dshape T) ->
  let Ys := mttkrps_b V v0 vadd vmul (ddata T) As (min_split (dshape T)) in
  length Ys = length (dshape T) /\
  forall n x r, n < length (dshape T) -> x < nth n (dshape T) 0 -> r < R ->
    mget v0 (nth n Ys []) x r = spec_mttkrp v0 v1 vadd vmul (den_dense v0 T) (dshape T) n (repeat v1 R) As x r.
Proof.
  intros W Hp Hf HN. cbn zeta.
  rewrite (C12_mttkrps_bytes_py V v0 v1 vadd vmul vsub vopp Vring T As R W Hp Hf HN).
  split; [now rewrite map_length, seq_length|].
  intros n x r Hn Hx Hr. rewrite (nth_map_seq _ [] _ n Hn).
  apply mttkrp_den_entry; auto. destruct Hf as [Hm _]. rewrite <- Hm. now rewrite map_length.
Qed.
End P.
