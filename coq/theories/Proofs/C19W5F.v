(* Proofs/C19W5F.v — wave 5: the classmethod ktensor.from_vector(data, shape, contains_weights) as GENERATED from pyttb/ktensor.py
   (Gen/GenKtensor4b.v; bridge from_vector_bridge of Proofs/W4FromVector.v): for a shape with at least one mode and positive sizes
   the generated method raises exactly when the guard model of Model/C19Guards.v rejects = exactly when len(data) is not a multiple
   of sum(shape) [+ 1] — in particular the blocks that are cut out after the length test always fit and the constructor call at
   the end cannot fail (from_vector_gen_answers). *)
From Coq Require Import List ZArith Arith Bool Lia.
From PV Require Import Np.NpZ Np.NpZ2 Np.NpZ3 Np.NpZ3c Np.NpZ3d Np.NpZ3e Np.NpZ4 Np.NpZ4c Gen.GenKtensor4b Model.W4FromVector
  Proofs.NpZProofs Proofs.W4Loops Proofs.W4Slices Proofs.W4KtensorVec Proofs.W4FromVector Proofs.W4FromVectorModel
  Model.C19Guards Proofs.C19W5 Proofs.C19W5K.
Import ListNotations.
Local Open Scope Z_scope.

Lemma zsum_nonneg (l : vec) : (forall x, In x l -> 0 <= x) -> 0 <= NpZ3c.zsum l.
Proof.
  induction l as [|x l IH]; intros H; [unfold NpZ3c.zsum; cbn; lia|].
  change (NpZ3c.zsum (x :: l)) with (x + NpZ3c.zsum l). pose proof (H x (or_introl eq_refl)). pose proof (IH (fun y Hy => H y (or_intror Hy))). lia.
Qed.

Lemma py_slice_len (v : vec) (a b : Z) : 0 <= a <= b -> b <= zlen v -> zlen (py_slice 0 v (mkslice (Some a) (Some b) None)) = b - a.
Proof.
  intros H1 H2. rewrite py_slice_in by assumption. unfold zlen in *. rewrite firstn_length, skipn_length. lia.
Qed.

Lemma chunks_ok (data : vec) (R shift : Z) : 0 <= R -> 0 <= shift ->
  forall s pre, (forall x, In x s -> 0 <= x) -> (forall x, In x pre -> 0 <= x) ->
    R * (NpZ3c.zsum pre + NpZ3c.zsum s) + shift <= zlen data ->
    forallb (fun p : Z * Z => np_reshape2_ok (H_fv_chunk data (pre ++ s) R shift (fst p)) (snd p) R) (np_enumerate (zlen pre) s) = true.
Proof.
  intros HR Hsh. induction s as [|m s IH]; intros pre Hs Hp Hlen; [reflexivity|].
  cbn [np_enumerate forallb fst snd].
  assert (Hm : 0 <= m) by (apply Hs; left; reflexivity).
  assert (Hzp : 0 <= NpZ3c.zsum pre) by (apply zsum_nonneg; exact Hp).
  assert (Hzs : 0 <= NpZ3c.zsum s) by (apply zsum_nonneg; intros y Hy; apply Hs; right; exact Hy).
  change (NpZ3c.zsum (m :: s)) with (m + NpZ3c.zsum s) in Hlen.
  apply andb_true_iff. split.
  - unfold H_fv_chunk. rewrite (prefix_slice pre (m :: s) (zlen pre) eq_refl).
    replace (pre ++ m :: s) with ((pre ++ [m]) ++ s) by (now rewrite <- app_assoc).
    rewrite (prefix_slice (pre ++ [m]) s (zlen pre + 1)) by (unfold zlen; rewrite app_length; cbn [length]; lia).
    rewrite zsum_app. change (NpZ3c.zsum [m]) with (m + 0). rewrite Z.add_0_r.
    unfold np_reshape2_ok. rewrite py_slice_len by nia.
    apply andb_true_iff. split; [apply andb_true_iff; split; apply Z.leb_le; assumption|apply Z.eqb_eq; lia].
  - replace (pre ++ m :: s) with ((pre ++ [m]) ++ s) by (now rewrite <- app_assoc).
    replace (zlen pre + 1) with (zlen (pre ++ [m])) by (unfold zlen; rewrite app_length; cbn [length]; lia).
    apply IH.
    + intros y Hy. apply Hs. right. exact Hy.
    + intros y Hy. apply in_app_or in Hy as [Hy|[<-|[]]]; [apply Hp; exact Hy|exact Hm].
    + rewrite zsum_app. change (NpZ3c.zsum [m]) with (m + 0). lia.
Qed.

Lemma ncols_reshape2 o v a b : 0 < a -> 0 <= b -> np_ncols (np_reshape2 o v a b) = b.
Proof.
  intros Ha Hb. unfold np_reshape2. pose proof (zlen_arange a ltac:(lia)) as La.
  destruct (np_arange 0 a) as [|i r]; [unfold zlen in La; cbn in La; lia|].
  cbn [map np_ncols]. unfold zlen. rewrite map_length. fold (zlen (np_arange 0 b)). now apply zlen_arange.
Qed.

Lemma in_enumerate_snd {A} (l : list A) : forall k p, In p (np_enumerate k l) -> In (snd p) l.
Proof.
  induction l as [|x l IH]; intros k p H; cbn [np_enumerate] in H; [contradiction|].
  destruct H as [<-|H]; [now left|right; exact (IH _ _ H)].
Qed.

Lemma kt_make_ok_all (fs : list mat) (w : vec) (R : Z) :
  fs <> [] -> (forall f, In f fs -> np_ncols f = R) -> zlen w = R -> kt_make_ok fs w = true.
Proof.
  intros Hne Hall Hw. destruct fs as [|f0 fs]; [congruence|]. unfold kt_make_ok.
  rewrite (Hall f0 (or_introl eq_refl)), Hw, Z.eqb_refl, andb_true_r.
  apply forallb_forall. intros f Hf. rewrite (Hall f Hf). apply Z.eqb_refl.
Qed.

Theorem from_vector_gen_answers (data shape : vec) (cw : bool) :
  shape <> [] -> (forall x, In x shape -> 0 < x) -> pre_from_vector (zlen data) shape cw = true ->
  exists k, ktensor_from_vector tt data shape cw = Ok k.
Proof.
  intros Hne Hpos Hpre. rewrite from_vector_bridge. unfold pre_from_vector in Hpre. cbv zeta in Hpre.
  change (C19Guards.zsum shape) with (NpZ3c.zsum shape) in Hpre. unfold H_from_vector. cbv zeta.
  set (d := NpZ3c.zsum shape + (if cw then 1 else 0)) in *.
  apply andb_true_iff in Hpre as [Hd Hm]. apply negb_true_iff in Hd. rewrite Hd, Hm. cbn [negb].
  assert (Hnn : forall x, In x shape -> 0 <= x) by (intros x Hx; specialize (Hpos x Hx); lia).
  assert (Hz : 0 < NpZ3c.zsum shape).
  { destruct shape as [|x s]; [congruence|]. change (NpZ3c.zsum (x :: s)) with (x + NpZ3c.zsum s).
    pose proof (Hpos x (or_introl eq_refl)). pose proof (zsum_nonneg s (fun y Hy => Hnn y (or_intror Hy))). lia. }
  assert (Hdp : 0 < d) by (unfold d; destruct cw; lia).
  pose proof (zlen_nonneg data) as Hdata.
  set (R := zlen data / d).
  assert (HR : 0 <= R) by (unfold R; apply Z.div_pos; lia).
  assert (HRd : zlen data = d * R) by (unfold R; apply Z.div_exact; [lia|apply Z.eqb_eq; exact Hm]).
  replace (negb cw && negb (0 <=? R)) with false by (symmetry; apply andb_false_iff; right; apply negb_false_iff; apply Z.leb_le; exact HR).
  set (shift := if cw then R else 0).
  assert (Hsh : 0 <= shift) by (unfold shift; destruct cw; lia).
  assert (Hfit : R * (NpZ3c.zsum [] + NpZ3c.zsum shape) + shift <= zlen data).
  { change (NpZ3c.zsum []) with 0. rewrite HRd. unfold d, shift. destruct cw; nia. }
  pose proof (chunks_ok data R shift HR Hsh shape [] Hnn (fun x (H : In x []) => match H with end) Hfit) as Hc.
  cbn [app] in Hc. change (zlen (@nil Z)) with 0 in Hc. rewrite Hc.
  rewrite (kt_make_ok_all _ _ R); [eexists; reflexivity| | |].
  - destruct shape as [|x s]; [congruence|]. cbn [np_enumerate map]. discriminate.
  - intros f Hf. apply in_map_iff in Hf as (p & <- & Hp). apply ncols_reshape2; [|exact HR].
    apply Hpos. exact (in_enumerate_snd _ _ _ Hp).
  - destruct cw.
    + rewrite py_slice_len; [lia|lia|rewrite HRd; unfold d; nia].
    + unfold np_full, zlen. rewrite repeat_length. lia.
Qed.

(* the generated classmethod raises exactly when the guard model rejects = exactly when the precondition fails *)
Theorem from_vector_gen_guard (data shape : vec) (cw : bool) :
  shape <> [] -> (forall x, In x shape -> 0 < x) ->
  okres (ktensor_from_vector tt data shape cw) = guard_from_vector (zlen data) shape cw /\
  okres (ktensor_from_vector tt data shape cw) = decide (pre_from_vector (zlen data) shape cw).
Proof.
  intros Hne Hpos. rewrite <- from_vector_decides. split; [|].
  all: destruct (guard_from_vector (zlen data) shape cw) as [[]|] eqn:G;
    [|now rewrite (from_vector_gen_rejects _ _ _ G)];
    rewrite from_vector_decides in G; destruct (pre_from_vector (zlen data) shape cw) eqn:P; [|discriminate];
    destruct (from_vector_gen_answers data shape cw Hne Hpos P) as [k Hk]; rewrite Hk; reflexivity.
Qed.
