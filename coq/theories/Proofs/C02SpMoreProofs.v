(* Proofs/C02SpMoreProofs.v — sparse ttm (one mode), collapse (sum), contract, scale and mask (Model/C02SpMore.v) equal the
   defining sums of Model/C02Spec.v on the array the sptensor denotes: any stored order, any number of stored entries (none
   included), all shapes, all values of a commutative ring. *)
From Coq Require Import List Arith Lia Bool Permutation Ring.
From PV Require Import Base.Index Base.Perm Base.Sum Np.Array Model.Sparse Model.Repr Model.C02Spec Model.C02Dense Model.C02Sparse
                       Model.C02SpKernels Model.C02SpMore Proofs.C02DenseProofs Proofs.C02SparseProofs Proofs.C02MttkrpProofs
                       Proofs.C02KruskalProofs Proofs.C02SpKernelsProofs Proofs.C02ModesProofs Proofs.C02TenmatProofs
                       Proofs.C02PermProofs Proofs.C02IndicatorProofs.
Import ListNotations.

Lemma insert_remove_upd (i : idx) : forall n x, n < length i -> insert_at n x (remove_at n i) = upd i n x.
Proof.
  induction i as [|y i IH]; intros [|n] x H; cbn [length] in H; try lia.
  - reflexivity.
  - rewrite remove_at_cons. unfold insert_at. cbn [firstn skipn app upd]. f_equal.
    apply (IH n x). lia.
Qed.

Section P.
Variable V : Type.
Variables (v0 v1 : V) (vadd vmul vsub : V -> V -> V) (vopp : V -> V).
Hypothesis Vring : ring_theory v0 v1 vadd vmul vsub vopp (@eq V).
Add Ring Vr10 : Vring.
Variable isz : V -> bool.

Local Notation "x + y" := (vadd x y).
Local Notation "x * y" := (vmul x y).
Local Notation Sn := (sum_n v0 vadd).
Local Notation So := (sum_over v0 vadd).
Local Notation pp := (pprod v0 v1 vmul).

(* ---------------------------------------------------------------- sptensor.ttm, one mode *)
Theorem impl_ttm_sp_correct (S : sparse V) n U tr i : wf_sp isz S ->
  n < length (sshape S) -> length i = length (sshape S) ->
  inb (remove_at n (sshape S)) (remove_at n i) = true ->
  impl_ttm_sp v0 vadd vmul S n U tr i = spec_ttm v0 vadd vmul (den_sp v0 S) (sshape S) n U tr i.
Proof.
  intros W Hn HL Hi. unfold impl_ttm_sp, spec_ttm.
  set (c := fun k => if tr then mget v0 U k (nth n i 0) else mget v0 U (nth n i 0) k).
  set (G := fun a : idx => if idx_eqb (remove_at n a) (remove_at n i) then c (nth n a 0) else v0).
  transitivity (So (entries S) (fun e => snd e * G (fst e))).
  { apply sum_over_ext. intros e _. unfold G, c. destruct (idx_eqb (remove_at n (fst e)) (remove_at n i)); destruct tr; ring. }
  rewrite <- (sparse_sum V v0 v1 vadd vmul vsub vopp Vring isz S G W). unfold G.
  rewrite (sum_allsubs_insert V v0 v1 vadd vmul vsub vopp Vring (sshape S) n _ Hn). apply sum_n_ext. intros x Hx.
  rewrite (sum_over_single _ _ _ _ _ _ _ Vring (allsubs (remove_at n (sshape S))) (remove_at n i)).
  - assert (L : n <= length (remove_at n i)).
    { pose proof (remove_at_length n i ltac:(lia)). lia. }
    rewrite remove_insert_at, nth_insert_at by exact L. rewrite idx_eqb_refl.
    rewrite insert_remove_upd by lia. fold (c x). ring.
  - apply allsubs_NoDup.
  - now apply in_allsubs.
  - intros t Ht Hne. rewrite remove_insert_at by (eapply allsubs_remove_length; eauto).
    rewrite idx_eqb_neq by exact Hne. ring.
Qed.

(* ---------------------------------------------------------------- sptensor.collapse (sum) *)
Lemma sum_modes_ones : forall sizes (g : idx -> V),
  sum_modes v0 vadd vmul sizes (map (repeat v1) sizes) g = So (allsubs sizes) g.
Proof.
  induction sizes as [|d sz IH]; intros g.
  - cbn. ring.
  - cbn [map sum_modes]. rewrite (sum_allsubs_cons V v0 v1 vadd vmul vsub vopp Vring).
    apply sum_n_ext. intros k Hk. rewrite IH.
    rewrite (nth_indep _ v0 v1) by (now rewrite repeat_length). rewrite nth_repeat. ring.
Qed.

Definition ones_for (s : shape) (dims : list nat) : list (list V) := map (fun d => repeat v1 (nth d s 0)) dims.

Lemma spec_collapse_as_ttv (f : idx -> V) s dims i' :
  spec_collapse v0 vadd f s dims i' = spec_ttv v0 vadd vmul f s dims (ones_for s dims) i'.
Proof.
  unfold spec_collapse, spec_ttv, ones_for.
  replace (map (fun d => repeat v1 (nth d s 0)) dims) with (map (repeat v1) (pick 0 dims s)).
  - now rewrite sum_modes_ones.
  - unfold pick. now rewrite map_map.
Qed.

Lemma pprod_ones s (a : idx) : forall dims, (forall m, In m dims -> nth m a 0 < nth m s 0) ->
  pp (combine dims (ones_for s dims)) a = v1.
Proof.
  induction dims as [|d dims IH]; intros H; [reflexivity|].
  cbn [ones_for map combine pprod]. fold (ones_for s dims). rewrite IH by (intros; apply H; cbn; auto).
  rewrite (nth_indep _ v0 v1) by (rewrite repeat_length; apply H; cbn; auto). rewrite nth_repeat. ring.
Qed.

Theorem impl_collapse_sp_correct (S : sparse V) dims i' : wf_sp isz S ->
  NoDup dims -> (forall x, In x dims -> x < length (sshape S)) ->
  inb (ttv_shape (sshape S) dims) i' = true ->
  impl_collapse_sp v0 vadd S dims i' = spec_collapse v0 vadd (den_sp v0 S) (sshape S) dims i'.
Proof.
  intros W Hnd Hr Hi. rewrite spec_collapse_as_ttv.
  rewrite (spec_ttv_indicator V v0 v1 vadd vmul vsub vopp Vring) by (auto; unfold ones_for; now rewrite map_length).
  transitivity (So (allsubs (sshape S)) (fun a => den_sp v0 S a *
                  (if idx_eqb (pick 0 (compl (length (sshape S)) dims) a) i' then v1 else v0))).
  - rewrite (sparse_sum V v0 v1 vadd vmul vsub vopp Vring isz S
               (fun a => if idx_eqb (pick 0 (compl (length (sshape S)) dims) a) i' then v1 else v0) W). unfold impl_collapse_sp.
    apply sum_over_ext. intros e _. destruct (idx_eqb _ i'); ring.
  - apply sum_over_ext. intros a Ha. apply in_allsubs in Ha.
    destruct (idx_eqb _ i'); [|reflexivity]. rewrite pprod_ones; [reflexivity|].
    intros m Hm. apply c02_inb_nth in Ha as [_ Hk]. apply Hk. now apply Hr.
Qed.

(* ---------------------------------------------------------------- sptensor.contract *)
Definition basis (n k : nat) : list V := map (fun x => if Nat.eqb x k then v1 else v0) (seq 0 n).

Lemma nth_basis n k x : x < n -> nth x (basis n k) v0 = if Nat.eqb x k then v1 else v0.
Proof. intros H. unfold basis. now rewrite (nth_map_seq V v0 (fun x => if Nat.eqb x k then v1 else v0)). Qed.

Lemma spec_contract_as_ttv (f : idx -> V) s i1 i2 i' : nth i1 s 0 = nth i2 s 0 ->
  spec_contract v0 vadd f s i1 i2 i' =
  Sn (nth i1 s 0) (fun k => spec_ttv v0 vadd vmul f s [i1; i2] [basis (nth i1 s 0) k; basis (nth i1 s 0) k] i').
Proof.
  intros Heq. unfold spec_contract, spec_ttv. apply sum_n_ext. intros k Hk.
  change (pick 0 [i1; i2] s) with [nth i1 s 0; nth i2 s 0]. rewrite <- Heq. set (n := nth i1 s 0) in *.
  cbn [sum_modes].
  set (g := fun ks => f (unpick (compl (length s) [i1; i2] ++ [i1; i2]) (i' ++ ks))).
  transitivity (Sn n (fun k1 => if Nat.eqb k1 k then (fun k1' => g [k1'; k]) k1 else v0)).
  - now rewrite (sum_n_single V v0 v1 vadd vmul vsub vopp Vring) by exact Hk.
  - apply sum_n_ext. intros k1 Hk1. rewrite nth_basis by exact Hk1.
    transitivity ((Sn n (fun k2 => if Nat.eqb k2 k then (fun k2' => g [k1; k2']) k2 else v0)) * (if Nat.eqb k1 k then v1 else v0)).
    + rewrite (sum_n_single V v0 v1 vadd vmul vsub vopp Vring) by exact Hk. destruct (Nat.eqb k1 k); ring.
    + f_equal. apply sum_n_ext. intros k2 Hk2. rewrite nth_basis by exact Hk2. unfold g. cbn beta. destruct (Nat.eqb k2 k); ring.
Qed.

Theorem impl_contract_sp_correct (S : sparse V) i1 i2 i' : wf_sp isz S ->
  i1 <> i2 -> i1 < length (sshape S) -> i2 < length (sshape S) ->
  nth i1 (sshape S) 0 = nth i2 (sshape S) 0 ->
  inb (ttv_shape (sshape S) [i1; i2]) i' = true ->
  impl_contract_sp v0 vadd S i1 i2 i' = spec_contract v0 vadd (den_sp v0 S) (sshape S) i1 i2 i'.
Proof.
  intros W Hne H1 H2 Heq Hi. rewrite spec_contract_as_ttv by exact Heq.
  set (s := sshape S) in *. set (n := nth i1 s 0) in *. set (rem := compl (length s) [i1; i2]).
  assert (Hnd : NoDup [i1; i2]).
  { constructor; [cbn; intros [E|[]]; congruence|]. constructor; [cbn; tauto|constructor]. }
  assert (Hr : forall x, In x [i1; i2] -> x < length s) by (intros x [<-|[<-|[]]]; assumption).
  set (Wf := fun a : idx => if Nat.eqb (nth i1 a 0) (nth i2 a 0) && idx_eqb (pick 0 rem a) i' then v1 else v0).
  transitivity (So (allsubs s) (fun a => den_sp v0 S a * Wf a)).
  { unfold s. rewrite (sparse_sum V v0 v1 vadd vmul vsub vopp Vring isz S Wf W). unfold impl_contract_sp, Wf.
    apply sum_over_ext. intros e _. fold s. fold rem.
    destruct (Nat.eqb (nth i1 (fst e) 0) (nth i2 (fst e) 0) && idx_eqb (pick 0 rem (fst e)) i'); ring. }
  transitivity (Sn n (fun k => So (allsubs s) (fun a => den_sp v0 S a *
                  (if idx_eqb (pick 0 rem a) i' then pp (combine [i1; i2] [basis n k; basis n k]) a else v0)))).
  2:{ apply sum_n_ext. intros k Hk. symmetry. apply (spec_ttv_indicator V v0 v1 vadd vmul vsub vopp Vring); auto. }
  unfold sum_n. rewrite (sum_over_swap _ _ _ _ _ _ _ Vring).
  apply sum_over_ext. intros a Ha. apply in_allsubs in Ha.
  rewrite (sum_over_scale_l _ _ _ _ _ _ _ Vring). f_equal. unfold Wf.
  apply c02_inb_nth in Ha as [_ Hk].
  pose proof (Hk i1 H1) as Ha1. pose proof (Hk i2 H2) as Ha2. fold n in Ha1. rewrite <- Heq in Ha2. fold n in Ha2.
  destruct (idx_eqb (pick 0 rem a) i').
  - rewrite andb_true_r. cbn [combine pprod].
    transitivity (Sn n (fun k => if Nat.eqb (nth i1 a 0) k then (fun k' => if Nat.eqb (nth i2 a 0) k' then v1 else v0) k else v0)).
    + rewrite (sum_n_single' V v0 v1 vadd vmul vsub vopp Vring) by exact Ha1.
      rewrite (Nat.eqb_sym (nth i2 a 0)). reflexivity.
    + apply sum_n_ext. intros k Hk'. rewrite !nth_basis by assumption.
      destruct (Nat.eqb (nth i1 a 0) k); destruct (Nat.eqb (nth i2 a 0) k); ring.
  - rewrite andb_false_r. symmetry. apply (sum_over_zero _ _ _ _ _ _ _ Vring). reflexivity.
Qed.

(* ---------------------------------------------------------------- sptensor.scale *)
Lemma combine_fst_snd {A B} (l : list (A * B)) : combine (map fst l) (map snd l) = l.
Proof. induction l as [|[a b] l IH]; cbn; [reflexivity|]. now rewrite IH. Qed.

Lemma NoDup_fst_filter_map {B} (P : idx * B -> bool) (h : idx * B -> idx * B) (l : list (idx * B)) :
  (forall e, fst (h e) = fst e) -> NoDup (map fst l) -> NoDup (map fst (filter P (map h l))).
Proof.
  intros Hh. induction l as [|e l IH]; intros Hnd; cbn [map filter]; [constructor|].
  cbn [map] in Hnd. apply NoDup_cons_iff in Hnd as [Hx Hnd].
  destruct (P (h e)); [|now apply IH]. cbn [map]. constructor; [|now apply IH].
  rewrite Hh. intros Hin. apply Hx. apply in_map_iff in Hin as (e' & E & He'). apply filter_In in He' as [He' _].
  apply in_map_iff in He' as (e'' & <- & He''). rewrite Hh in E. rewrite <- E. now apply in_map.
Qed.

Hypothesis isz_spec : forall v, isz v = true <-> v = v0.

Theorem impl_scale_sp_correct (S : sparse V) dims (g : idx -> V) : wf_sp isz S ->
  let R := impl_scale_sp vmul isz S dims g in
  sshape R = sshape S /\ wf_sp isz R /\
  forall i, den_sp v0 R i = spec_scale vmul (den_sp v0 S) dims g i.
Proof.
  intros W. pose proof W as (HL & Hnd & Hb & Hz). cbn zeta. unfold impl_scale_sp, spec_scale.
  set (h := fun e : idx * V => (fst e, snd e * g (pick 0 dims (fst e)))).
  set (P := fun e : idx * V => negb (isz (snd e))).
  set (es := filter P (map h (entries S))).
  assert (Hh : forall e, fst (h e) = fst e) by reflexivity.
  assert (Hnd' : NoDup (map fst es)).
  { apply NoDup_fst_filter_map; auto. now rewrite map_fst_entries. }
  assert (Hsub : forall e, In e es -> exists e0, In e0 (entries S) /\ e = h e0 /\ isz (snd e) = false).
  { intros e He. apply filter_In in He as [He HP]. apply in_map_iff in He as (e0 & <- & He0).
    exists e0. repeat split; auto. unfold P in HP. now apply negb_true_iff in HP. }
  split; [reflexivity|]. split.
  - unfold wf_sp. cbn [ssubs svals sshape]. repeat split.
    + now rewrite !map_length.
    + exact Hnd'.
    + apply Forall_forall. intros i Hi. apply in_map_iff in Hi as (e & <- & He).
      destruct (Hsub e He) as ([i0 w0] & He0 & -> & _). rewrite Hh. cbn [fst].
      rewrite Forall_forall in Hb. apply Hb. unfold entries in He0. apply in_combine_l in He0. exact He0.
    + apply Forall_forall. intros v Hv. apply in_map_iff in Hv as (e & <- & He).
      now destruct (Hsub e He) as (_ & _ & _ & Hz').
  - intros i. unfold den_sp at 1. unfold entries. cbn [ssubs svals]. rewrite combine_fst_snd.
    destruct (in_dec (list_eq_dec Nat.eq_dec) i (ssubs S)) as [Hin|Hnin].
    + rewrite <- (map_fst_entries S HL) in Hin. apply in_map_iff in Hin as ([i0 v] & E & He). cbn [fst] in E. subst i0.
      rewrite (den_sp_in v0 isz S i v W He).
      destruct (isz (v * g (pick 0 dims i))) eqn:Ez.
      * apply isz_spec in Ez. rewrite Ez. apply last_match_notin.
        intros e' He' E'. destruct (Hsub e' He') as ([i0 w] & He0 & -> & Hz').
        cbn [h fst snd] in *. subst i0.
        assert (w = v).
        { rewrite <- (den_sp_in v0 isz S i w W He0). apply (den_sp_in v0 isz S i v W He). }
        subst w. rewrite Ez in Hz'. assert (isz v0 = true) by (now apply isz_spec). congruence.
      * apply last_match_in; [exact Hnd'|]. unfold es. apply filter_In. split.
        -- apply in_map_iff. exists (i, v). split; [reflexivity|exact He].
        -- unfold P. cbn [snd]. now rewrite Ez.
    + rewrite (den_sp_notin v0 S i Hnin).
      transitivity v0; [|ring]. apply last_match_notin.
      intros e' He' E'. destruct (Hsub e' He') as ([i0 w0] & He0 & -> & _). rewrite Hh in E'. cbn [fst] in E'.
      apply Hnin. rewrite <- E'. unfold entries in He0. apply in_combine_l in He0. exact He0.
Qed.

(* ---------------------------------------------------------------- sptensor.mask *)
Lemma find_row_some w : forall subs k, find_row w subs = Some k -> k < length subs /\ nth k subs [] = w.
Proof.
  induction subs as [|r subs IH]; intros k H; cbn [find_row] in H; [discriminate|].
  destruct (idx_eqb r w) eqn:E.
  - inversion H; subst. apply idx_eqb_spec in E. cbn. split; [lia|exact E].
  - destruct (find_row w subs) as [k'|] eqn:F; [|discriminate]. cbn in H. inversion H; subst.
    destruct (IH k' eq_refl) as [H1 H2]. cbn. split; [lia|exact H2].
Qed.

Lemma find_row_none w : forall subs, find_row w subs = None -> ~ In w subs.
Proof.
  induction subs as [|r subs IH]; intros H; cbn [find_row] in H; [tauto|].
  destruct (idx_eqb r w) eqn:E; [discriminate|].
  destruct (find_row w subs) eqn:F; [discriminate|].
  intros [->|Hin]; [now rewrite idx_eqb_refl in E|]. now apply IH.
Qed.

Lemma in_combine_nth {A B} (da : A) (db : B) : forall (a : list A) (b : list B) k, k < length a -> length a = length b ->
  In (nth k a da, nth k b db) (combine a b).
Proof.
  induction a as [|x a IH]; intros [|y b] k Hk HL; cbn in *; try lia.
  destruct k as [|k]; [auto|]. right. apply IH; lia.
Qed.

Theorem impl_mask_sp_correct (S : sparse V) (wsubs : list idx) : wf_sp isz S ->
  impl_mask_sp v0 S wsubs = spec_mask (den_sp v0 S) wsubs.
Proof.
  intros W. pose proof W as (HL & _). unfold impl_mask_sp, spec_mask. apply map_ext. intros w.
  destruct (find_row w (ssubs S)) as [k|] eqn:F.
  - destruct (find_row_some w _ k F) as [Hk E]. symmetry.
    apply (den_sp_in v0 isz S w _ W). rewrite <- E. unfold entries. now apply in_combine_nth.
  - symmetry. apply den_sp_notin. now apply find_row_none.
Qed.

End P.
