(* Proofs/C01Proofs.v — matricisation (tenmat / sptenmat), Kruskal / Tucker / sum to dense (proofs for Props/C01.v). *)
From Coq Require Import List Arith Lia Bool Permutation Ring.
From PV Require Import Base.Index Base.Perm Base.Sum Np.Array Model.Sparse Model.Repr Model.C07Ops Model.C01Conv
  Proofs.C07Index Proofs.C07Proofs.
Import ListNotations.

Lemma pick_app {A} (d : A) r c (l : list A) : pick d (r ++ c) l = pick d r l ++ pick d c l.
Proof. unfold pick. apply map_app. Qed.

Lemma perm_app_lt r c n k : is_perm (r ++ c) n -> In k r \/ In k c -> k < n.
Proof. intros Hp Hk. apply (is_perm_In _ _ k Hp). apply in_or_app. exact Hk. Qed.

(* position of tensor entry i inside the matrix *)
Lemma tm_pos_lin s r c i : is_perm (r ++ c) (length s) -> inb s i = true ->
  inb [size (pick 0 r s); size (pick 0 c s)] (tm_pos s r c i) = true /\
  sub2ind [size (pick 0 r s); size (pick 0 c s)] (tm_pos s r c i) = sub2ind (pick 0 (r ++ c) s) (pick 0 (r ++ c) i).
Proof.
  intros Hp Hi. unfold tm_pos.
  assert (Hr : inb (pick 0 r s) (pick 0 r i) = true).
  { apply inb_pick_sub; auto. intros k Hk. apply (perm_app_lt r c); auto. }
  assert (Hc : inb (pick 0 c s) (pick 0 c i) = true).
  { apply inb_pick_sub; auto. intros k Hk. apply (perm_app_lt r c); auto. }
  pose proof (sub2ind_lt _ _ Hr) as Lr. pose proof (sub2ind_lt _ _ Hc) as Lc. split.
  - cbn [inb]. apply Nat.ltb_lt in Lr, Lc. now rewrite Lr, Lc.
  - rewrite !pick_app, sub2ind_app by (now rewrite !pick_length). cbn [sub2ind]. lia.
Qed.

Lemma tm_pos_inj s r c i j : is_perm (r ++ c) (length s) -> inb s i = true -> inb s j = true ->
  tm_pos s r c i = tm_pos s r c j -> i = j.
Proof.
  intros Hp Hi Hj E.
  destruct (tm_pos_lin s r c i Hp Hi) as [_ Ei]. destruct (tm_pos_lin s r c j Hp Hj) as [_ Ej].
  rewrite E in Ei. rewrite Ei in Ej.
  pose proof (inb_length _ _ Hi) as Li. pose proof (inb_length _ _ Hj) as Lj.
  apply sub2ind_inj in Ej; try (rewrite inb_pick; auto).
  apply (pick_perm_inj (r ++ c) (length s)); auto.
Qed.

Section Tenmat.
Context {V : Type} (v0 : V).

Lemma reshapeF_roundtrip (A : dense V) s1 : wf_dense A -> size s1 = size (dshape A) ->
  np_reshapeF v0 (np_reshapeF v0 A s1) (dshape A) = A.
Proof.
  intros W Hs. destruct (reshape_dense_correct v0 A s1 W Hs) as (R & E1 & _ & _ & _ & _ & _ & E2).
  unfold reshape_d in E1. rewrite Hs, Nat.eqb_refl in E1. inversion E1; subst R.
  unfold reshape_d in E2. cbn [dshape np_reshapeF tabulate] in E2. rewrite Hs, Nat.eqb_refl in E2. congruence.
Qed.

Lemma transpose_short (T : dense V) p : wf_dense T -> is_perm p (length (dshape T)) -> length p <= 1 ->
  np_transpose v0 T p = T.
Proof.
  intros W Hp HL. pose proof (is_perm_length _ _ Hp) as HpL.
  destruct p as [|x [|y p]]; cbn in HL; try lia.
  - apply np_transpose_nil; auto. apply length_zero_iff_nil. now rewrite <- HpL.
  - assert (x = 0). { assert (In x [x]) by (cbn; auto). apply (is_perm_In _ _ x Hp) in H. cbn in HpL. lia. } subst x.
    destruct T as [s d]. cbn [dshape] in *. destruct s as [|a [|b s]]; cbn in HpL; try discriminate.
    unfold np_transpose. cbn [dshape pick map nth].
    transitivity (tabulate [a] (den_dense v0 (mkDense [a] d))); [|apply (tabulate_den v0 (mkDense [a] d)); auto].
    apply tabulate_ext. intros i Hi. destruct i as [|z [|z' i]]; cbn in Hi; try discriminate; try (rewrite andb_false_r in Hi; discriminate).
    reflexivity.
Qed.

Theorem to_tenmat_correct (T : dense V) r c : wf_dense T -> is_perm (r ++ c) (length (dshape T)) ->
  exists M, to_tenmat v0 T r c = Some M /\ tm_r M = r /\ tm_c M = c /\ tm_tshape M = dshape T /\
    wf_dense (tm_data M) /\ dshape (tm_data M) = [size (pick 0 r (dshape T)); size (pick 0 c (dshape T))] /\
    (forall i, inb (dshape T) i = true ->
       inb (dshape (tm_data M)) (tm_pos (dshape T) r c i) = true /\ den_tenmat v0 M i = den_dense v0 T i) /\
    tenmat_to_tensor v0 M = T.
Proof.
  intros W Hp. set (s := dshape T) in *. set (p := r ++ c) in *.
  pose proof (is_perm_length _ _ Hp) as HpL.
  unfold to_tenmat. fold s p. rewrite (proj2 (is_permb_spec p (length s)) Hp), (permute_d_perm v0 T p W Hp).
  eexists; split; [reflexivity|]. cbn [tm_r tm_c tm_tshape tm_data].
  set (X := np_transpose v0 T p).
  assert (WX : wf_dense X) by apply wf_tabulate.
  assert (HsX : dshape X = pick 0 p s) by reflexivity.
  assert (Hsz : size [size (pick 0 r s); size (pick 0 c s)] = size (dshape X)).
  { rewrite HsX. unfold p. rewrite pick_app, size_app, !size_cons. change (size []) with 1. lia. }
  repeat (split; [reflexivity|]). split; [apply wf_tabulate|]. split; [reflexivity|]. split.
  - intros i Hi. destruct (tm_pos_lin s r c i Hp Hi) as [Hb Hl]. split; [exact Hb|].
    unfold den_tenmat. cbn [tm_r tm_c tm_tshape tm_data]. rewrite den_reshapeF by auto.
    rewrite Hl, HsX. fold p. pose proof (inb_length _ _ Hi) as HiL.
    rewrite ind2sub_sub2ind by (rewrite inb_pick; auto).
    unfold X. rewrite den_transpose by (auto; rewrite pick_length; exact HpL).
    now rewrite (pick_invperm_pick 0 p (length s)).
  - unfold tenmat_to_tensor. cbn [tm_r tm_c tm_tshape tm_data]. fold p. rewrite <- HsX.
    rewrite reshapeF_roundtrip by auto.
    destruct (Nat.ltb_spec 1 (length p)) as [H1|H1].
    + unfold X. rewrite transpose_inverse by auto. now destruct T.
    + unfold X. rewrite transpose_short by auto. now destruct T.
Qed.

End Tenmat.

(* ------------------------------------------------------------------ gather_wrap_dims produces partitions *)
Lemma NoDup_app_intro {A} (a b : list A) : NoDup a -> NoDup b -> (forall k, In k a -> In k b -> False) -> NoDup (a ++ b).
Proof.
  induction a as [|x a IH]; intros Ha Hb Hd; cbn; auto. inversion Ha as [|? ? Hx Ha']; subst. constructor.
  - rewrite in_app_iff. intros [H|H]; [contradiction|]. apply (Hd x); cbn; auto.
  - apply IH; auto. intros k H1 H2. apply (Hd k); cbn; auto.
Qed.

Lemma setdiff_perm N d : NoDup d -> (forall k, In k d -> k < N) -> is_perm (setdiff_modes N d ++ d) N /\ is_perm (d ++ setdiff_modes N d) N.
Proof.
  intros Hn Hd.
  assert (P : Permutation (setdiff_modes N d ++ d) (seq 0 N)).
  { apply NoDup_Permutation.
    - apply NoDup_app_intro; auto.
      + unfold setdiff_modes. apply NoDup_filter, seq_NoDup.
      + intros k H1 H2. unfold setdiff_modes in H1. apply filter_In in H1 as [_ H1]. apply negb_true_iff in H1.
        assert (existsb (Nat.eqb k) d = true) by (apply existsb_exists; exists k; split; auto; apply Nat.eqb_refl). congruence.
    - apply seq_NoDup.
    - intros k. rewrite in_app_iff, in_seq. split.
      + intros [H|H]; [apply keep_modes_lt in H; lia|apply Hd in H; lia].
      + intros H. apply keep_modes_cover. lia. }
  split; [exact P|]. unfold is_perm. rewrite <- P. apply Permutation_app_comm.
Qed.

(* ------------------------------------------------------------------ sptenmat *)
Section Sptenmat.
Context {V : Type} (v0 : V) (isz : V -> bool).

Theorem to_sptenmat_correct (S : sparse V) r c : is_perm (r ++ c) (length (sshape S)) ->
  Forall (fun j => inb (sshape S) j = true) (ssubs S) ->
  exists M, to_sptenmat S r c = Some M /\ stm_r M = r /\ stm_c M = c /\ stm_tshape M = sshape S /\
    stm_vals M = svals S /\ length (stm_subs M) = nnz S /\
    Forall (fun rc => inb (stm_shape M) rc = true) (stm_subs M) /\
    (wf_sp isz S -> wf_sp isz (stm_sp M)) /\
    (forall i, inb (sshape S) i = true -> den_sptenmat v0 M i = den_sp v0 S i) /\
    (forall i, inb (sshape S) i = true -> den_tenmat v0 (sptenmat_full v0 M) i = den_sp v0 S i) /\
    sptenmat_to_sptensor M = S.
Proof.
  intros Hp Hb. set (s := sshape S) in *. unfold to_sptenmat. fold s.
  rewrite (proj2 (is_permb_spec (r ++ c) (length s)) Hp). eexists; split; [reflexivity|].
  cbn [stm_r stm_c stm_tshape stm_vals stm_subs]. repeat (split; [reflexivity|]).
  split; [unfold nnz; now rewrite map_length|].
  assert (Hinb : Forall (fun rc => inb [size (pick 0 r s); size (pick 0 c s)] rc = true) (map (tm_pos s r c) (ssubs S))).
  { rewrite Forall_forall. intros rc Hrc. apply in_map_iff in Hrc as (j & <- & Hj).
    rewrite Forall_forall in Hb. now destruct (tm_pos_lin s r c j Hp (Hb j Hj)). }
  split; [exact Hinb|]. split; [|split; [|split]].
  - intros W. unfold stm_sp, stm_shape. cbn [stm_r stm_c stm_tshape stm_vals stm_subs].
    apply (wf_sp_map isz (tm_pos s r c) (fun j => inb s j = true)); auto.
    + intros a b. now apply tm_pos_inj.
    + intros a Ha. now destruct (tm_pos_lin s r c a Hp Ha).
  - intros i Hi. unfold den_sptenmat, stm_sp, stm_shape. cbn [stm_r stm_c stm_tshape stm_vals stm_subs].
    apply (den_sp_map v0 (tm_pos s r c) (fun j => inb s j = true)); auto.
    intros a b. now apply tm_pos_inj.
  - intros i Hi. unfold den_tenmat, sptenmat_full. cbn [tm_data tm_r tm_c tm_tshape stm_r stm_c stm_tshape].
    rewrite den_full by exact Hinb.
    unfold stm_sp, stm_shape. cbn [stm_r stm_c stm_tshape stm_vals stm_subs].
    apply (den_sp_map v0 (tm_pos s r c) (fun j => inb s j = true)); auto.
    intros a b. now apply tm_pos_inj.
  - unfold sptenmat_to_sptensor. cbn [stm_r stm_c stm_tshape stm_vals stm_subs]. rewrite map_map.
    destruct S as [s0 subs vals]. cbn [sshape ssubs svals] in *. subst s. f_equal.
    rewrite <- (map_id subs) at 2. apply map_ext_in. intros j Hj. rewrite Forall_forall in Hb. specialize (Hb j Hj).
    unfold stm_row_to_sub, tm_pos. cbn [stm_r stm_c stm_tshape nth].
    rewrite !ind2sub_sub2ind by (apply inb_pick_sub; auto; intros k Hk; apply (perm_app_lt r c); auto).
    rewrite <- pick_app. apply (pick_invperm_pick 0 (r ++ c) (length s0)); auto. now apply inb_length.
Qed.

End Sptenmat.

(* ------------------------------------------------------------------ request forms of gather_wrap_dims *)
Lemma seq_split3 N m : m < N -> seq 0 N = seq 0 m ++ m :: seq (S m) (N - S m).
Proof.
  intros H. replace N with (m + S (N - S m)) at 1 by lia. rewrite seq_app. reflexivity.
Qed.

Lemma cyc_fc_perm N m : m < N -> is_perm ([m] ++ (range_up (S m) N ++ range_up 0 m)) N.
Proof.
  intros H. unfold is_perm, range_up. rewrite (seq_split3 N m H), Nat.sub_0_r. cbn [app].
  apply Permutation_cons_app. apply Permutation_app_comm.
Qed.

Lemma cyc_bc_perm N m : m < N -> is_perm ([m] ++ (rev (seq 0 m) ++ range_down_excl (N - 1) m)) N.
Proof.
  intros H. unfold is_perm, range_down_excl. rewrite (seq_split3 N m H). cbn [app].
  apply Permutation_cons_app. apply Permutation_app.
  - symmetry. apply Permutation_rev.
  - replace (N - 1 - m) with (N - S m) by lia. symmetry. apply Permutation_rev.
Qed.

Definition request_ok (N : nat) (rd cd : option (list nat)) : Prop :=
  match rd, cd with
  | Some r, Some c => is_perm (r ++ c) N
  | Some d, None | None, Some d => NoDup d /\ (forall k, In k d -> k < N)
  | None, None => False
  end.

Ltac gwd_fin := repeat split; intros;
  repeat (match goal with H : Some _ = Some _ |- _ => inversion H; clear H end); subst; try congruence; try discriminate;
  try (match goal with H : _ \/ _ |- _ => destruct H as [H|H]; [discriminate|cbn in H; congruence] end).

Theorem gather_wrap_dims_partition N rd cd cy : request_ok N rd cd ->
  exists r c, gather_wrap_dims N rd cd cy = Some (r, c) /\ is_perm (r ++ c) N /\
    (forall r0 c0, rd = Some r0 -> cd = Some c0 -> r = r0 /\ c = c0) /\
    (forall c0, rd = None -> cd = Some c0 -> c = c0) /\
    (forall r0, rd = Some r0 -> cd = None -> cy = None \/ length r0 <> 1 -> r = r0) /\
    (forall m, rd = Some [m] -> cd = None -> cy = Some CycT -> c = [m]) /\
    (forall m k, rd = Some [m] -> cd = None -> cy = Some k -> k <> CycT -> r = [m]).
Proof.
  unfold request_ok, gather_wrap_dims. destruct rd as [r0|], cd as [c0|]; intros H.
  - exists r0, c0. gwd_fin.
  - destruct H as [Hn Hd].
    assert (P0 : is_perm (r0 ++ setdiff_modes N r0) N) by (now apply setdiff_perm).
    destruct r0 as [|m [|m' r0]].
    + eexists _, _. split; [reflexivity|]. split; [exact P0|]. gwd_fin.
    + assert (Hm : m < N) by (apply Hd; cbn; auto).
      destruct cy as [[| |]|].
      * exists (setdiff_modes N [m]), [m]. split; auto. split; [now apply setdiff_perm|]. gwd_fin.
      * eexists _, _. split; [reflexivity|]. split; [now apply cyc_fc_perm|]. gwd_fin.
      * eexists _, _. split; [reflexivity|]. split; [now apply cyc_bc_perm|]. gwd_fin.
      * eexists _, _. split; [reflexivity|]. split; [exact P0|]. gwd_fin.
    + eexists _, _. split; [reflexivity|]. split; [exact P0|]. gwd_fin.
  - destruct H as [Hn Hd]. exists (setdiff_modes N c0), c0. split; auto. split; [now apply setdiff_perm|]. gwd_fin.
  - contradiction.
Qed.

(* ------------------------------------------------------------------ sums *)
Section SumFull.
Variable V : Type.
Variables (v0 v1 : V) (vadd vmul vsub : V -> V -> V) (vopp : V -> V).
Hypothesis Vring : ring_theory v0 v1 vadd vmul vsub vopp (@eq V).
Add Ring Vr01s : Vring.

Lemma nth_map_combine (f : V * V -> V) (a b : list V) k : k < length a -> k < length b ->
  nth k (map f (combine a b)) v0 = f (nth k a v0, nth k b v0).
Proof.
  revert b k; induction a as [|x a IH]; intros [|y b] [|k] Ha Hb; cbn in *; try lia; auto. apply IH; lia.
Qed.

Lemma add_dense_correct (A B : dense V) : wf_dense A -> wf_dense B -> dshape B = dshape A ->
  wf_dense (add_dense vadd A B) /\ dshape (add_dense vadd A B) = dshape A /\
  forall i, den_dense v0 (add_dense vadd A B) i = vadd (den_dense v0 A i) (den_dense v0 B i).
Proof.
  intros WA WB Hs. unfold wf_dense in *. split; [|split; [reflexivity|]].
  - unfold add_dense. cbn [ddata dshape]. rewrite map_length, combine_length. rewrite Hs in WB. lia.
  - intros i. unfold den_dense, add_dense. cbn [dshape ddata]. rewrite Hs.
    destruct (inb (dshape A) i) eqn:Hi; [|ring].
    pose proof (sub2ind_lt _ _ Hi) as Hlt. rewrite nth_map_combine; auto; try lia. rewrite Hs in WB. lia.
Qed.

Definition part_ok (s : shape) (p : part V) : Prop :=
  wf_dense (part_full v0 v1 vadd vmul p) /\ dshape (part_full v0 v1 vadd vmul p) = s /\
  forall i, inb s i = true -> den_dense v0 (part_full v0 v1 vadd vmul p) i = part_den v0 v1 vadd vmul p i.

Lemma fold_add_correct s (rest : list (part V)) (acc : dense V) : wf_dense acc -> dshape acc = s -> Forall (part_ok s) rest ->
  let R := fold_left (fun a q => add_dense vadd a (part_full v0 v1 vadd vmul q)) rest acc in
  wf_dense R /\ dshape R = s /\
  forall i, inb s i = true ->
    den_dense v0 R i = vadd (den_dense v0 acc i) (sum_over v0 vadd rest (fun p => part_den v0 v1 vadd vmul p i)).
Proof.
  revert acc; induction rest as [|q rest IH]; intros acc W Hs Hok; cbn [fold_left].
  - split; auto. split; auto. intros i _. cbn. ring.
  - inversion Hok as [|? ? (Wq & Sq & Dq) Hok']; subst.
    destruct (add_dense_correct acc (part_full v0 v1 vadd vmul q) W Wq Sq) as (W' & S' & D').
    destruct (IH _ W' S' Hok') as (WR & SR & DR). split; auto. split; auto.
    intros i Hi. rewrite DR by auto. rewrite D', Dq by auto. rewrite sum_over_cons. ring.
Qed.

Theorem sum_full_correct s (parts : list (part V)) : parts <> [] -> Forall (part_ok s) parts ->
  exists R, sum_full v0 v1 vadd vmul parts = Some R /\ wf_dense R /\ dshape R = s /\
    forall i, inb s i = true -> den_dense v0 R i = den_sum v0 vadd (map (part_den v0 v1 vadd vmul) parts) i.
Proof.
  intros Hne Hok. destruct parts as [|p rest]; [congruence|]. inversion Hok as [|? ? (Wp & Sp & Dp) Hok']; subst.
  eexists; split; [reflexivity|].
  destruct (fold_add_correct _ rest _ Wp eq_refl Hok') as (WR & SR & DR). split; auto. split; auto.
  intros i Hi. rewrite DR, Dp by auto. unfold den_sum. rewrite (sum_over_map V v0 vadd). rewrite sum_over_cons. reflexivity.
Qed.

(* dense, sparse and Kruskal parts satisfy part_ok outright (Tucker parts: by ttensor_full_correct below) *)
Lemma part_ok_dense T : wf_dense T -> part_ok (dshape T) (PD T).
Proof. intros W. repeat split; auto. Qed.

Lemma part_ok_sparse S : Forall (fun j => inb (sshape S) j = true) (ssubs S) -> part_ok (sshape S) (PS S).
Proof. intros Hb. split; [apply wf_full|]. split; [reflexivity|]. intros i _. cbn. now apply den_full. Qed.

Lemma part_ok_kruskal K : part_ok (kshape K) (PK K).
Proof. split; [apply wf_tabulate|]. split; [reflexivity|]. intros i Hi. cbn. unfold ktensor_full_spec. now rewrite den_tabulate. Qed.

End SumFull.
