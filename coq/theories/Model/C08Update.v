(* Model/C08Update.v — wave 5: ktensor.update(modes, data) AS A STATE MACHINE ON THE RECEIVER (pyttb/ktensor.py after fix b9311d6).
   update assigns IN PLACE (self.weights = ..., self.factor_matrices[k] = ...) and raises by `assert`; what the caller holds after a
   rejected request is therefore part of the behaviour.  The model returns (accepted?, receiver as the call leaves it):

     py_strict_asc   np.all(modes[:-1] < modes[1:])                      (strict since b9311d6: a repeated mode is refused)
     py_needed       pass 1: for k in modes: needed += ncomponents | shape[k] * ncomponents | assert False "Invalid mode"
     py_validate     ... if len(data) < needed: assert False "Data is too short"
     py_update_loop  pass 2: the assigning loop WITH ITS OWN in-loop tests (data too short / invalid mode; a negative mode other
                     than -1 passes `k < self.ndims` and indexes shape / factor_matrices from the end, as Python does), which can stop
                     half way and leave a partly rewritten receiver — this is the whole body of update before b9311d6
     py_update       guard, pass 1, pass 2

   Proofs/C08Update.v: after pass 1 the loop cannot stop (py_update_rejected_unchanged), an accepted request computes the functional
   hand model k_update of Model/C08Kruskal.v (py_update_accepted_model).  Definitions only. *)
From Coq Require Import List ZArith Arith Lia Bool.
From PV Require Import Base.Index Model.Repr Model.C08Kruskal.
Import ListNotations.

(* a Python mode of update(): -1 = the weights, k >= 0 = factor k *)
Definition mopt (k : Z) : option nat := if (k =? -1)%Z then None else Some (Z.to_nat k).

Section U8.
Context {V : Type} (v0 : V).
Notation mat := (list (list V)).

Fixpoint py_strict_asc (l : list Z) : bool :=
  match l with
  | x :: (y :: _) as t => (x <? y)%Z && py_strict_asc t
  | _ => true
  end.

(* pass 1 (no assignment): Some needed, or None = "Invalid mode" *)
Fixpoint py_needed (K : ktensor V) (modes : list Z) (needed : nat) : option nat :=
  match modes with
  | [] => Some needed
  | k :: ms =>
      if (k =? -1)%Z then py_needed K ms (needed + krank K)
      else if (0 <=? k)%Z && (k <? Z.of_nat (length (kfactors K)))%Z
           then py_needed K ms (needed + nth (Z.to_nat k) (kshape K) 0 * krank K)
           else None
  end.
Definition py_validate (K : ktensor V) (modes : list Z) (data : list V) : bool :=
  match py_needed K modes 0 with Some n => n <=? length data | None => false end.

(* Python index k into a list of length n: Some position, None = IndexError *)
Definition py_index (n : nat) (k : Z) : option nat :=
  let k' := if (k <? 0)%Z then (k + Z.of_nat n)%Z else k in
  if (0 <=? k')%Z && (k' <? Z.of_nat n)%Z then Some (Z.to_nat k') else None.

(* pass 2: (finished?, receiver as left) *)
Fixpoint py_update_loop (modes : list Z) (data : list V) (loc : nat) (K : ktensor V) : bool * ktensor V :=
  match modes with
  | [] => (true, K)
  | k :: ms =>
      let R := krank K in
      if (k =? -1)%Z then
        let e := loc + R in
        if length data <? e then (false, K)                                           (* "Data is too short" *)
        else py_update_loop ms data e (mkK (firstn R (skipn loc data)) (kfactors K))
      else if (k <? Z.of_nat (length (kfactors K)))%Z then
        match py_index (length (kfactors K)) k with
        | None => (false, K)                                                          (* self.shape[k]: IndexError *)
        | Some j =>
            let m := nth j (kshape K) 0 in
            let e := loc + m * R in
            if length data <? e then (false, K)                                       (* "Data is too short" *)
            else py_update_loop ms data e
                   (mkK (kweights K) (upd_nth j (fun _ => unvec_factor v0 m R (firstn (m * R) (skipn loc data))) (kfactors K)))
        end
      else (false, K)                                                                 (* "Invalid mode" *)
  end.

(* update as it is since b9311d6 *)
Definition py_update (modes : list Z) (data : list V) (K : ktensor V) : bool * ktensor V :=
  if py_strict_asc modes then
    if py_validate K modes data then py_update_loop modes data 0 K else (false, K)
  else (false, K).

(* update as it was before b9311d6 (no pass 1): kept to state what the repair changed *)
Definition py_update_one_pass (modes : list Z) (data : list V) (K : ktensor V) : bool * ktensor V :=
  if py_strict_asc modes then py_update_loop modes data 0 K else (false, K).

End U8.

Definition zk_py_update := @py_update Z 0%Z.
