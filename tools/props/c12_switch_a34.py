#!/usr/bin/env python3
"""Run ONCE after fixes/C12-A-34.diff has been applied to /repo (negative_binomial_grad repaired):
switches the C12 development from the refutation of the negative-binomial pair to the positive theorem.
  - coq/project.d/C12.list : Proofs/C12NegBinRefuted.v -> Proofs/C12NegBin.v
  - coq/theories/Props/C12.v : import Proofs.C12NegBin, and the block between the BEGIN/END markers becomes
    Theorem C12_negative_binomial_deriv (exact negative_binomial_deriv)
  - coq/theories/Proofs/C12Setup.v and the "A-34 setup" block of Props/C12.v: the negative-binomial row of the fg_setup table
    becomes the full statement (every positive data value, every model value >= 0)
Usage: python3 tools/props/c12_switch_a34.py [/verif]"""
import os
import re
import sys

root = sys.argv[1] if len(sys.argv) > 1 else os.path.join(os.path.dirname(os.path.abspath(__file__)), "..", "..")
lst = os.path.join(root, "coq", "project.d", "C12.list")
s = open(lst).read().replace("theories/Proofs/C12NegBinRefuted.v", "theories/Proofs/C12NegBin.v")
open(lst, "w").write(s)
pv = os.path.join(root, "coq", "theories", "Props", "C12.v")
s = open(pv).read()
s = s.replace("Proofs.C12NegBinRefuted", "Proofs.C12NegBin")
new_block = '''(* ---- negative binomial: BEGIN block (switched: fixes/C12-A-34.diff applied) ------------------------- *)
Theorem C12_negative_binomial_deriv : forall x m r, 0 <= m ->
  is_derive (fun m => negative_binomial x m r) m (negative_binomial_grad x m r).
Proof. exact negative_binomial_deriv. Qed.
Print Assumptions C12_negative_binomial_deriv.
(* ---- END block ---------------------------------------------------------------------------------- *)'''
s2, n = re.subn(r"\(\* ---- negative binomial: BEGIN block.*?\(\* ---- END block -+ \*\)", lambda m: new_block, s, flags=re.S)
if n != 1:
    sys.exit("BEGIN/END block not found in Props/C12.v")
setup_block_props = '''(* ---- A-34 setup: BEGIN block (switched) ---- *)
(* negative binomial: the pair the table selects is consistent on the whole domain (A-34 repaired) *)
Theorem C12_setup_negative_binomial : forall p x m, above_bound NegativeBinomial m ->
  is_derive (fun m => loss NegativeBinomial p x m) m (grad NegativeBinomial p x m).
Proof. exact setup_negative_binomial. Qed.
Print Assumptions C12_setup_negative_binomial.
(* ---- END A-34 setup block ---- *)'''
s2, n = re.subn(r"\(\* ---- A-34 setup: BEGIN block.*?\(\* ---- END A-34 setup block ---- \*\)", lambda m: setup_block_props, s2, flags=re.S)
if n != 1:
    sys.exit("A-34 setup block not found in Props/C12.v")
open(pv, "w").write(s2)
ps = os.path.join(root, "coq", "theories", "Proofs", "C12Setup.v")
s = open(ps).read().replace("Proofs.C12NegBinRefuted", "Proofs.C12NegBin")
setup_block = '''(* ---- A-34 setup: BEGIN block (switched: fixes/C12-A-34.diff applied) ---- *)
Theorem setup_negative_binomial : forall p x m, above_bound NegativeBinomial m ->
  is_derive (fun m => loss NegativeBinomial p x m) m (grad NegativeBinomial p x m).
Proof. intros p x m Hm. cbn in Hm. now apply negative_binomial_deriv. Qed.
(* ---- END A-34 setup block ---- *)'''
s2, n = re.subn(r"\(\* ---- A-34 setup: BEGIN block.*?\(\* ---- END A-34 setup block ---- \*\)", lambda m: setup_block, s, flags=re.S)
if n != 1:
    sys.exit("A-34 setup block not found in Proofs/C12Setup.v")
open(ps, "w").write(s2)
for ext in (".vo", ".vos", ".vok", ".glob"):
    p = os.path.join(root, "coq", "theories", "Proofs", "C12NegBinRefuted" + ext)
    if os.path.exists(p):
        os.remove(p)
print("switched C12 to the positive negative-binomial theorem")
