(* Model/W4KtensorVec.v — hand references for ktensor.tovec and ktensor.update as generated into Gen/GenKtensor4.v.
   H_tovec is a closed expression (no running offset, no slice stores); H_update is a validation fold (H_needed) followed by a fold of one step per listed mode
   (the state is the tensor and the read position), the sortedness guard is the recursive predicate [asc]. *)
From Coq Require Import List ZArith Arith Bool Lia.
From PV Require Import Np.NpZ Np.NpZ2 Np.NpZ3 Np.NpZ3c Np.NpZ3d Np.NpZ3e Np.NpZ4 Model.W4Ktensor.
Import ListNotations.
Local Open Scope Z_scope.

(* ---- tovec(include_weights): the weights, then for every factor its columns one after the other.  Raises when a row of
   a factor has fewer entries than there are weights (ill-formed record) ---- *)
Definition H_cols_ok (k : ktz) : bool :=
  forallb (fun f => forallb (fun r => np_col_ok f r) (np_arange 0 (zlen (kt_weights k)))) (kt_factors k).
Definition H_vec_factor (R : Z) (f : mat) : vec := concat (map (fun r => np_col f r) (np_arange 0 R)).
Definition H_tovec (self : ktz) (include_weights : bool) : res vec :=
  if H_cols_ok self
  then Ok ((if include_weights then kt_weights self else []) ++ concat (map (H_vec_factor (zlen (kt_weights self))) (kt_factors self)))
  else Err.

(* ---- update(modes, data) ---- (two passes since /repo b9311d6: the whole request is validated before the first store) *)
(* strictly ascending: `np.all(modes[:-1] < modes[1:])` *)
Fixpoint asc (l : vec) : bool :=
  match l with
  | x :: (y :: _) as t => (x <? y) && asc t
  | _ => true
  end.
(* pass 1: the number of data entries the request consumes; Err for a mode outside {-1} u [0, ndims) *)
Definition H_need_step (self : ktz) (k needed : Z) : res Z :=
  let R := zlen (kt_weights self) in
  if k =? -1 then Ok (needed + R)
  else if (0 <=? k) && (k <? zlen (kt_factors self)) then Ok (needed + np_nrows (znth [] (kt_factors self) k) * R)
  else Err.
Fixpoint H_needed (self : ktz) (modes : vec) (needed : Z) : res Z :=
  match modes with
  | [] => Ok needed
  | k :: ms => bind (H_need_step self k needed) (H_needed self ms)
  end.
Definition H_chunk (data : vec) (loc e : Z) : vec := py_slice 0 data (mkslice (Some loc) (Some e) None).
Definition H_update_step (data : vec) (k : Z) (st : ktz * Z) : res (ktz * Z) :=
  let s := fst st in let loc := snd st in
  let R := zlen (kt_weights s) in
  if k =? -1 then
    let e := loc + R in
    if zlen data <? e then Err else Ok (kt_set_weights s (H_chunk data loc e), e)
  else if k <? zlen (kt_factors s) then
    if idx_ok (kt_factors s) k then
      let m := np_nrows (znth [] (kt_factors s) k) in
      let e := loc + m * R in
      if zlen data <? e then Err
      else if np_reshape2_ok (H_chunk data loc e) m R then Ok (kt_set_factor s k (np_reshape2 OrdF (H_chunk data loc e) m R), e) else Err
    else Err
  else Err.
Fixpoint H_update_loop (data : vec) (modes : vec) (st : ktz * Z) : res (ktz * Z) :=
  match modes with
  | [] => Ok st
  | k :: ms => bind (H_update_step data k st) (H_update_loop data ms)
  end.
Definition H_update (self : ktz) (modes data : vec) : res ktz :=
  if asc modes then
    bind (H_needed self modes 0) (fun needed =>
      if zlen data <? needed then Err else bind (H_update_loop data modes (self, 0)) (fun st => Ok (fst st)))
  else Err.
