(* Proofs/C03Lemmas.v — facts about coordinate lists shared by the C03 and C06 proofs:
   membership of entries vs denotation, permutation invariance of the denotation, uniqueness of the
   representation up to the stored order (canon_unique). *)
From Coq Require Import List Arith Lia Bool Permutation.
From PV Require Import Base.Index Np.Array Model.Sparse Model.C03Ops.
Import ListNotations.

Lemma mem_spec i l : mem i l = true <-> In i l.
Proof.
  unfold mem. rewrite existsb_exists. split.
  - intros (j & Hj & E). apply idx_eqb_spec in E. now subst.
  - intros H. exists i. split; auto. apply idx_eqb_refl.
Qed.

Lemma mem_false i l : mem i l = false <-> ~ In i l.
Proof. rewrite <- mem_spec. destruct (mem i l); split; intros; try discriminate; auto. now exfalso. Qed.

Lemma combine_map_fst_snd {A B} (l : list (A * B)) : combine (map fst l) (map snd l) = l.
Proof. induction l as [|[a b] l IH]; cbn; auto. now rewrite IH. Qed.

Lemma in_combine_exists {A B} (l : list A) (l' : list B) a : length l = length l' -> In a l -> exists b, In (a, b) (combine l l').
Proof.
  revert l'; induction l as [|x l IH]; intros [|y l'] HL Hin; cbn in *; try discriminate; try contradiction.
  destruct Hin as [->|Hin]; [exists y; auto|]. destruct (IH l') as (b & Hb); auto. exists b; auto.
Qed.

Section Lemmas.
Context {V : Type} (v0 : V) (isz : V -> bool).
Hypothesis isz_spec : forall v, isz v = true <-> v = v0.

Notation den := (den_sp v0).
Notation wf := (wf_sp isz).

Lemma isz_false v : isz v = false <-> v <> v0.
Proof. rewrite <- isz_spec. destruct (isz v); split; intros; try discriminate; auto. now exfalso. Qed.

Lemma wf_sp_struct (S : sparse V) : wf S -> wf_struct S.
Proof. intros (H1 & H2 & H3 & _). repeat split; auto. Qed.

(* one value per subscript: an entry of a structurally well-formed tensor is its denotation there *)
Lemma den_struct_in (S : sparse V) i v : wf_struct S -> In (i, v) (entries S) -> den S i = v.
Proof.
  intros (HL & Hn & _) Hin. unfold den_sp. apply last_match_in; auto. now rewrite map_fst_entries.
Qed.

Lemma in_subs_entry (S : sparse V) i : wf_struct S -> In i (ssubs S) -> In (i, den S i) (entries S).
Proof.
  intros W Hin. destruct W as (HL & Hn & Hb).
  destruct (in_combine_exists (ssubs S) (svals S) i HL Hin) as (v & Hv).
  rewrite (den_struct_in S i v); auto. repeat split; auto.
Qed.

(* membership of an entry, in terms of the denotation only *)
Lemma in_entries_iff (S : sparse V) i v : wf S ->
  (In (i, v) (entries S) <-> den S i = v /\ v <> v0).
Proof.
  intros W. pose proof (wf_sp_struct S W) as Ws. split.
  - intros Hin. split; [now apply den_struct_in|].
    destruct W as (_ & _ & _ & Hz). rewrite Forall_forall in Hz.
    apply isz_false. apply Hz. unfold entries in Hin. now apply in_combine_r in Hin.
  - intros (E & Hv). assert (Hi : In i (ssubs S)).
    { destruct (in_dec (list_eq_dec Nat.eq_dec) i (ssubs S)) as [H|H]; auto.
      rewrite den_sp_notin in E by auto. congruence. }
    rewrite <- E. now apply in_subs_entry.
Qed.

Lemma in_subs_iff (S : sparse V) i : wf S -> (In i (ssubs S) <-> den S i <> v0).
Proof.
  intros W. pose proof (wf_sp_struct S W) as Ws. split.
  - intros Hin. apply (in_subs_entry S i Ws) in Hin. now apply in_entries_iff in Hin.
  - intros Hd. destruct (in_dec (list_eq_dec Nat.eq_dec) i (ssubs S)) as [H|H]; auto.
    now rewrite den_sp_notin in Hd.
Qed.

Lemma den_out (S : sparse V) i : wf_struct S -> inb (sshape S) i = false -> den S i = v0.
Proof.
  intros (_ & _ & Hb) Hi. apply den_sp_notin. intros Hin. rewrite Forall_forall in Hb.
  specialize (Hb _ Hin). congruence.
Qed.

Lemma NoDup_entries (S : sparse V) : wf_struct S -> NoDup (entries S).
Proof.
  intros (HL & Hn & _). apply (NoDup_map_inv fst). now rewrite map_fst_entries.
Qed.

(* the representation is unique up to the stored order *)
Theorem canon_unique (X Y : sparse V) : wf X -> wf Y ->
  (forall i, den X i = den Y i) -> Permutation (entries X) (entries Y).
Proof.
  intros WX WY E. apply NoDup_Permutation.
  - apply NoDup_entries. now apply wf_sp_struct.
  - apply NoDup_entries. now apply wf_sp_struct.
  - intros [i v]. rewrite !in_entries_iff by auto. now rewrite E.
Qed.

(* conversely: the stored order does not influence the denotation *)
Lemma last_match_perm i (es es' : list (idx * V)) d :
  NoDup (map fst es) -> Permutation es es' -> last_match i es d = last_match i es' d.
Proof.
  intros Hn HP.
  assert (Hn' : NoDup (map fst es')) by (eapply Permutation_NoDup; [apply Permutation_map, HP|auto]).
  destruct (in_dec (list_eq_dec Nat.eq_dec) i (map fst es)) as [Hin|Hout].
  - apply in_map_iff in Hin as ([j v] & Ej & Hin). cbn in Ej. subst j.
    rewrite (last_match_in i v es d Hn Hin).
    symmetry. apply last_match_in; auto. eapply Permutation_in; eauto.
  - rewrite !last_match_notin; auto.
    + intros e He Hf. apply Hout. rewrite <- Hf. apply in_map. eapply Permutation_in; [symmetry; apply HP|auto].
    + intros e He Hf. apply Hout. rewrite <- Hf. now apply in_map.
Qed.

Theorem den_perm (X Y : sparse V) : wf_struct X -> Permutation (entries X) (entries Y) ->
  forall i, den X i = den Y i.
Proof.
  intros (HL & Hn & _) HP i. unfold den_sp. apply last_match_perm; auto. now rewrite map_fst_entries.
Qed.

Lemma entries_of_entries s (es : list (idx * V)) : entries (of_entries s es) = es.
Proof. unfold entries, of_entries. cbn. apply combine_map_fst_snd. Qed.

Lemma entries_sp_const s subs (c : V) : entries (sp_const s subs c) = map (fun i => (i, c)) subs.
Proof. unfold entries, sp_const. cbn. induction subs as [|i l IH]; cbn; auto. now rewrite IH. Qed.

End Lemmas.
