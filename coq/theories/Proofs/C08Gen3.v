(* Proofs/C08Gen3.v — wave 4/5: the translator-GENERATED ktensor.update (Gen/GenKtensor4.v, regenerated from /repo/pyttb/ktensor.py
   on every run; two passes since /repo b9311d6) IS C08's state machine py_update (Model/C08Update.v): it answers Ok exactly on the
   requests py_update accepts, with the same receiver, and Err exactly on those py_update rejects — where py_update leaves the receiver
   untouched (Proofs/C08Update.v).  Hence it computes the functional hand model k_update (Model/C08Kruskal.v).
   Route: update_bridge (w5-translator, Proofs/W4KtensorVec.v): ktensor_update = H_update (strict guard [asc], pass 1 [H_needed], a fold
   with a read position into the data vector, chunks taken by Python slices, np.reshape(order="F"));  here: H_needed = py_needed,
   H_update_loop = py_update_loop on the shared record.  C08_update_all_modes / C08_update_frame / C08_update_rejected_unchanged therefore
   speak about the generated code. *)
From Coq Require Import List ZArith Arith Bool Lia.
From PV Require Import Base.Index Base.Perm Base.Sum Np.NpZ Np.NpZ2 Np.NpZ3 Np.NpZ3c Np.NpZ3d Np.NpZ3e Np.NpZ4 Proofs.NpZProofs
  Proofs.W3Bridge Model.Repr Model.C08Kruskal Model.C08Update Model.W4Ktensor Model.W4KtensorVec Proofs.W4Slices Proofs.W4KtensorVec Gen.GenKtensor4
  Proofs.C08Gen Proofs.C08Vec Proofs.C08Update Model.C08Inst.
Import ListNotations.
Local Open Scope Z_scope.

Lemma chunk_firstn (data : vec) (loc n : Z) : 0 <= loc -> 0 <= n -> loc + n <= zlen data ->
  H_chunk data loc (loc + n) = firstn (Z.to_nat n) (skipn (Z.to_nat loc) data).
Proof. intros H1 H2 H3. unfold H_chunk. rewrite py_slice_in by lia. do 2 f_equal. lia. Qed.

Lemma reshapeF_unvec (chunk : vec) (m R : nat) :
  np_reshape2 OrdF chunk (Z.of_nat m) (Z.of_nat R) = unvec_factor 0 m R chunk.
Proof.
  unfold np_reshape2, unvec_factor. rewrite !np_arange_0, map_map. apply map_ext. intros i. rewrite map_map. apply map_ext. intros j.
  rewrite <- Nat2Z.inj_mul, <- Nat2Z.inj_add. apply znth_nat.
Qed.

Lemma nrows_nth (fs : list (list (list Z))) (k : nat) : nth k (map (@nrows Z) fs) 0%nat = length (nth k fs []).
Proof. revert k. induction fs as [|f fs IH]; intros [|k]; cbn; auto. Qed.

(* the strict guard of the hand reference is the guard of the state machine (same recursion) *)
Lemma asc_is_strict (l : vec) : asc l = py_strict_asc l.
Proof. reflexivity. Qed.

(* ---------------------------------------------------------------- pass 1 *)
Lemma needed_model (self : ktz) : forall (ms : vec) (n : nat),
  H_needed self ms (Z.of_nat n) = match py_needed (to_K self) ms n with Some t => Ok (Z.of_nat t) | None => Err end.
Proof.
  induction ms as [|k ms IH]; intros n; cbn [H_needed py_needed]; [reflexivity|].
  unfold H_need_step. unfold krank, kshape, to_K. cbn [kweights kfactors]. fold (to_K self).
  unfold NpZ.mat, NpZ.vec, matrix in *.
  destruct (k =? -1).
  - cbn [bind]. unfold zlen. rewrite <- Nat2Z.inj_add. apply IH.
  - change (zlen (kt_factors self)) with (Z.of_nat (length (kt_factors self))).
    destruct (Z.leb_spec 0 k) as [H0|]; [|reflexivity].
    destruct (Z.ltb_spec k (Z.of_nat (length (kt_factors self)))) as [H1|H1];
      [try match goal with |- context [k <? ?y] => replace (k <? y) with true by (symmetry; apply Z.ltb_lt; exact H1) end
      |try match goal with |- context [k <? ?y] => replace (k <? y) with false by (symmetry; apply Z.ltb_ge; exact H1) end; reflexivity].
    cbn [andb bind].
    replace (np_nrows (znth [] (kt_factors self) k)) with (Z.of_nat (nth (Z.to_nat k) (map (@nrows Z) (kt_factors self)) 0%nat)).
    + unfold zlen. rewrite <- Nat2Z.inj_mul, <- Nat2Z.inj_add. apply IH.
    + rewrite nrows_nth. rewrite <- (Z2Nat.id k) at 2 by lia. rewrite znth_nat. reflexivity.
Qed.

(* ---------------------------------------------------------------- pass 2: the generated loop and the state machine's loop stop / finish together *)
Lemma update_loop_state (data : vec) : forall (ms : vec) (s : ktz) (loc : nat),
  (forall k, In k ms -> -1 <= k) ->
  match H_update_loop data ms (s, Z.of_nat loc) with
  | Ok st' => py_update_loop 0 ms data loc (to_K s) = (true, to_K (fst st'))
  | Err => fst (py_update_loop 0 ms data loc (to_K s)) = false
  end.
Proof.
  induction ms as [|k ms IH]; intros s loc Hms; cbn [H_update_loop py_update_loop]; [reflexivity|].
  assert (Hk : -1 <= k) by (apply Hms; now left).
  assert (Hms' : forall k, In k ms -> -1 <= k) by (intros; apply Hms; now right).
  unfold H_update_step. cbn [fst snd]. cbv zeta.
  change (krank (to_K s)) with (length (kt_weights s)). change (kfactors (to_K s)) with (kt_factors s).
  change (kweights (to_K s)) with (kt_weights s).
  set (R := length (kt_weights s)).
  change (zlen (kt_weights s)) with (Z.of_nat R). change (zlen (kt_factors s)) with (Z.of_nat (length (kt_factors s))).
  destruct (Z.eqb_spec k (-1)) as [E1|E1].
  - (* the weights *)
    destruct (Z.ltb_spec (zlen data) (Z.of_nat loc + Z.of_nat R)) as [Hlt|Hge];
      destruct (Nat.ltb_spec (length data) (loc + R)) as [Hlt'|Hge']; unfold zlen in *; try lia; cbn [bind]; [reflexivity|].
    rewrite chunk_firstn by (unfold zlen; lia). rewrite !Nat2Z.id. rewrite <- Nat2Z.inj_add.
    exact (IH (kt_set_weights s (firstn R (skipn loc data))) (loc + R)%nat Hms').
  - (* factor k >= 0 *)
    assert (Hk0 : 0 <= k) by lia.
    destruct (Z.ltb_spec k (Z.of_nat (length (kt_factors s)))) as [Hlt|Hnlt];
      [try match goal with |- context [k <? ?y] => replace (k <? y) with true by (symmetry; apply Z.ltb_lt; exact Hlt) end
      |try match goal with |- context [k <? ?y] => replace (k <? y) with false by (symmetry; apply Z.ltb_ge; exact Hnlt) end; reflexivity].
    match goal with |- context [py_index ?n k] => replace (py_index n k) with (Some (Z.to_nat k)) by (symmetry; exact (py_index_nonneg _ k (conj Hk0 Hlt))) end.
    replace (idx_ok (kt_factors s) k) with true by (symmetry; unfold idx_ok, zlen; apply andb_true_iff; split; [apply Z.leb_le|apply Z.ltb_lt]; lia).
    set (kn := Z.to_nat k). assert (Hkn : (kn < length (kt_factors s))%nat) by lia.
    assert (Ek : k = Z.of_nat kn) by (unfold kn; lia).
    set (mn := length (nth kn (kt_factors s) [])).
    assert (Hm : np_nrows (znth [] (kt_factors s) k) = Z.of_nat mn) by (rewrite Ek, znth_nat; reflexivity).
    rewrite Hm. rewrite <- Nat2Z.inj_mul.
    assert (Hm' : nth kn (kshape (to_K s)) 0%nat = mn) by (unfold kshape, to_K; cbn [kfactors]; apply nrows_nth).
    rewrite Hm'.
    destruct (Z.ltb_spec (zlen data) (Z.of_nat loc + Z.of_nat (mn * R))) as [Hlt2|Hge];
      destruct (Nat.ltb_spec (length data) (loc + mn * R)) as [Hlt'|Hge']; unfold zlen in *; try lia; cbn [bind]; [reflexivity|].
    rewrite chunk_firstn by (unfold zlen; lia). rewrite !Nat2Z.id.
    replace (np_reshape2_ok (firstn (mn * R) (skipn loc data)) (Z.of_nat mn) (Z.of_nat R)) with true.
    2:{ symmetry. unfold np_reshape2_ok, zlen. rewrite firstn_length, skipn_length.
        apply andb_true_iff; split; [apply andb_true_iff; split; apply Z.leb_le; lia|apply Z.eqb_eq; lia]. }
    rewrite reshapeF_unvec. rewrite <- Nat2Z.inj_add.
    pose proof (IH (kt_set_factor s k (unvec_factor 0 mn R (firstn (mn * R) (skipn loc data)))) (loc + mn * R)%nat Hms') as G.
    replace (to_K (kt_set_factor s k (unvec_factor 0 mn R (firstn (mn * R) (skipn loc data)))))
      with (mkK (kt_weights s) (upd_nth kn (fun _ => unvec_factor 0 mn R (firstn (mn * R) (skipn loc data))) (kt_factors s))) in G.
    + exact G.
    + unfold to_K, kt_set_factor. cbn [kt_weights kt_factors]. f_equal.
      unfold np_set. replace (k <? 0) with false by (symmetry; apply Z.ltb_ge; lia).
      symmetry. exact (upd_is_upd_nth (fun _ => unvec_factor 0 mn R (firstn (mn * R) (skipn loc data))) [] (kt_factors s) kn Hkn).
Qed.

(* ---------------------------------------------------------------- THE GENERATED update IS THE STATE MACHINE *)
Theorem gen_update_state (self : ktz) (modes data : vec) :
  match ktensor_update self modes data with
  | Ok k' => py_update 0 modes data (to_K self) = (true, to_K k')
  | Err => py_update 0 modes data (to_K self) = (false, to_K self)
  end.
Proof.
  rewrite update_bridge. unfold H_update, py_update. rewrite asc_is_strict.
  destruct (py_strict_asc modes); [|reflexivity].
  change 0 with (Z.of_nat 0) at 1. rewrite needed_model. unfold py_validate.
  destruct (py_needed (to_K self) modes 0) as [tot|] eqn:EN; cbn [bind]; [|reflexivity].
  destruct (Z.ltb_spec (zlen data) (Z.of_nat tot)) as [Hlt|Hge]; destruct (Nat.leb_spec tot (length data)) as [Hle|Hgt];
    unfold zlen in *; try lia; [reflexivity|].
  assert (Hms : forall k, In k modes -> -1 <= k) by (intros k Hk; destruct (py_needed_modes Z (to_K self) modes 0%nat tot EN k Hk); lia).
  pose proof (update_loop_state data modes self 0%nat Hms) as G. change (Z.of_nat 0) with 0 in G.
  pose proof (py_update_loop_after_validate Z 0 data modes (to_K self) (to_K self) 0%nat tot eq_refl eq_refl EN Hle) as A.
  destruct (H_update_loop data modes (self, 0)) as [st'|]; cbn [bind]; [exact G|].
  rewrite A in G. discriminate.
Qed.

(* Err exactly on the rejected requests (where the receiver stays as it was), Ok exactly on the accepted ones *)
Theorem gen_update_rejects_iff (self : ktz) (modes data : vec) :
  ktensor_update self modes data = Err <-> py_strict_asc modes && py_validate (to_K self) modes data = false.
Proof.
  pose proof (gen_update_state self modes data) as G. rewrite <- (py_update_accepts_iff Z 0 modes data (to_K self)).
  destruct (ktensor_update self modes data) as [k'|]; rewrite G; cbn [fst]; split; intros; congruence.
Qed.

(* THE GENERATED update COMPUTES THE HAND MODEL — no hypothesis on the modes any more: pass 1 refuses every mode below -1 *)
Theorem gen_update_model (self k' : ktz) (modes data : vec) :
  ktensor_update self modes data = Ok k' ->
  to_K k' = k_update 0 (map mopt modes) data (to_K self).
Proof.
  intros E. pose proof (gen_update_state self modes data) as G. rewrite E in G.
  pose proof (py_update_accepted_model Z 0 modes data (to_K self)) as M. rewrite G in M. cbn [fst snd] in M. now apply M.
Qed.

(* update with ALL modes, weights first (modes = [-1, 0, ..., ndims-1]) and exactly R * (sum(shape) + 1) numbers: the generated code
   ACCEPTS, and the receiver becomes from_vector of the data *)
Lemma all_modes_arange (N : nat) : -1 :: np_arange 0 (Z.of_nat N) = all_modes N.
Proof. unfold all_modes. now rewrite np_arange_0. Qed.

Theorem gen_update_all_modes_accepted (self : ktz) (data : vec) :
  length data = (krank (to_K self) * (sum_nat (kshape (to_K self)) + 1))%nat ->
  exists k', ktensor_update self (-1 :: np_arange 0 (zlen (kt_factors self))) data = Ok k' /\
             to_K k' = k_from_vector 0 1 data (kshape (to_K self)) true.
Proof.
  intros Hlen. unfold zlen. rewrite all_modes_arange.
  pose proof (gen_update_state self (all_modes (length (kt_factors self))) data) as G.
  pose proof (py_update_all_modes Z 0 1 (to_K self) data Hlen) as A. cbn [to_K kfactors] in A.
  destruct (ktensor_update self (all_modes (length (kt_factors self))) data) as [k'|].
  - exists k'. split; [reflexivity|]. exact (f_equal snd (eq_trans (eq_sym G) A)).
  - pose proof (eq_trans (eq_sym G) A) as E. discriminate E.
Qed.

Theorem gen_update_all_modes (self k' : ktz) (data : vec) :
  ktensor_update self (-1 :: np_arange 0 (zlen (kt_factors self))) data = Ok k' ->
  length data = (krank (to_K self) * (sum_nat (kshape (to_K self)) + 1))%nat ->
  to_K k' = k_from_vector 0 1 data (kshape (to_K self)) true.
Proof.
  intros E Hlen. destruct (gen_update_all_modes_accepted self data Hlen) as (k2 & E2 & H2). rewrite E in E2. now injection E2 as ->.
Qed.

(* the modes that are not named keep their weights / factors (frame), for the generated update *)
Theorem gen_update_frame (self k' : ktz) (modes data : vec) :
  ktensor_update self modes data = Ok k' ->
  (~ In (-1) modes -> kt_weights k' = kt_weights self) /\
  (forall j : nat, ~ In (Z.of_nat j) modes -> nth j (kt_factors k') [] = nth j (kt_factors self) []).
Proof.
  intros E. pose proof (gen_update_model self k' modes data E) as HK.
  assert (Hms : forall k, In k modes -> -1 <= k).
  { intros k Hk. pose proof (gen_update_state self modes data) as G. rewrite E in G.
    pose proof (py_update_accepts_iff Z 0 modes data (to_K self)) as A. rewrite G in A. cbn [fst] in A. symmetry in A.
    apply andb_true_iff in A as [_ A]. unfold py_validate in A. destruct (py_needed (to_K self) modes 0) as [tot|] eqn:EN; [|discriminate].
    destruct (py_needed_modes Z (to_K self) modes 0%nat tot EN k Hk); lia. }
  destruct (update_frame Z 0 (map mopt modes) data (to_K self)) as [F1 F2]. split.
  - intros Hn. change (kt_weights k') with (kweights (to_K k')). rewrite HK. apply F1.
    intros HIn. apply in_map_iff in HIn as (k & Hk & HkIn). unfold mopt in Hk. destruct (Z.eqb_spec k (-1)); [subst; contradiction|discriminate].
  - intros j Hn. change (kt_factors k') with (kfactors (to_K k')). rewrite HK. apply F2.
    intros HIn. apply in_map_iff in HIn as (k & Hk & HkIn). unfold mopt in Hk. destruct (Z.eqb_spec k (-1)); [discriminate|].
    injection Hk as Hk. apply Hn. replace (Z.of_nat j) with k; [exact HkIn|]. specialize (Hms k HkIn). lia.
Qed.

(* used by the correspondence cases (op update_req): the GENERATED update evaluated on the same literal request as pyttb —
   Ok with pyttb's receiver when pyttb accepted, Err when pyttb raised *)
Definition zk_gen_update_agrees (ms data : vec) (K O : ktensor Z) (accepted : bool) : bool :=
  match ktensor_update (mkkt (kweights K) (kfactors K)) ms data with
  | Ok k' => accepted && zk_eqb (to_K k') O
  | Err => negb accepted
  end.
