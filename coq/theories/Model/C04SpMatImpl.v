(* Model/C04SpMatImpl.v — C04, wave 4: TRANSLITERATION of pyttb/sptenmat.py  sptenmat.__setitem__  (as repaired by 6222cf1 zero
   removal, 39e0a13 range check / negative subscripts, 8f8b86e `pending` table for repeated key indices), executable, value type
   generic.  The key is resolved to the list of (position, value) pairs in the order of pyttb's double loop
   (`for j in csubs: for i in rsubs: k += 1`: row index fastest = F order of the addressed block = cartF), then:
     - a position that is stored (looked up in self.subs, which the loop never changes) gets its value overwritten in place;
     - a position not stored but already appended in this call (`pending`) gets the appended value overwritten;
     - any other position is appended;
     - if something was appended: vstack + np.lexsort over (row, col); finally entries with value 0 are dropped. *)
From Coq Require Import List Arith Bool.
From PV Require Import Base.Index Np.Array Model.Sparse Model.C04Model Model.C04Mat.
Import ListNotations.

Section I.
Context {V : Type} (v0 : V) (isz : V -> bool).

(* self.vals[indx] = value[k]  /  newvals[pending[p]] = value[k] *)
Definition upd_all (p : idx) (v : V) (es : list (idx * V)) : list (idx * V) :=
  map (fun e : idx * V => if idx_eqb p (fst e) then (fst e, v) else e) es.

Definition loop_step (keys0 : list idx) (st : list (idx * V) * list (idx * V)) (a : idx * V)
  : list (idx * V) * list (idx * V) :=
  let (es, new) := st in
  if memb (fst a) keys0 then (upd_all (fst a) (snd a) es, new)
  else if memb (fst a) (map fst new) then (es, upd_all (fst a) (snd a) new)
  else (es, new ++ [a]).

Definition sptenmat_set_entries (es asg : list (idx * V)) : list (idx * V) :=
  let (es1, new) := fold_left (loop_step (map fst es)) asg (es, []) in
  let all := match new with [] => es1 | _ => fold_right ins_row [] (es1 ++ new) end in
  filter (fun e : idx * V => negb (isz (snd e))) all.

(* M[key] = rhs on a sptenmat of shape [r; c]: key resolution without growth (out-of-range / malformed requests are rejected) *)
Definition sptenmat_setitem (S : sparse V) (es : list kelem) (r : rhs V) : option (sparse V) :=
  if is_2way (sshape S) && Nat.eqb (length es) 2 then
    match region_lists (sshape S) es with
    | Some ls => match finish_set r (sshape S) (cartF (map snd ls)) with
                 | Some (s', asg) => Some (of_entries (sshape S) (sptenmat_set_entries (entries S) asg))
                 | None => None end
    | None => None end
  else None.
End I.
