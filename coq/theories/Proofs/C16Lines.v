(* Proofs/C16Lines.v — the LINE-SENSITIVE import model (Model/C16Lines.v): round trip through the lines export writes,
   and what import rejects. *)
From Coq Require Import String.
From Coq Require Import List Arith ZArith Lia Bool.
From PV Require Import Base.Index Np.Array Model.Sparse Model.Repr Model.C16IO Model.C16Lines Proofs.C16Proofs.
Import ListNotations.

Section P.
Variables (D T : Type) (d0 : D) (print : D -> T) (parse : T -> D) (ofZ : Z -> D).
Hypothesis parse_print : forall v : D, parse (print v) = v.

Notation token := (token T).
Notation line := (list token).
Notation stream := (stream T).
Notation to_stream := (to_stream T).
Notation readline := (readline T).
Notation skip_ws := (skip_ws T).
Notation num := (num D T print).
Notation zn := (@zn T).
Notation rd_vals := (rd_vals D T parse ofZ).
Notation rd_vals_aux := (rd_vals_aux D T parse ofZ).
Notation import_lines := (import_lines D T d0 parse ofZ).
Notation import_stream := (import_stream D T d0 parse ofZ).
Notation export_lines := (export_lines D T d0 print).
Notation entry_of_line := (entry_of_line D T parse ofZ).
Notation rd_entries_l := (rd_entries_l D T parse ofZ).
Notation rd_factors_l := (rd_factors_l D T parse ofZ).

(* ---------------------------------------------------------------- streams *)
Lemma to_stream_cons (l : line) f : to_stream (l :: f) = map Some l ++ None :: to_stream f.
Proof. unfold C16Lines.to_stream. cbn [flat_map]. now rewrite <- app_assoc. Qed.
Lemma to_stream_app f g : to_stream (f ++ g) = to_stream f ++ to_stream g.
Proof. unfold C16Lines.to_stream. apply flat_map_app. Qed.
Lemma readline_line (l : line) (s : stream) : readline (map Some l ++ None :: s) = (l, s).
Proof. induction l as [|t l IH]; cbn; auto. now rewrite IH. Qed.
Lemma readline_cons (l : line) f (s : stream) : readline (to_stream (l :: f) ++ s) = (l, to_stream f ++ s).
Proof. rewrite to_stream_cons, <- app_assoc. cbn [app]. apply readline_line. Qed.

(* ---------------------------------------------------------------- shapes *)
Lemma all_ints_zn (sh : shape) : all_ints T (map zn sh) = Some (map Z.of_nat sh).
Proof. induction sh as [|d sh IH]; cbn; auto. now rewrite IH. Qed.

Lemma rd_shape_z_lines (sh : shape) (s : stream) :
  rd_shape_z T (to_stream (size_lines T sh) ++ s) = Some (map Z.of_nat sh, s).
Proof.
  unfold rd_shape_z, size_lines. rewrite readline_cons. cbn [fst snd]. rewrite readline_cons. cbn [fst snd].
  cbn [head_int int_tok C16IO.zn bindo]. rewrite all_ints_zn. cbn [bindo]. rewrite !map_length, Z.eqb_refl. cbn [negb].
  reflexivity.
Qed.

Lemma rd_shape_l_lines (sh : shape) (s : stream) :
  rd_shape_l T (to_stream (size_lines T sh) ++ s) = Some (sh, s).
Proof.
  unfold rd_shape_l. rewrite rd_shape_z_lines. cbn [bindo fst snd].
  replace (forallb (fun z => (0 <=? z)%Z) (map Z.of_nat sh)) with true.
  - rewrite map_map. f_equal. f_equal. rewrite <- (map_id sh) at 2. apply map_ext. intros. apply Nat2Z.id.
  - symmetry. apply forallb_forall. intros z Hz. apply in_map_iff in Hz as (d & <- & _). apply Z.leb_le. lia.
Qed.

(* ---------------------------------------------------------------- values *)
Lemma aux_row (r : list D) k (rest : stream) :
  rd_vals_aux (length r + k) (map Some (map num r) ++ rest) =
  bindo (rd_vals_aux k rest) (fun q => Some (r ++ fst q, snd q)).
Proof.
  induction r as [|v r IH]; cbn [length Nat.add map app].
  - destruct (rd_vals_aux k rest) as [[a b]|]; reflexivity.
  - cbn [C16Lines.rd_vals_aux C16Lines.skip_ws val_tok C16IO.num bindo]. rewrite IH, parse_print.
    destruct (rd_vals_aux k rest) as [[a b]|]; reflexivity.
Qed.

Lemma aux_skip k (X : stream) : 0 < k -> rd_vals_aux k (None :: X) = rd_vals_aux k X.
Proof. destruct k; [lia|]. reflexivity. Qed.

Lemma aux_rows (rows : list (list D)) (s : stream) : rows <> [] -> Forall (fun r => r <> []) rows ->
  rd_vals_aux (length (concat rows)) (to_stream (map (num_line D T print) rows) ++ s) = Some (concat rows, None :: s).
Proof.
  induction rows as [|r rows IH]; intros Hne Hr; [congruence|].
  inversion Hr as [|? ? Hr1 Hr2]; subst. cbn [map concat]. rewrite app_length, to_stream_cons, <- app_assoc. cbn [app].
  unfold num_line at 1. rewrite aux_row. destruct rows as [|r' rows].
  - cbn [concat length map C16Lines.rd_vals_aux bindo fst snd]. now rewrite app_nil_r.
  - rewrite aux_skip.
    + rewrite IH by (auto; discriminate). cbn [bindo fst snd]. reflexivity.
    + cbn [concat]. rewrite app_length. inversion Hr2; subst. destruct r'; [congruence|cbn; lia].
Qed.

Lemma rd_vals_rows (rows : list (list D)) (s : stream) : Forall (fun r => r <> []) rows ->
  exists s', rd_vals (length (concat rows)) (to_stream (map (num_line D T print) rows) ++ s) = Some (concat rows, s') /\
             (rows <> [] -> s' = skip_ws s).
Proof.
  intros Hr. destruct rows as [|r rows].
  - cbn. eexists. split; [reflexivity|congruence].
  - unfold C16Lines.rd_vals. rewrite aux_rows by (auto; discriminate).
    inversion Hr; subst. destruct (length (concat (r :: rows))) eqn:E.
    + cbn [concat] in E. rewrite app_length in E. destruct r; [congruence|cbn in E; lia].
    + cbn [bindo fst snd C16Lines.skip_ws]. eexists. split; [reflexivity|auto].
Qed.

Lemma rd_upto_aux n (s : stream) q : rd_vals_aux n s = Some q -> rd_upto D T parse ofZ n s = q.
Proof.
  revert s q; induction n as [|n IH]; intros s q H; cbn in H |- *; [now inversion H|].
  destruct (C16Lines.skip_ws T s) as [|[t|] r]; try discriminate.
  destruct (val_tok D T parse ofZ t) as [v|]; [|discriminate]. cbn [bindo] in H.
  destruct (rd_vals_aux n r) as [q'|] eqn:E; [|discriminate]. cbn [bindo] in H. inversion H; subst.
  now rewrite (IH r q' E).
Qed.
Lemma rd_weights_vals n (s : stream) q : rd_vals n s = Some q -> rd_weights D T parse ofZ n s = q.
Proof.
  unfold C16Lines.rd_vals, rd_weights. destruct n; [intros H; now inversion H|].
  destruct (rd_vals_aux (S n) s) as [q'|] eqn:E; [|discriminate]. cbn [bindo]. intros H; inversion H; subst.
  now rewrite (rd_upto_aux _ _ _ E).
Qed.

Lemma one_per_line_rows (l : list D) : l <> [] ->
  one_per_line D T print l = map (num_line D T print) (map (fun v => [v]) l).
Proof. intros H. unfold one_per_line. destruct l; [congruence|]. rewrite map_map. reflexivity. Qed.
Lemma concat_singletons (l : list D) : concat (map (fun v => [v]) l) = l.
Proof. induction l; cbn; congruence. Qed.

Lemma rd_vals_one_per_line (l : list D) :
  exists s', rd_vals (length l) (to_stream (one_per_line D T print l)) = Some (l, s').
Proof.
  destruct l as [|v l]; [cbn; eauto|].
  rewrite one_per_line_rows by discriminate.
  destruct (rd_vals_rows (map (fun x => [x]) (v :: l)) []) as (s' & E & _).
  - rewrite Forall_forall. intros r Hr. apply in_map_iff in Hr as (x & <- & _). discriminate.
  - rewrite concat_singletons, app_nil_r in E. eauto.
Qed.

(* ---------------------------------------------------------------- sparse entry lines *)
Lemma subs_of_line b (i : idx) : subs_of T b (map (fun x => Int (Z.of_nat x + b)) i) = Some i.
Proof.
  induction i as [|x i IH]; cbn [map subs_of]; auto. unfold sub_of.
  replace (Z.of_nat x + b - b)%Z with (Z.of_nat x) by lia.
  destruct (Z.leb_spec 0 (Z.of_nat x)); [|lia]. now rewrite IH, Nat2Z.id.
Qed.

(* one subscript row per line: the line export writes for an entry is read back as that entry *)
Lemma entry_of_entry_line b (e : idx * D) : entry_of_line b (length (fst e)) (entry_line D T print b e) = Some e.
Proof.
  destruct e as [i v]. unfold C16Lines.entry_of_line, entry_line. cbn [fst snd].
  rewrite rev_app_distr. cbn [rev app]. cbn [val_tok C16IO.num bindo]. rewrite rev_involutive, subs_of_line.
  cbn [bindo]. now rewrite Nat.eqb_refl, parse_print.
Qed.

Lemma rd_entries_lines_l b N (es : list (idx * D)) : Forall (fun e => length (fst e) = N) es ->
  rd_entries_l b N (length es) (to_stream (map (entry_line D T print b) es)) = Some es.
Proof.
  induction es as [|e es IH]; intros H; [reflexivity|]. inversion H as [|? ? He Hes]; subst.
  cbn [length map C16Lines.rd_entries_l]. rewrite <- (app_nil_r (to_stream _)), readline_cons, app_nil_r. cbn [fst snd].
  rewrite entry_of_entry_line. cbn [bindo]. now rewrite IH.
Qed.

(* ---------------------------------------------------------------- factors *)
Lemma skip_ws_lines (f : list line) :
  (forall l f', f = l :: f' -> exists w r, l = Word w :: r /\ w <> EmptyString) -> skip_ws (to_stream f) = to_stream f.
Proof.
  destruct f as [|l f]; [reflexivity|]. intros H. destruct (H l f eq_refl) as (w & r & -> & Hw). rewrite to_stream_cons.
  destruct w; [congruence|reflexivity].
Qed.

(* m empty row lines (a factor without columns), read and dropped one by one *)
Lemma drop_lines_empty_rows (A : list (list D)) (s : stream) : Forall (fun r => length r = 0) A ->
  drop_lines T (length A) (to_stream (map (num_line D T print) A) ++ s) = s.
Proof.
  induction A as [|r A IH]; intros H; [reflexivity|]. inversion H as [|? ? Hr HA]; subst.
  destruct r; [|discriminate]. cbn [length map C16Lines.drop_lines]. rewrite readline_cons. cbn [snd]. now apply IH.
Qed.

Lemma rd_factors_lines_l R (Fs : list (list (list D))) :
  Forall (fun A => Forall (fun row => length row = R) A) Fs ->
  rd_factors_l R (length Fs) (to_stream (flat_map (factor_lines D T print R) Fs)) = Some Fs.
Proof.
  induction Fs as [|A Fs IH]; intros H; [reflexivity|]. inversion H as [|? ? HA HFs]; subst.
  cbn [length flat_map C16Lines.rd_factors_l]. unfold factor_lines at 1. rewrite to_stream_app.
  rewrite readline_cons. cbn [fst snd]. rewrite to_stream_app, <- app_assoc, rd_shape_l_lines.
  cbn [bindo fst snd]. rewrite Nat.eqb_refl.
  destruct (Nat.eq_dec R 0) as [R0|R0].
  { (* no column: nothing is read by np.fromfile, the (length A) empty row lines are dropped *)
    subst R. rewrite Nat.mul_0_r. cbn [C16Lines.rd_vals bindo fst snd Nat.eqb].
    rewrite drop_lines_empty_rows by exact HA. rewrite IH by exact HFs. cbn [bindo].
    assert (Ec : concat A = []).
    { pose proof (length_concat_rows D A 0 HA) as L. rewrite Nat.mul_0_r in L. now destruct (concat A). }
    rewrite <- Ec at 1. now rewrite (reshapeC2_concat D A 0 HA). }
  assert (Hrows : Forall (fun r : list D => r <> []) A).
  { rewrite Forall_forall in *. intros r Hr E. specialize (HA r Hr). subst r. cbn in HA. lia. }
  destruct (rd_vals_rows A (to_stream (flat_map (factor_lines D T print R) Fs)) Hrows) as (s' & E & Hs').
  rewrite <- (length_concat_rows D A R HA), E. cbn [bindo fst snd].
  assert (Es : rd_factors_l R (length Fs)
                 (if Nat.eqb (length (concat A)) 0 then drop_lines T (length A) s' else s') = Some Fs).
  { destruct A as [|r A'].
    - cbn in E. inversion E; subst s'. cbn [concat length Nat.eqb C16Lines.drop_lines]. apply IH, HFs.
    - replace (Nat.eqb (length (concat (r :: A'))) 0) with false.
      + rewrite Hs' by discriminate. rewrite skip_ws_lines; [apply IH, HFs|].
        intros l f' Ef. destruct Fs as [|B Fs']; [discriminate|]. cbn [flat_map] in Ef. unfold factor_lines at 1 in Ef.
        inversion Ef. eexists _, _. split; [reflexivity|discriminate].
      + symmetry. apply Nat.eqb_neq. inversion Hrows; subst. cbn [concat]. rewrite app_length.
        destruct r; [congruence|cbn; lia]. }
  rewrite Es. cbn [bindo]. now rewrite (reshapeC2_concat D A R HA).
Qed.

(* ---------------------------------------------------------------- the round trip, line by line *)
(* the objects WITHOUT modes pyttb can hold: besides the tensor without entries (wf_tensor) only the sparse tensor without
   stored entry (ttb.sptensor(); the constructor takes an nz x 0 subscript array for "no subscripts") and the Kruskal tensor
   without weights (ttb.ktensor(); ttb.ktensor([], weights) raises) *)
Definition wf_lines (o : obj D) : Prop :=
  match o with
  | OSptensor Sp => sshape Sp = [] -> ssubs Sp = []
  | OKtensor K => kfactors K = [] -> kweights K = []
  | _ => True
  end.

Theorem roundtrip_lines b (o : obj D) : wf_obj D o -> wf_lines o -> import_lines b (export_lines b o) = Some o.
Proof.
  destruct o as [X|Sp|K|m n A|s c]; cbn [wf_obj wf_lines]; unfold C16Lines.import_lines, C16IO.export_lines.
  - intros W _. rewrite <- (app_nil_r (to_stream _)). unfold C16Lines.import_stream. rewrite readline_cons. cbn [fst snd].
    cbn [String.eqb Ascii.eqb Bool.eqb]. rewrite to_stream_app, <- app_assoc, rd_shape_l_lines. cbn [bindo fst snd].
    rewrite app_nil_r, (tensor_vals_data D d0 X W). unfold wf_tensor in W. rewrite <- W.
    destruct (rd_vals_one_per_line (ddata X)) as (s' & E). rewrite E. cbn [bindo fst snd].
    rewrite (tensor_of_data D d0) by exact W. now destruct X.
  - intros [HL Hb] H0. rewrite <- (app_nil_r (to_stream _)). unfold C16Lines.import_stream. rewrite readline_cons. cbn [fst snd].
    cbn [String.eqb Ascii.eqb Bool.eqb]. rewrite to_stream_app, <- app_assoc, rd_shape_l_lines. cbn [bindo fst snd].
    rewrite readline_cons. cbn [fst snd head_int int_tok C16IO.zn bindo]. unfold nat_of.
    destruct (Z.leb_spec 0 (Z.of_nat (length (ssubs Sp)))); [|lia]. cbn [bindo]. rewrite Nat2Z.id, app_nil_r.
    assert (HE : length (ssubs Sp) = length (entries Sp)) by (unfold entries; rewrite combine_length; lia).
    assert (E0 : order0_bad (sshape Sp) (length (ssubs Sp)) = false).
    { unfold order0_bad. destruct (sshape Sp) as [|d sh]; [|reflexivity]. now rewrite (H0 eq_refl). }
    rewrite E0. rewrite HE, rd_entries_lines_l.
    + cbn [bindo]. unfold entries. rewrite map_fst_combine, map_snd_combine by auto.
      replace (forallb (inb (sshape Sp)) (ssubs Sp)) with true; [now destruct Sp|].
      symmetry. apply forallb_forall. rewrite Forall_forall in Hb. auto.
    + rewrite Forall_forall. intros [i v] Hin. cbn [fst]. unfold entries in Hin. apply in_combine_l in Hin.
      rewrite Forall_forall in Hb. apply inb_length. auto.
  - intros W H0. rewrite <- (app_nil_r (to_stream _)). unfold C16Lines.import_stream. rewrite readline_cons. cbn [fst snd].
    cbn [String.eqb Ascii.eqb Bool.eqb]. rewrite to_stream_app, <- app_assoc.
    rewrite rd_shape_z_lines. cbn [bindo fst snd].
    rewrite readline_cons. cbn [fst snd head_int int_tok C16IO.zn bindo]. unfold nat_of.
    destruct (Z.leb_spec 0 (Z.of_nat (krank K))); [|lia]. cbn [bindo]. rewrite Nat2Z.id, app_nil_r.
    rewrite map_length, (length_kshape D K).
    assert (Hc : kfactors K = [] \/ kfactors K <> []) by (destruct (kfactors K); [left; reflexivity|right; discriminate]).
    destruct Hc as [EF|Hk].
    { (* the Kruskal tensor without modes: no weight, no factor *)
      specialize (H0 EF). unfold krank. rewrite H0, EF. cbn [length Nat.eqb]. destruct K as [w fs]. cbn in *. now subst. }
    replace (Nat.eqb (length (kfactors K)) 0) with false by (destruct (kfactors K); [congruence|reflexivity]).
    destruct (Nat.eq_dec (krank K) 0) as [HR|HR].
    { (* no component: the empty weights line is dropped by the extra readline *)
      assert (Ew : kweights K = []) by (unfold krank in HR; destruct (kweights K); [reflexivity|discriminate]).
      rewrite HR in *. rewrite Ew. cbn [rd_weights fst snd length Nat.eqb].
      rewrite <- (app_nil_r (to_stream (num_line D T print [] :: _))), readline_cons, app_nil_r. cbn [snd].
      rewrite rd_factors_lines_l by exact W. cbn [bindo]. destruct K as [w fs]. cbn in Ew. now subst w. }
    destruct (rd_vals_rows [kweights K] (to_stream (flat_map (factor_lines D T print (krank K)) (kfactors K)))) as (s' & E & Hs').
    { constructor; [|constructor]. intros E. unfold krank in HR. rewrite E in HR. cbn in HR. lia. }
    cbn [concat map] in E. rewrite app_nil_r in E. fold (krank K) in E. rewrite to_stream_cons.
    rewrite to_stream_cons in E. change (to_stream []) with (@nil (option token)) in E. rewrite <- app_assoc in E. cbn [app] in E.
    rewrite (rd_weights_vals _ _ _ E). cbn [bindo fst snd]. rewrite Hs' by discriminate.
    replace (Nat.eqb (krank K) 0) with false by (symmetry; now apply Nat.eqb_neq).
    rewrite skip_ws_lines.
    + fold (krank K). rewrite rd_factors_lines_l by auto. cbn [bindo]. now destruct K.
    + intros l f' Ef. destruct (kfactors K) as [|B Fs']; [congruence|]. cbn [flat_map] in Ef. unfold factor_lines at 1 in Ef.
      inversion Ef. eexists _, _. split; [reflexivity|discriminate].
  - intros [Hm Hn] _. rewrite <- (app_nil_r (to_stream _)). unfold C16Lines.import_stream. rewrite readline_cons. cbn [fst snd].
    cbn [String.eqb Ascii.eqb Bool.eqb]. rewrite to_stream_app, <- app_assoc, rd_shape_l_lines. cbn [bindo fst snd].
    rewrite app_nil_r. subst m. rewrite <- (length_concat_rows D A n Hn).
    destruct (rd_vals_one_per_line (concat A)) as (s' & E). rewrite E. cbn [bindo fst snd].
    now rewrite (reshapeC2_concat D A n Hn).
  - intros [Hc Hs] _. rewrite <- (app_nil_r (to_stream _)). unfold C16Lines.import_stream. rewrite readline_cons. cbn [fst snd].
    cbn [String.eqb Ascii.eqb Bool.eqb]. rewrite to_stream_app, <- app_assoc, rd_shape_l_lines. cbn [bindo fst snd].
    rewrite app_nil_r. destruct (rd_vals_one_per_line c) as (s' & E).
    destruct s as [|d1 [|d2 [|d3 s'']]]; try (cbn in Hs; congruence); rewrite <- Hc, E; reflexivity.
Qed.
End P.

(* ================================================================ what import rejects (no hypothesis on number texts) *)
Section G.
Variables (D T : Type) (d0 : D) (parse : T -> D) (ofZ : Z -> D).
Notation token := (token T).
Notation line := (list token).
Notation import_lines := (import_lines D T d0 parse ofZ).
Notation entry_of_line := (entry_of_line D T parse ofZ).

Lemma subs_of_length b (l : line) i : subs_of T b l = Some i -> length i = length l.
Proof.
  revert i; induction l as [|t l IH]; intros i H; cbn in H; [inversion H; reflexivity|].
  destruct (sub_of T b t); [|discriminate]. destruct (subs_of T b l) as [xs|]; [|discriminate].
  inversion H; subst. cbn. f_equal. now apply IH.
Qed.

(* one subscript row per line, EXACTLY: a line is read as the entry (i, v) iff it is  t_1 ... t_k tv  with tv a number text
   (or an integer text) of value v, every t_j an integer text not below the index base, and either k = N (i = the
   subscripts minus the base) or k = 1 <> N (numpy broadcasts the single subscript to all N modes) *)
Theorem entry_of_line_iff b N (l : line) i v :
  entry_of_line b N l = Some (i, v) <->
  exists ts tv j, l = ts ++ [tv] /\ val_tok D T parse ofZ tv = Some v /\ subs_of T b ts = Some j /\
                  ((length j = N /\ i = j) \/ (length j <> N /\ exists x, j = [x] /\ i = repeat x N)).
Proof.
  unfold C16Lines.entry_of_line. split.
  - destruct (rev l) as [|tv rsubs] eqn:E; [discriminate|].
    assert (El : l = rev rsubs ++ [tv]) by (rewrite <- (rev_involutive l), E; reflexivity).
    destruct (val_tok D T parse ofZ tv) as [v'|] eqn:Ev; [|discriminate]. cbn [bindo].
    destruct (subs_of T b (rev rsubs)) as [j|] eqn:Ej; [|discriminate]. cbn [bindo].
    destruct (Nat.eqb_spec (length j) N) as [HN|HN].
    + intros H; inversion H; subst. exists (rev rsubs), tv, i. repeat split; auto.
    + destruct j as [|x [|y j']]; try discriminate. intros H; inversion H; subst.
      exists (rev rsubs), tv, [x]. repeat split; auto. right. split; [exact HN|eauto].
  - intros (ts & tv & j & -> & Ev & Ej & Hc). rewrite rev_app_distr. cbn [rev app]. rewrite Ev. cbn [bindo].
    rewrite rev_involutive, Ej. cbn [bindo]. destruct Hc as [[HN ->]|[HN (x & -> & ->)]].
    + now rewrite <- HN, Nat.eqb_refl.
    + destruct (Nat.eqb_spec (length [x]) N); [contradiction|reflexivity].
Qed.

(* hence: too many or too few tokens on an entry line are rejected *)
Corollary entry_line_token_count b N (l : line) e : entry_of_line b N l = Some e -> length l = N + 1 \/ length l = 2.
Proof.
  destruct e as [i v]. intros H. apply entry_of_line_iff in H as (ts & tv & j & -> & _ & Ej & Hc).
  apply subs_of_length in Ej. rewrite app_length. cbn [length].
  destruct Hc as [[HN _]|[_ (x & -> & _)]]; [left|right]; cbn in *; lia.
Qed.

(* ... and so is a subscript below the index base (reading a file with a too large index_base) *)
Lemma subs_of_base b (l : line) i : subs_of T b l = Some i -> Forall (fun t => exists z, t = Int z /\ (b <= z)%Z) l.
Proof.
  revert i; induction l as [|t l IH]; intros i H; cbn in H; [constructor|].
  destruct (sub_of T b t) eqn:Et; [|discriminate]. destruct (subs_of T b l) as [xs|] eqn:El; [|discriminate].
  constructor; [|eapply IH; reflexivity]. unfold sub_of in Et. destruct t as [w|z|x]; try discriminate.
  destruct (Z.leb_spec 0 (z - b)); [|discriminate]. exists z. split; [reflexivity|lia].
Qed.
Corollary entry_line_base b N (l : line) e : entry_of_line b N l = Some e ->
  Forall (fun t => exists z, t = Int z /\ (b <= z)%Z) (removelast l).
Proof.
  destruct e as [i v]. intros H. apply entry_of_line_iff in H as (ts & tv & j & -> & _ & Ej & _).
  rewrite removelast_last. eapply subs_of_base; eauto.
Qed.

(* import_shape, EXACTLY: two lines are read; the first token of the first is an integer text n, ALL tokens of the second are
   integer texts, and there are n of them — none for n = 0 (the empty sizes line of an object without modes) *)
Theorem rd_shape_z_iff (s : C16Lines.stream T) zs r :
  rd_shape_z T s = Some (zs, r) <->
  head_int T (fst (C16Lines.readline T s)) = Some (Z.of_nat (length zs)) /\
  all_ints T (fst (C16Lines.readline T (snd (C16Lines.readline T s)))) = Some zs /\
  r = snd (C16Lines.readline T (snd (C16Lines.readline T s))).
Proof.
  unfold rd_shape_z. cbv zeta. split.
  - destruct (head_int T _) as [n|]; [|discriminate]. cbn [bindo].
    destruct (all_ints T _) as [zs'|]; [|discriminate]. cbn [bindo].
    destruct (Z.eqb_spec (Z.of_nat (length zs')) n) as [<-|]; [|discriminate]. cbn [negb].
    intros H; inversion H; subst. repeat split; reflexivity.
  - intros (H1 & H2 & ->). rewrite H1, H2. cbn [bindo]. now rewrite Z.eqb_refl.
Qed.

(* the type word: a file is accepted only if its first line starts with one of the four words; whatever follows the
   first token of that line is ignored *)
Theorem import_type_guard b (f : list line) o : import_lines b f = Some o ->
  exists w x f', f = (Word w :: x) :: f' /\
    (w = "tensor" \/ w = "sptensor" \/ w = "matrix" \/ w = "ktensor")%string.
Proof.
  unfold C16Lines.import_lines, C16Lines.import_stream. destruct f as [|l f]; [discriminate|].
  unfold C16Lines.to_stream. cbn [flat_map]. rewrite <- app_assoc. cbn [app].
  assert (R : forall (l : line) s, C16Lines.readline T (map Some l ++ None :: s) = (l, s)).
  { clear. induction l as [|t l IH]; intros s; cbn; auto. now rewrite IH. }
  rewrite R. cbn [fst snd]. destruct l as [|[w|z|x] l']; try discriminate.
  intros H. exists w, l', f. split; [reflexivity|].
  destruct (String.eqb_spec w "tensor"); [auto|]. destruct (String.eqb_spec w "sptensor"); [auto|].
  destruct (String.eqb_spec w "matrix"); [auto|]. destruct (String.eqb_spec w "ktensor"); [auto|]. discriminate.
Qed.

Theorem import_header_rest_ignored b (t : token) (x : line) (f : list line) :
  import_lines b ((t :: x) :: f) = import_lines b ([t] :: f).
Proof.
  unfold C16Lines.import_lines, C16Lines.import_stream, C16Lines.to_stream. cbn [flat_map]. rewrite <- !app_assoc. cbn [app map].
  assert (R : forall (l : line) s, C16Lines.readline T (map Some l ++ None :: s) = (l, s)).
  { clear. induction l as [|t l IH]; intros s; cbn; auto. now rewrite IH. }
  cbn [C16Lines.readline]. rewrite R. cbn [fst snd]. reflexivity.
Qed.

(* an accepted sparse file yields subscripts inside the shape, one value per subscript *)
Theorem import_sptensor_in_range b (f : list line) Sp : import_lines b f = Some (OSptensor Sp) ->
  Forall (fun i => inb (sshape Sp) i = true) (ssubs Sp) /\ length (ssubs Sp) = length (svals Sp).
Proof.
  unfold C16Lines.import_lines, C16Lines.import_stream.
  destruct (fst (C16Lines.readline T (C16Lines.to_stream T f))) as [|[w|z|x] l']; try discriminate.
  destruct (String.eqb w "tensor").
  { destruct (rd_shape_l T _) as [sh|]; [|discriminate]. cbn [bindo]. destruct (C16Lines.rd_vals D T parse ofZ _ _); discriminate. }
  destruct (String.eqb w "sptensor").
  - destruct (rd_shape_l T _) as [sh|]; [|discriminate]. cbn [bindo].
    destruct (head_int T _) as [zn|]; [|discriminate]. cbn [bindo]. destruct (nat_of zn) as [nz|]; [|discriminate]. cbn [bindo].
    destruct (C16Lines.rd_entries_l D T parse ofZ b _ nz _) as [es|]; [|discriminate]. cbn [bindo].
    destruct (order0_bad (fst sh) nz); [discriminate|].
    destruct (forallb (inb (fst sh)) (map fst es)) eqn:E; [|discriminate]. intros H; inversion H; subst. cbn [sshape ssubs svals].
    split; [|now rewrite !map_length]. rewrite forallb_forall in E. now apply Forall_forall.
  - destruct (String.eqb w "matrix").
    { destruct (rd_shape_l T _) as [sh|]; [|discriminate]. cbn [bindo].
      destruct (fst sh) as [|m [|n [|k r]]]; destruct (C16Lines.rd_vals D T parse ofZ _ _); discriminate. }
    destruct (String.eqb w "ktensor"); [|discriminate].
    destruct (rd_shape_z T _) as [sh|]; [|discriminate]. cbn [bindo].
    destruct (head_int T _) as [zn|]; [|discriminate]. cbn [bindo]. destruct (nat_of zn) as [nz|]; [|discriminate]. cbn [bindo].
    destruct (Nat.eqb (length (fst sh)) 0); [destruct (Nat.eqb nz 0); discriminate|].
    destruct (C16Lines.rd_factors_l D T parse ofZ _ _ _); discriminate.
Qed.

(* what import_data accepts WITHOUT modes is one of the objects pyttb can hold: the tensor without entries, the sparse
   tensor without stored entry, the Kruskal tensor without weights (never an "order-0 object with entries") *)
Lemma rd_entries_l_length b N nz s es : C16Lines.rd_entries_l D T parse ofZ b N nz s = Some es -> length es = nz.
Proof.
  revert s es; induction nz as [|nz IH]; intros s es H; cbn in H; [inversion H; reflexivity|].
  destruct (entry_of_line b N _) as [e|]; [|discriminate]. cbn [bindo] in H.
  destruct (C16Lines.rd_entries_l D T parse ofZ b N nz _) as [q|] eqn:E; [|discriminate]. inversion H; subst. cbn. f_equal. eapply IH, E.
Qed.
Lemma rd_factors_l_length R n s fs : C16Lines.rd_factors_l D T parse ofZ R n s = Some fs -> length fs = n.
Proof.
  revert s fs; induction n as [|n IH]; intros s fs H; cbn in H; [inversion H; reflexivity|].
  destruct (rd_shape_l T _) as [sh|]; [|discriminate]. cbn [bindo] in H.
  destruct (fst sh) as [|m [|c [|k r]]]; try discriminate. destruct (Nat.eqb c R); [|discriminate].
  destruct (C16Lines.rd_vals D T parse ofZ _ _) as [v|]; [|discriminate]. cbn [bindo] in H.
  destruct (C16Lines.rd_factors_l D T parse ofZ R n _) as [q|] eqn:E; [|discriminate]. inversion H; subst. cbn. f_equal. eapply IH, E.
Qed.
Theorem import_order0 b (f : list line) o : import_lines b f = Some o ->
  match o with
  | OTensor X => dshape X = [] -> ddata X = []
  | OSptensor Sp => sshape Sp = [] -> ssubs Sp = [] /\ svals Sp = []
  | OKtensor K => kfactors K = [] -> kweights K = []
  | _ => True
  end.
Proof.
  unfold C16Lines.import_lines, C16Lines.import_stream.
  destruct (fst (C16Lines.readline T (C16Lines.to_stream T f))) as [|[w|z|x] l']; try discriminate.
  destruct (String.eqb w "tensor").
  { destruct (rd_shape_l T _) as [sh|]; [|discriminate]. cbn [bindo].
    destruct (C16Lines.rd_vals D T parse ofZ _ _) as [v|] eqn:E; [|discriminate]. cbn [bindo]. intros H; inversion H; subst.
    destruct (fst sh) as [|d sh'] eqn:Es; cbn [tensor_of dshape ddata]; [|unfold np_reshapeF; cbn; discriminate].
    intros _. cbn in E. now inversion E. }
  destruct (String.eqb w "sptensor").
  - destruct (rd_shape_l T _) as [sh|]; [|discriminate]. cbn [bindo].
    destruct (head_int T _) as [zn|]; [|discriminate]. cbn [bindo]. destruct (nat_of zn) as [nz|]; [|discriminate]. cbn [bindo].
    destruct (C16Lines.rd_entries_l D T parse ofZ b _ nz _) as [es|] eqn:Ee; [|discriminate]. cbn [bindo].
    destruct (order0_bad (fst sh) nz) eqn:E0; [discriminate|].
    destruct (forallb (inb (fst sh)) (map fst es)); [|discriminate]. intros H; inversion H; subst. cbn [sshape ssubs svals].
    intros Es. unfold order0_bad in E0. rewrite Es in E0. cbn in E0. apply rd_entries_l_length in Ee.
    destruct nz; [|discriminate]. destruct es; [split; reflexivity|discriminate].
  - destruct (String.eqb w "matrix").
    { destruct (rd_shape_l T _) as [sh|]; [|discriminate]. cbn [bindo].
      destruct (fst sh) as [|m [|n [|k r]]]; destruct (C16Lines.rd_vals D T parse ofZ _ _); try discriminate;
        cbn [bindo]; intros H; inversion H; exact I. }
    destruct (String.eqb w "ktensor"); [|discriminate].
    destruct (rd_shape_z T _) as [sh|]; [|discriminate]. cbn [bindo].
    destruct (head_int T _) as [zn|]; [|discriminate]. cbn [bindo]. destruct (nat_of zn) as [nz|]; [|discriminate]. cbn [bindo].
    destruct (Nat.eqb_spec (length (fst sh)) 0) as [E0|E0].
    { destruct (Nat.eqb nz 0); [|discriminate]. intros H; inversion H; reflexivity. }
    destruct (C16Lines.rd_factors_l D T parse ofZ _ _ _) as [fs|] eqn:Ef; [|discriminate]. cbn [bindo].
    intros H; inversion H; subst. cbn [kfactors kweights]. intros ->. apply rd_factors_l_length in Ef. cbn in Ef. congruence.
Qed.

(* ---- whatever file import_data accepts, the object it returns satisfies the class invariants (wf_obj and wf_lines): dense
   data as long as the shape says, one value per stored subscript and every subscript inside the shape, factor matrices with
   as many columns as there are weights, matrices with m rows of n entries ---- *)
Lemma rd_vals_aux_length n s q : C16Lines.rd_vals_aux D T parse ofZ n s = Some q -> length (fst q) = n.
Proof.
  revert s q; induction n as [|n IH]; intros s q H; cbn in H; [inversion H; reflexivity|].
  destruct (C16Lines.skip_ws T s) as [|[t|] r]; try discriminate.
  destruct (val_tok D T parse ofZ t) as [v|]; [|discriminate]. cbn [bindo] in H.
  destruct (C16Lines.rd_vals_aux D T parse ofZ n r) as [q'|] eqn:E; [|discriminate]. cbn [bindo] in H. inversion H; subst.
  cbn. f_equal. eapply IH, E.
Qed.
Lemma rd_vals_length n s q : C16Lines.rd_vals D T parse ofZ n s = Some q -> length (fst q) = n.
Proof.
  unfold C16Lines.rd_vals. destruct n; [intros H; inversion H; reflexivity|].
  destruct (C16Lines.rd_vals_aux D T parse ofZ (S n) s) as [q'|] eqn:E; [|discriminate]. cbn [bindo].
  intros H; inversion H; subst. cbn [fst]. eapply rd_vals_aux_length, E.
Qed.
Lemma reshapeC2_rows m n (l : list D) : length l = m * n ->
  length (reshapeC2 D m n l) = m /\ Forall (fun r => length r = n) (reshapeC2 D m n l).
Proof.
  intros H. unfold reshapeC2. split; [now rewrite map_length, seq_length|].
  rewrite Forall_forall. intros r Hr. apply in_map_iff in Hr as (i & <- & Hi). apply in_seq in Hi.
  rewrite firstn_length, skipn_length, H. nia.
Qed.
Lemma rd_factors_l_wf R n s fs : C16Lines.rd_factors_l D T parse ofZ R n s = Some fs ->
  Forall (fun A => Forall (fun r : list D => length r = R) A) fs.
Proof.
  revert s fs; induction n as [|n IH]; intros s fs H; cbn in H; [inversion H; constructor|].
  destruct (rd_shape_l T _) as [sh|]; [|discriminate]. cbn [bindo] in H.
  destruct (fst sh) as [|m [|c [|k r]]]; try discriminate. destruct (Nat.eqb_spec c R) as [Ec|]; [|discriminate].
  destruct (C16Lines.rd_vals D T parse ofZ _ _) as [v|] eqn:Ev; [|discriminate]. cbn [bindo] in H.
  destruct (C16Lines.rd_factors_l D T parse ofZ R n _) as [q|] eqn:E; [|discriminate]. inversion H; subst.
  constructor; [|eapply IH, E]. apply reshapeC2_rows. eapply rd_vals_length, Ev.
Qed.
Lemma rd_upto_length n s : length (fst (rd_upto D T parse ofZ n s)) <= n.
Proof.
  revert s; induction n as [|n IH]; intros s; cbn; [lia|].
  destruct (C16Lines.skip_ws T s) as [|[t|] r]; cbn; try lia.
  destruct (val_tok D T parse ofZ t); cbn; [specialize (IH r); lia|lia].
Qed.

Theorem import_wf b (f : list line) o : import_lines b f = Some o -> wf_obj D o /\ wf_lines D o.
Proof.
  intros H. pose proof (import_order0 b f o H) as H0. revert H.
  unfold C16Lines.import_lines, C16Lines.import_stream.
  destruct (fst (C16Lines.readline T (C16Lines.to_stream T f))) as [|[w|z|x] l']; try discriminate.
  destruct (String.eqb w "tensor").
  { destruct (rd_shape_l T _) as [sh|]; [|discriminate]. cbn [bindo].
    destruct (C16Lines.rd_vals D T parse ofZ _ _) as [v|] eqn:E; [|discriminate]. cbn [bindo]. intros H; inversion H; subst.
    apply rd_vals_length in E. cbn [wf_obj wf_lines]. split; [|exact I].
    rewrite (tensor_of_data D d0) by exact E. unfold wf_tensor. cbn. exact E. }
  destruct (String.eqb w "sptensor").
  - intros H. split.
    + destruct o as [X|Sp|K|m n A|s c]; try (exfalso; revert H;
        destruct (rd_shape_l T _) as [sh|]; [|discriminate]; cbn [bindo];
        destruct (head_int T _) as [zn|]; [|discriminate]; cbn [bindo]; destruct (nat_of zn) as [nz|]; [|discriminate]; cbn [bindo];
        destruct (C16Lines.rd_entries_l D T parse ofZ b _ nz _) as [es|]; [|discriminate]; cbn [bindo];
        destruct (order0_bad (fst sh) nz); [discriminate|];
        destruct (forallb (inb (fst sh)) (map fst es)); discriminate).
      revert H. destruct (rd_shape_l T _) as [sh|]; [|discriminate]. cbn [bindo].
      destruct (head_int T _) as [zn|]; [|discriminate]. cbn [bindo]. destruct (nat_of zn) as [nz|]; [|discriminate]. cbn [bindo].
      destruct (C16Lines.rd_entries_l D T parse ofZ b _ nz _) as [es|]; [|discriminate]. cbn [bindo].
      destruct (order0_bad (fst sh) nz); [discriminate|].
      destruct (forallb (inb (fst sh)) (map fst es)) eqn:E; [|discriminate]. intros H; inversion H; subst. cbn [wf_obj sshape ssubs svals].
      split; [now rewrite !map_length|]. rewrite forallb_forall in E. now apply Forall_forall.
    + destruct o as [X|Sp|K|m n A|s c]; cbn [wf_lines]; auto. intros Es. apply (H0 Es).
  - destruct (String.eqb w "matrix").
    { destruct (rd_shape_l T _) as [sh|]; [|discriminate]. cbn [bindo].
      destruct (fst sh) as [|m [|n [|k r]]] eqn:Es; destruct (C16Lines.rd_vals D T parse ofZ _ _) as [v|] eqn:E; try discriminate;
        cbn [bindo]; intros H; inversion H; subst; apply rd_vals_length in E; cbn [wf_obj wf_lines]; (split; [|exact I]).
      - split; [exact E|cbn; lia].
      - split; [exact E|cbn; lia].
      - apply reshapeC2_rows. exact E.
      - split; [exact E|cbn; lia]. }
    destruct (String.eqb w "ktensor"); [|discriminate].
    destruct (rd_shape_z T _) as [sh|]; [|discriminate]. cbn [bindo].
    destruct (head_int T _) as [zn|]; [|discriminate]. cbn [bindo]. destruct (nat_of zn) as [nz|]; [|discriminate]. cbn [bindo].
    destruct (Nat.eqb (length (fst sh)) 0).
    { destruct (Nat.eqb nz 0); [|discriminate]. intros H; inversion H; subst. cbn. split; [constructor|reflexivity]. }
    destruct (C16Lines.rd_factors_l D T parse ofZ _ _ _) as [fs|] eqn:Ef; [|discriminate]. cbn [bindo].
    intros H; inversion H; subst. cbn [wf_obj wf_lines]. split; [|exact H0].
    unfold krank. cbn [kweights kfactors]. eapply rd_factors_l_wf, Ef.
Qed.
End G.

(* ================================================================ import's range is inside the round-trip domain *)
(* whatever object import_data returns for SOME file (any file it accepts, any index base b'), exporting it and importing
   the result gives that object again: nothing import_data can return is lost or changed by a further export / import *)
Section S.
Variables (D T : Type) (d0 : D) (print : D -> T) (parse : T -> D) (ofZ : Z -> D).
Hypothesis parse_print : forall v : D, parse (print v) = v.
Theorem import_export_stable b b' (f : list (list (token T))) (o : obj D) :
  import_lines D T d0 parse ofZ b' f = Some o ->
  import_lines D T d0 parse ofZ b (export_lines D T d0 print b o) = Some o.
Proof.
  intros H. destruct (import_wf D T d0 parse ofZ b' f o H) as [W L].
  now apply (roundtrip_lines D T d0 print parse ofZ parse_print).
Qed.
End S.

(* ================================================================ the optional format arguments *)
(* export_data(data, file, fmt_data, fmt_weights) only replaces the printf format of the number texts: the LAYOUT of the
   file (words, integers, how many number texts stand on which line) does not depend on it.  The round trip is claimed
   for formats with parse (print v) = v only ("%.16e", the default, and anything more precise). *)
Section F.
Variables (D T1 T2 : Type) (d0 : D) (print1 : D -> T1) (print2 : D -> T2).
Definition tok_kind {T} (t : token T) : token unit :=
  match t with Word w => Word w | Int z => Int z | Num _ => Num tt end.
Definition layout {T} (f : list (list (token T))) : list (list (token unit)) := map (map tok_kind) f.

Lemma layout_one_per_line (l : list D) :
  layout (one_per_line D T1 print1 l) = layout (one_per_line D T2 print2 l).
Proof. unfold layout, one_per_line. destruct l; [reflexivity|]. rewrite !map_map. reflexivity. Qed.
Lemma layout_num_lines (A : list (list D)) :
  layout (map (num_line D T1 print1) A) = layout (map (num_line D T2 print2) A).
Proof. unfold layout, num_line. rewrite !map_map. apply map_ext. intros r. rewrite !map_map. reflexivity. Qed.
Lemma layout_size_lines (s : shape) : layout (size_lines T1 s) = layout (size_lines T2 s).
Proof. unfold layout, size_lines. cbn [map]. rewrite !map_map. reflexivity. Qed.

Theorem export_layout_format_free b (o : obj D) :
  layout (export_lines D T1 d0 print1 b o) = layout (export_lines D T2 d0 print2 b o).
Proof.
  destruct o as [X|Sp|K|m n A|s c]; unfold export_lines; unfold layout at 1 2; cbn [map]; rewrite ?map_app; fold (@layout T1); fold (@layout T2).
  - f_equal. f_equal; [apply layout_size_lines|apply layout_one_per_line].
  - f_equal. f_equal; [apply layout_size_lines|]. cbn [map]. f_equal. unfold entry_line. rewrite !map_map. apply map_ext.
    intros e. rewrite !map_app, !map_map. reflexivity.
  - f_equal. f_equal; [apply layout_size_lines|]. cbn [map]. f_equal. f_equal.
    + unfold num_line. rewrite !map_map. reflexivity.
    + induction (kfactors K) as [|F Fs IH]; [reflexivity|]. cbn [flat_map]. rewrite !map_app, IH. f_equal.
      unfold factor_lines. cbn [map]. f_equal. rewrite !map_app.
      change (map (map tok_kind)) with (@layout T1) at 1 2. change (map (map tok_kind)) with (@layout T2).
      rewrite layout_size_lines, layout_num_lines. reflexivity.
  - change (map (map (@tok_kind T1))) with (@layout T1). change (map (map (@tok_kind T2))) with (@layout T2).
    rewrite layout_size_lines, layout_one_per_line. reflexivity.
  - change (map (map (@tok_kind T1))) with (@layout T1). change (map (map (@tok_kind T2))) with (@layout T2).
    rewrite layout_size_lines, layout_one_per_line. reflexivity.
Qed.
End F.
