(* Proofs/C18W8Util.v — helpers shared by Proofs/C18W8Pdnr.v / C18W8Pqnr.v (C18 wave 8: print-independence of the generated PDNR / PQNR
   drivers): sk_set / sk_slice facts, the lock-step case-analysis tactic, and the projection that forgets output["fnVals"]. *)
From Coq Require Import String List Arith Bool Lia.
From PV Require Import Model.W4SPrelude.
Import ListNotations.
Local Open Scope nat_scope.

Lemma c18w8_sk_set_lt {A} (l : list A) i v : i < length l -> sk_set l i v = Some (firstn i l ++ v :: skipn (S i) l).
Proof. intros H. unfold sk_set. apply Nat.ltb_lt in H. rewrite H. reflexivity. Qed.

Lemma c18w8_upd_length {A} (l : list A) i v : i < length l -> length (firstn i l ++ v :: skipn (S i) l) = length l.
Proof. intros H. rewrite app_length, firstn_length. cbn [length]. rewrite skipn_length. lia. Qed.

Lemma c18w8_slice_len {A B} (l1 : list A) (l2 : list B) a b : length l1 = length l2 -> length (sk_slice a b l1) = length (sk_slice a b l2).
Proof. intros H. unfold sk_slice. rewrite !firstn_length, !skipn_length, H. reflexivity. Qed.

(* lock-step case analysis: `special` is tried first (rewrites that bring the two sides together), then the innermost closed scrutinee
   is destructed on both sides at once *)
Ltac c18w8_lock special :=
  repeat first
    [ reflexivity
    | progress special; cbv beta iota
    | match goal with
      | |- context [match ?x with _ => _ end] =>
          lazymatch x with context [match _ with _ => _ end] => fail | _ => idtac end; destruct x; cbv beta iota
      end ].

(* a cp_apr result (M, output, world) with output["fnVals"] replaced by its length *)
Definition c18w8_drop_fnvals {K A B C D E F G H W : Type} (r : K * (A * B * C * list D * E * F * G * H) * W) :=
  let '(M, (kv, obj, fe, fv, ni, nz, tm, ts), w) := r in (M, (kv, obj, fe, length fv, ni, nz, tm, ts), w).

