(* Model/C02Spec.v — C02 spec layer: every multilinear product as the sum over indices of the array the
   operand DENOTES (a function idx -> V with a shape), over an arbitrary commutative ring.
   Short and executable (instantiated at Z by the correspondence).  Every representation (dense, sparse,
   Kruskal, Tucker, sum) is compared with the SAME spec applied to its denotation. *)
From Coq Require Import List Arith Lia Bool.
From PV Require Import Base.Index Base.Perm Base.Sum Np.Array Model.Sparse Model.Repr.
Import ListNotations.

(* modes 0..N-1 not listed in dims, ascending (np.setdiff1d(arange(N), dims)) *)
Definition compl (N : nat) (dims : list nat) : list nat :=
  filter (fun m => negb (existsb (Nat.eqb m) dims)) (seq 0 N).

(* the subscript j with j[p[m]] = x[m]  (p a permutation of the modes) *)
Definition unpick (p : list nat) (x : idx) : idx := pick 0 (invperm p) x.

Definition remove_at {A} (n : nat) (l : list A) : list A := firstn n l ++ skipn (S n) l.
Definition insert_at (n k : nat) (i : idx) : idx := firstn n i ++ k :: skipn n i.

Section Spec.
Context {V : Type} (v0 v1 : V) (vadd vmul : V -> V -> V).
Local Notation "x + y" := (vadd x y).
Local Notation "x * y" := (vmul x y).

(* ---- tensor times vector(s): modes dims (any order), vs[j] is the vector attached to mode dims[j] ----
   result[i'] = Σ_{k_1..k_P} f(j) v_1[k_1] … v_P[k_P],  j = i' on the remaining modes (ascending), k on dims *)
Fixpoint sum_modes (sizes : list nat) (vs : list (list V)) (g : idx -> V) : V :=
  match sizes, vs with
  | d :: sizes', v :: vs' => sum_n v0 vadd d (fun k => sum_modes sizes' vs' (fun ks => g (k :: ks)) * nth k v v0)
  | _, _ => g []
  end.

Definition ttv_shape (s : shape) (dims : list nat) : shape := pick 0 (compl (length s) dims) s.
Definition spec_ttv (f : idx -> V) (s : shape) (dims : list nat) (vs : list (list V)) : idx -> V :=
  fun i' => sum_modes (pick 0 dims s) vs (fun ks => f (unpick (compl (length s) dims ++ dims) (i' ++ ks))).
(* single mode, in the familiar form *)
Definition spec_ttv1 (f : idx -> V) (s : shape) (n : nat) (v : list V) : idx -> V :=
  fun i' => sum_n v0 vadd (nth n s 0) (fun k => f (insert_at n k i') * nth k v v0).

(* ---- tensor times matrix in mode n: plain (U is J x I_n) or transposed (U is I_n x J) ---- *)
Definition spec_ttm (f : idx -> V) (s : shape) (n : nat) (U : @matrix V) (tr : bool) : idx -> V :=
  fun i => sum_n v0 vadd (nth n s 0)
    (fun k => (if tr then mget v0 U k (nth n i 0) else mget v0 U (nth n i 0) k) * f (upd i n k)).
(* list form: modes are distinct, so the single-mode products commute; applied in the listed order *)
Fixpoint spec_ttm_list (f : idx -> V) (s : shape) (nUs : list (nat * (nat * @matrix V))) (tr : bool) : idx -> V :=
  match nUs with
  | [] => f
  | (n, (J, U)) :: r => spec_ttm_list (spec_ttm f s n U tr) (upd s n J) r tr
  end.
Fixpoint ttm_list_shape (s : shape) (nUs : list (nat * (nat * @matrix V))) : shape :=
  match nUs with [] => s | (n, (J, _)) :: r => ttm_list_shape (upd s n J) r end.

(* ---- matricized tensor times Khatri-Rao product: result[x, r] = Σ_{i, i_n = x} f(i) λ_r Π_{m<>n} U_m[i_m, r] ---- *)
Definition spec_mttkrp (f : idx -> V) (s : shape) (n : nat) (lam : list V) (Us : list (@matrix V)) : nat -> nat -> V :=
  fun x r => sum_over v0 vadd (allsubs (remove_at n s))
    (fun j => f (insert_at n x j) * (nth r lam v0 * kprod v0 v1 vmul (remove_at n Us) j r)).

(* ---- inner product, squared Frobenius norm ---- *)
Definition spec_innerprod (f g : idx -> V) (s : shape) : V := sum_over v0 vadd (allsubs s) (fun i => f i * g i).
Definition spec_normsq (f : idx -> V) (s : shape) : V := spec_innerprod f f s.

(* ---- collapse (sum) over modes dims / contraction (trace) of modes i1, i2 / scaling along modes ---- *)
Definition spec_collapse (f : idx -> V) (s : shape) (dims : list nat) : idx -> V :=
  fun i' => sum_over v0 vadd (allsubs (pick 0 dims s))
    (fun ks => f (unpick (compl (length s) dims ++ dims) (i' ++ ks))).
Definition spec_contract (f : idx -> V) (s : shape) (i1 i2 : nat) : idx -> V :=
  fun i' => sum_n v0 vadd (nth i1 s 0)
    (fun k => f (unpick (compl (length s) [i1; i2] ++ [i1; i2]) (i' ++ [k; k]))).
Definition spec_scale (f : idx -> V) (dims : list nat) (g : idx -> V) : idx -> V :=
  fun i => f i * g (pick 0 dims i).

(* ---- tensor times tensor: contract modes sd of f (shape s1) with modes od of g (shape s2);
        result index = remaining modes of f (ascending) ++ remaining modes of g (ascending); sd = od = [] is the outer product *)
Definition spec_ttt (f : idx -> V) (s1 : shape) (g : idx -> V) (s2 : shape) (sd od : list nat) : idx -> V :=
  let r1 := compl (length s1) sd in
  let r2 := compl (length s2) od in
  fun ij => let i := firstn (length r1) ij in let j := skipn (length r1) ij in
    sum_over v0 vadd (allsubs (pick 0 sd s1))
      (fun ks => f (unpick (r1 ++ sd) (i ++ ks)) * g (unpick (od ++ r2) (ks ++ j))).
Definition ttt_shape (s1 s2 : shape) (sd od : list nat) : shape :=
  pick 0 (compl (length s1) sd) s1 ++ pick 0 (compl (length s2) od) s2.

(* ---- values at a list of subscripts (mask) ---- *)
Definition spec_mask (f : idx -> V) (subs : list idx) : list V := map f subs.

(* ---- denotation of a sum of parts ---- *)
Definition den_parts (parts : list (idx -> V)) : idx -> V := den_sum v0 vadd parts.

End Spec.
