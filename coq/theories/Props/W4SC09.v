(* Props/W4SC09.v — C09 (CP-ALS control flow: iteration count, fit-change stop rule, maxiters == 0 block, epilogue, reported
   quantities) stated over the GENERATED skeleton Gen/GenCpAls.v (tools/pyx2v_skel.py regenerates it from the region
   `U = init.copy().factor_matrices` .. `return M, init, output` of /repo/pyttb/cp_als.py on every run).  All numeric kernels are
   arbitrary.  `gmain ... = Some r` = the Python code returns r without raising.  Only statements, `exact`, Print Assumptions. *)
From Coq Require Import String List Arith Bool.
From PV Require Import Model.W4SPrelude Gen.GenCpAls Model.C09Loop Proofs.W4SCpAls.
Import ListNotations.
Local Open Scope nat_scope.

Section W4SC09.
Variables T_F T_Mat T_UtU T_Wt T_K T_X : Type.
Variable c_leF : T_F -> T_F -> bool.
Variable c_zeroF : T_F.
Variable k_init_factors : T_K -> list T_Mat.
Variable k_restrict_dims : list nat -> list nat -> list nat.
Variable k_zeros_mttkrp : T_X -> list nat -> nat -> T_Mat.
Variable k_zeros_utu : nat -> nat -> T_UtU.
Variable k_set_gram : T_UtU -> nat -> list T_Mat -> T_UtU.
Variable k_ktensor_init : list T_Mat -> T_K -> T_K.
Variable k_innerprod : T_X -> T_K -> T_F.
Variable k_is_zero : T_F -> bool.
Variable k_resid0 : T_K -> T_F -> T_F.
Variable k_resid : T_F -> T_K -> T_F -> T_F.
Variable k_fit : T_F -> T_F -> T_F.
Variable k_mttkrp : T_X -> list T_Mat -> nat -> T_Mat.
Variable k_hadamard_others : T_UtU -> nat -> nat -> T_Mat.
Variable k_all_zero_mat : T_Mat -> bool.
Variable k_zeros_like : T_Mat -> T_Mat.
Variable k_solve : T_Mat -> T_Mat -> T_Mat.
Variable k_norm2_cols : T_Mat -> T_Wt.
Variable k_normmax_cols : T_Mat -> T_Wt.
Variable k_all_zero_wt : T_Wt -> bool.
Variable k_scale_cols : T_Mat -> T_Wt -> T_Mat.
Variable k_ktensor : list T_Mat -> T_Wt -> T_K.
Variable k_iprod : T_K -> list nat -> T_Mat -> T_Wt -> T_F.
Variable k_absdiff : T_F -> T_F -> T_F.
Variable k_arrange : T_K -> T_K.
Variable k_fixsigns : T_K -> T_K.

Notation gmain := (GenCpAls.cp_als_main T_F T_Mat T_UtU T_Wt T_K T_X c_leF c_zeroF k_init_factors k_restrict_dims k_zeros_mttkrp k_zeros_utu
  k_set_gram k_ktensor_init k_innerprod k_is_zero k_resid0 k_resid k_fit k_mttkrp k_hadamard_others k_all_zero_mat k_zeros_like k_solve
  k_norm2_cols k_normmax_cols k_all_zero_wt k_scale_cols k_ktensor k_iprod k_absdiff k_arrange k_fixsigns).
Notation hsweep := (h_sweep T_F T_Mat T_UtU T_Wt T_K T_X k_set_gram k_mttkrp k_hadamard_others k_all_zero_mat k_zeros_like k_solve
  k_norm2_cols k_normmax_cols k_all_zero_wt k_scale_cols k_ktensor k_iprod).
Notation hfitm := (h_fit_mttkrp T_F T_Mat T_UtU T_K c_zeroF k_is_zero k_resid0 k_resid k_fit).
Notation hfiti := (h_fit_innerprod T_F T_Mat T_UtU T_K T_X c_zeroF k_innerprod k_is_zero k_resid0 k_resid k_fit).
Notation hlt := (h_fchange_lt T_F c_leF k_absdiff).
Notation honM := (h_onM T_F T_Mat T_UtU T_K).
Notation entryl := (entry_locals T_Mat T_UtU T_K T_X k_init_factors k_restrict_dims k_zeros_mttkrp k_zeros_utu k_set_gram).
Notation entrys := (entry_state T_F T_Mat T_UtU T_K T_X k_ktensor_init k_innerprod).

(* BRIDGE: the generated main part of cp_als computes what Model/C09Loop.v cpals_run computes: returned model, output["iters"],
   output["normresidual"], output["fit"]; the returned initial guess is the caller's *)
Theorem W4S_C09_cpals_bridge : forall X init normX N rank dimorder optdims maxiters stoptol printitn dofix Mret initret iters nr fit,
  gmain X init normX N rank dimorder optdims maxiters stoptol printitn dofix = Some (Mret, initret, (iters, nr, fit)) ->
  exists dims l r,
    entryl X init N rank dimorder optdims = Some (dims, l) /\
    cpals_run (hsweep N dims X) (hfitm normX) (hfiti X normX) hlt c_zeroF (honM k_arrange) (honM k_fixsigns)
              stoptol printitn (entrys X init maxiters l) maxiters dofix = Some r /\
    option_map fst (snd (r_state r)) = Some Mret /\ r_iters r = iters /\ r_normres r = nr /\ r_fit r = fit /\ initret = init.
Proof. exact (cpals_bridge T_F T_Mat T_UtU T_Wt T_K T_X c_leF c_zeroF k_init_factors k_restrict_dims k_zeros_mttkrp k_zeros_utu
  k_set_gram k_ktensor_init k_innerprod k_is_zero k_resid0 k_resid k_fit k_mttkrp k_hadamard_others k_all_zero_mat k_zeros_like k_solve
  k_norm2_cols k_normmax_cols k_all_zero_wt k_scale_cols k_ktensor k_iprod k_absdiff k_arrange k_fixsigns). Qed.
End W4SC09.

Print Assumptions W4S_C09_cpals_bridge.
