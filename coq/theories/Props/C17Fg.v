(* Props/C17Fg.v — tie A for pyttb/gcp/fg_setup.py::setup (DESIGN §2.2, §C12): the objective table as regenerated into
   Gen/GenFgSetup.v on this run, composed with the C12 T1 derivative theorems over Gen/GenHandles.v.
   Only statements, `exact`, Print Assumptions. *)
From Coq Require Import Reals.
Set Warnings "-ambiguous-paths".
From Coquelicot Require Import Coquelicot.
From PV Require Import Np.NpR Gen.GenHandles Gen.GenFgSetup Proofs.GenFgSetupProofs.
Local Open Scope R_scope.

(* which handle pair and which lower bound each of the ten objectives gets; extra parameter required for three *)
Theorem C12_setup_table :
  setup GAUSSIAN None None = Some (gaussian, gaussian_grad, NegInf) /\
  setup BERNOULLI_ODDS None None = Some (bernoulli_odds, bernoulli_odds_grad, Finite 0) /\
  setup BERNOULLI_LOGIT None None = Some (bernoulli_logit, bernoulli_logit_grad, NegInf) /\
  setup POISSON None None = Some (poisson, poisson_grad, Finite 0) /\
  setup POISSON_LOG None None = Some (poisson_log, poisson_log_grad, NegInf) /\
  setup RAYLEIGH None None = Some (rayleigh, rayleigh_grad, Finite 0) /\
  setup GAMMA None None = Some (gamma_, gamma_grad, Finite 0) /\
  (forall t, setup HUBER None (Some t) = Some ((fun x m => huber x m t), (fun x m => huber_grad x m t), NegInf)) /\
  (forall r, setup NEGATIVE_BINOMIAL None (Some r)
             = Some ((fun x m => negative_binomial x m r), (fun x m => negative_binomial_grad x m r), Finite 0)) /\
  (forall b, setup BETA None (Some b) = Some ((fun x m => beta_ x m b), (fun x m => beta_grad x m b), Finite 0)) /\
  setup HUBER None None = None /\ setup NEGATIVE_BINOMIAL None None = None /\ setup BETA None None = None.
Proof. exact setup_table. Qed.
Print Assumptions C12_setup_table.

Theorem C12_setup_data_domain : forall (d : datachk) (p : option R),
  (valid_binary d = false -> setup BERNOULLI_ODDS (Some d) p = None /\ setup BERNOULLI_LOGIT (Some d) p = None) /\
  (valid_natural d = false -> setup POISSON (Some d) p = None /\ setup POISSON_LOG (Some d) p = None) /\
  (valid_nonneg d = false -> setup RAYLEIGH (Some d) p = None /\ setup GAMMA (Some d) p = None /\
                             setup NEGATIVE_BINOMIAL (Some d) p = None /\ setup BETA (Some d) p = None).
Proof. exact setup_data_domain. Qed.
Print Assumptions C12_setup_data_domain.

(* for every objective (NEGATIVE_BINOMIAL: see below) the pair chosen by the generated setup is a derivative pair on
   m >= lower_bound *)
Theorem C12_setup_derivative_pair : forall (o : Objectives) (data : option datachk) (p : option R) f g lb,
  setup o data p = Some (f, g, lb) -> o <> NEGATIVE_BINOMIAL -> param_ok o p ->
  forall x m, above lb m -> is_derive (fun m => f x m) m (g x m).
Proof. exact setup_derivative_pair. Qed.
Print Assumptions C12_setup_derivative_pair.

(* A-34 (open in the source): for NEGATIVE_BINOMIAL the selected pair is a derivative pair at data value 1 only *)
Theorem C12_setup_negative_binomial_partial : forall (data : option datachk) (p : option R) f g lb,
  setup NEGATIVE_BINOMIAL data p = Some (f, g, lb) ->
  forall m, above lb m -> is_derive (fun m => f 1 m) m (g 1 m).
Proof. exact setup_negative_binomial_partial. Qed.
Print Assumptions C12_setup_negative_binomial_partial.
