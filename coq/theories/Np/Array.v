(* Np/Array.v — dense N-way arrays in F order (first index fastest): the representation of
   pyttb.tensor (.shape, .data) and of every numpy array the models manipulate.
   numpy built-ins that only move entries (transpose, F-order reshape, take) are DEFINED by their
   effect on subscripts via [tabulate]; pyttb operations are compositions of them. *)
From Coq Require Import List Arith Lia Bool.
From PV Require Import Base.Index Base.Perm.
Import ListNotations.

Section Arr.
Context {V : Type} (v0 : V).

Record dense := mkDense { dshape : shape; ddata : list V }.

Definition wf_dense (T : dense) : Prop := length (ddata T) = size (dshape T).
Definition wf_denseb (T : dense) : bool := Nat.eqb (length (ddata T)) (size (dshape T)).

(* the array a tensor denotes: subscripts -> value, v0 outside the shape *)
Definition den_dense (T : dense) (i : idx) : V :=
  if inb (dshape T) i then nth (sub2ind (dshape T) i) (ddata T) v0 else v0.

Definition tabulate (s : shape) (f : idx -> V) : dense :=
  mkDense s (map (fun k => f (ind2sub s k)) (seq 0 (size s))).

Lemma wf_tabulate s f : wf_dense (tabulate s f).
Proof. unfold wf_dense, tabulate. cbn. now rewrite map_length, seq_length. Qed.

Lemma dshape_tabulate s f : dshape (tabulate s f) = s.
Proof. reflexivity. Qed.

Lemma nth_tabulate s f k : k < size s -> nth k (ddata (tabulate s f)) v0 = f (ind2sub s k).
Proof.
  intros H. unfold tabulate. cbn [ddata].
  rewrite (nth_indep _ v0 ((fun k => f (ind2sub s k)) 0)) by (now rewrite map_length, seq_length).
  rewrite (map_nth (fun k => f (ind2sub s k))). now rewrite seq_nth.
Qed.

Lemma den_tabulate s f i : inb s i = true -> den_dense (tabulate s f) i = f i.
Proof.
  intros H. unfold den_dense. rewrite dshape_tabulate, H.
  rewrite nth_tabulate by (now apply sub2ind_lt). now rewrite ind2sub_sub2ind.
Qed.

Lemma den_tabulate_out s f i : inb s i = false -> den_dense (tabulate s f) i = v0.
Proof. intros H. unfold den_dense. now rewrite dshape_tabulate, H. Qed.

Lemma den_dense_out T i : inb (dshape T) i = false -> den_dense T i = v0.
Proof. intros H. unfold den_dense. now rewrite H. Qed.

(* a well-formed dense tensor is determined by its shape and denotation *)
Lemma dense_ext T T' : wf_dense T -> wf_dense T' -> dshape T = dshape T' ->
  (forall i, inb (dshape T) i = true -> den_dense T i = den_dense T' i) -> T = T'.
Proof.
  destruct T as [s d], T' as [s' d']. unfold wf_dense. cbn. intros W W' -> H. f_equal.
  apply (nth_ext _ _ v0 v0); [congruence|]. intros k Hk. rewrite W in Hk.
  specialize (H (ind2sub s' k) (inb_ind2sub s' k Hk)). unfold den_dense in H. cbn in H.
  rewrite inb_ind2sub in H by auto. now rewrite sub2ind_ind2sub in H by auto.
Qed.

Lemma tabulate_den T : wf_dense T -> tabulate (dshape T) (den_dense T) = T.
Proof.
  intros W. apply dense_ext; auto using wf_tabulate.
  intros i Hi. now rewrite den_tabulate.
Qed.

Lemma tabulate_ext s f g : (forall i, inb s i = true -> f i = g i) -> tabulate s f = tabulate s g.
Proof.
  intros H. unfold tabulate. f_equal. apply map_ext_in. intros k Hk. apply in_seq in Hk.
  apply H. apply inb_ind2sub. lia.
Qed.

(* ---- numpy primitives that move entries ---- *)

(* np.transpose(a, p): result[i] = a[j] with j[p[k]] = i[k]  *)
Definition np_transpose (a : dense) (p : list nat) : dense :=
  tabulate (pick 0 p (dshape a)) (fun i => den_dense a (pick 0 (invperm p) i)).

(* np.reshape(a, s', order="F") *)
Definition np_reshapeF (a : dense) (s' : shape) : dense :=
  tabulate s' (fun i => nth (sub2ind s' i) (ddata a) v0).

Lemma np_reshapeF_data a s' : wf_dense a -> size s' = size (dshape a) -> ddata (np_reshapeF a s') = ddata a.
Proof.
  intros W Hs. unfold np_reshapeF, tabulate. cbn [ddata].
  apply (nth_ext _ _ v0 v0).
  - rewrite map_length, seq_length. unfold wf_dense in W. lia.
  - intros k Hk. rewrite map_length, seq_length in Hk.
    rewrite (nth_indep _ v0 ((fun k => nth (sub2ind s' (ind2sub s' k)) (ddata a) v0) 0))
      by (now rewrite map_length, seq_length).
    rewrite (map_nth (fun k => nth (sub2ind s' (ind2sub s' k)) (ddata a) v0)).
    rewrite seq_nth by auto. cbn. now rewrite sub2ind_ind2sub.
Qed.

Lemma den_reshapeF a s' i : wf_dense a -> size s' = size (dshape a) -> inb s' i = true ->
  den_dense (np_reshapeF a s') i = den_dense a (ind2sub (dshape a) (sub2ind s' i)).
Proof.
  intros W Hs Hi. unfold np_reshapeF. rewrite den_tabulate by auto.
  unfold den_dense. pose proof (sub2ind_lt s' i Hi) as Hlt. rewrite Hs in Hlt.
  rewrite inb_ind2sub by auto. now rewrite sub2ind_ind2sub by auto.
Qed.

End Arr.

Arguments dense V : clear implicits.
Arguments mkDense {V} dshape ddata.
