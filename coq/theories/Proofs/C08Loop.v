(* Proofs/C08Loop.v — wave 3b: the column loop of ktensor.fixsigns(other) (Model/C08Loop.v: scores of component r taken
   from the factors as mutated by the components before r, literal breakpt/endpt arithmetic, in-place `-1 *` of the
   chosen columns one after the other) EQUALS the one-shot model k_fixsigns_other_core (= k_flip with the modes
   fso_modes computed from the ORIGINAL normalised operands), as a ktensor (weights and every stored entry), for every
   well-formed receiver, every reference (fewer, as many or MORE components than the receiver: the loop runs over
   range(min(RA, RB)) since /repo 8ac87f0), every commutative ring, every total comparison
   and every sign test that is downward closed w.r.t. it.  Hence invariance, parity and the sign-agreement normal form,
   proved for the model, hold for the loop.  Also: normalize() keeps well-formedness and rank, so the statement applies to
   the operands fixsigns(other) actually works on. *)
From Coq Require Import List Arith Lia Bool Permutation Ring Sorted.
From PV Require Import Base.Index Base.Perm Base.Sum Np.Array Model.Sparse Model.Repr Model.C08Kruskal Model.C08More
  Model.C08Loop Proofs.C08Proofs Proofs.C08NormalForm Proofs.C08Signs Proofs.C08More.
Import ListNotations.

Section PL8.
Variable V : Type.
Variables (v0 v1 : V) (vadd vmul vsub : V -> V -> V) (vopp : V -> V).
Hypothesis Vring : ring_theory v0 v1 vadd vmul vsub vopp (@eq V).
Add Ring Vr8l : Vring.
Notation "x * y" := (vmul x y).
Notation m1 := (vm1 v1 vopp).
Notation mat := (list (list V)).
Notation zipm := (zipmul vmul).
Notation scols := (scale_cols vmul).
Notation flipf := (flip_factors v1 vmul vopp).
Notation ncol := (neg_col v1 vmul vopp).
Notation scores := (fso_scores v0 vadd vmul).
Notation rows_of R := (Forall (fun row : list V => length row = R)).

(* ---- one column, one row ---- *)
Lemma row_flip : forall (row : list V) (f f' : nat -> V) k r, r < length row ->
  (forall q, q <> k + r -> f' q = f q) -> f (k + r) = v1 -> f' (k + r) = m1 ->
  upd_nth r (vmul m1) (zipm row (map f (seq k (length row)))) = zipm row (map f' (seq k (length row))).
Proof.
  induction row as [|x row IH]; intros f f' k r Hr Hne H1 Hm; cbn in Hr; [lia|].
  cbn [length seq map zipmul]. destruct r as [|r]; cbn [upd_nth].
  - rewrite Nat.add_0_r in H1, Hm, Hne. rewrite H1, Hm. f_equal; [unfold vm1; ring|].
    f_equal. apply map_ext_in. intros q Hq. apply in_seq in Hq. symmetry. apply Hne. lia.
  - rewrite (Hne k) by lia. f_equal. apply IH; try lia.
    + intros q Hq. apply Hne. lia.
    + now replace (S k + r) with (k + S r) by lia.
    + now replace (S k + r) with (k + S r) by lia.
Qed.

Lemma mat_flip (A : mat) R (f f' : nat -> V) r : rows_of R A -> r < R ->
  (forall q, q <> r -> f' q = f q) -> f r = v1 -> f' r = m1 ->
  ncol r (scols (map f (seq 0 R)) A) = scols (map f' (seq 0 R)) A.
Proof.
  intros HA Hr Hne H1 Hm. unfold neg_col, scale_cols. rewrite map_map.
  induction HA as [|row A Hrow _ IH]; cbn [map]; [reflexivity|]. f_equal; [|exact IH].
  pose proof (row_flip row f f' 0 r) as E. rewrite Hrow in E. apply E; auto.
Qed.

Lemma flipf_ext fl fl' R : forall (As : list mat) k,
  (forall n r, k <= n -> r < R -> fl n r = fl' n r) -> flipf fl R k As = flipf fl' R k As.
Proof.
  induction As as [|A As IH]; intros k H; cbn [flip_factors]; [reflexivity|]. f_equal.
  - f_equal. apply map_ext_in. intros r Hr. apply in_seq in Hr. rewrite H by lia. reflexivity.
  - apply IH. intros n r Hn Hr. apply H; lia.
Qed.

Lemma zipm_ones : forall (row : list V) k, zipm row (map (fun _ => v1) (seq k (length row))) = row.
Proof. induction row as [|x row IH]; intros k; cbn; [reflexivity|]. f_equal; [ring|apply IH]. Qed.

Lemma flipf_id R : forall (As : list mat) k, Forall (fun A => rows_of R A) As -> flipf (fun _ _ => false) R k As = As.
Proof.
  induction As as [|A As IH]; intros k H; cbn [flip_factors]; [reflexivity|].
  inversion H as [|? ? HA HAs]; subst. f_equal; [|apply IH; exact HAs].
  unfold scale_cols. clear - HA Vring. induction HA as [|row A Hrow _ IH]; cbn [map]; [reflexivity|].
  f_equal; [|exact IH]. rewrite <- Hrow. apply zipm_ones.
Qed.

(* one in-place column negation on a flipped factor list = one more flip *)
Lemma flipf_upd fl R r : forall (As : list mat) k n, n < length As ->
  rows_of R (nth n As []) -> r < R -> fl (k + n) r = false ->
  upd_nth n (ncol r) (flipf fl R k As) = flipf (fun n' r' => fl n' r' || ((n' =? k + n) && (r' =? r))) R k As.
Proof.
  induction As as [|A As IH]; intros k n Hn HA Hr Hfl; cbn in Hn; [lia|].
  destruct n as [|n]; cbn [flip_factors upd_nth nth] in *.
  - rewrite Nat.add_0_r in *. f_equal.
    + apply mat_flip; auto.
      * intros q Hq. rewrite Nat.eqb_refl. cbn. destruct (Nat.eqb_spec q r); [contradiction|]. now rewrite orb_false_r.
      * now rewrite Hfl.
      * rewrite Hfl, !Nat.eqb_refl. reflexivity.
    + apply flipf_ext. intros n' r' Hn' _. destruct (Nat.eqb_spec n' k); [lia|]. cbn. now rewrite orb_false_r.
  - f_equal.
    + f_equal. apply map_ext. intros r'. destruct (Nat.eqb_spec k (k + S n)); [lia|]. cbn. now rewrite orb_false_r.
    + rewrite (IH (S k) n) by (auto; try lia; now replace (S k + n) with (k + S n) by lia).
      now replace (S k + n) with (k + S n) by lia.
Qed.

(* the inner loop `for i in range(endpt)` over distinct modes *)
Lemma flipf_fold R r (As : list mat) : forall (l : list nat) fl, NoDup l -> (forall n, In n l -> n < length As) ->
  (forall n, In n l -> rows_of R (nth n As [])) -> r < R -> (forall n, In n l -> fl n r = false) ->
  fold_left (fun As' n => upd_nth n (ncol r) As') l (flipf fl R 0 As) =
  flipf (fun n' r' => fl n' r' || (memb n' l && (r' =? r))) R 0 As.
Proof.
  induction l as [|n l IH]; intros fl Hnd Hlt Hwf Hr Hfl; cbn [fold_left].
  - apply flipf_ext. intros n' r' _ _. cbn. now rewrite orb_false_r.
  - inversion Hnd as [|? ? Hni Hnd']; subst.
    rewrite (flipf_upd fl R r As 0 n) by (auto; try (apply Hlt; now left); try (apply Hwf; now left); apply Hfl; now left).
    cbn [Nat.add]. rewrite IH; auto.
    + apply flipf_ext. intros n' r' _ _. unfold memb. cbn [existsb].
      destruct (fl n' r'), (n' =? n), (existsb (Nat.eqb n') l), (r' =? r); reflexivity.
    + intros x Hx. apply Hlt. now right.
    + intros x Hx. apply Hwf. now right.
    + intros x Hx. rewrite (Hfl x) by now right. destruct (Nat.eqb_spec x n) as [E|E]; [subst; contradiction|]. reflexivity.
Qed.

(* scores of a component none of whose columns has been flipped yet *)
Lemma scores_unflipped fl A B r : r < krank A -> (forall n, n < length (kfactors A) -> fl n r = false) ->
  scores (k_flip v1 vmul vopp fl A) B r = scores A B r.
Proof.
  intros Hr Hfl. apply (nth_ext _ _ v0 v0).
  - unfold fso_scores, k_flip. cbn [kfactors]. now rewrite !map_length, !seq_length, (length_flip_factors V v1 vmul vopp).
  - intros n Hn.
    assert (Hn' : n < length (kfactors A)).
    { unfold fso_scores, k_flip in Hn. cbn [kfactors] in Hn.
      now rewrite map_length, seq_length, (length_flip_factors V v1 vmul vopp) in Hn. }
    rewrite (flip_scores V v0 v1 vadd vmul vsub vopp Vring) by assumption. rewrite Hfl by exact Hn'. ring.
Qed.

Section Order.
Variables (neg : V -> bool) (leb : V -> V -> bool).
Hypothesis leb_total : forall a b, leb a b = false -> leb b a = true.
Hypothesis neg_mono : forall a b, leb a b = true -> neg b = true -> neg a = true.
Notation modes := (fso_modes v0 vadd vmul vopp neg leb).
Notation step := (py_fso_step v0 v1 vadd vmul vopp neg leb).
Notation pyloop := (py_fixsigns_other_core v0 v1 vadd vmul vopp neg leb).
Notation model := (k_fixsigns_other_core v0 v1 vadd vmul vopp neg leb).

(* the flips decided by the components before t *)
Definition fl_upto (A B : ktensor V) (t : nat) : nat -> nat -> bool := fun n r => (r <? t) && memb n (modes A B r).

Lemma step_inv A B t : wf_k A -> t < krank B -> t < krank A ->
  step B (kweights A) (flipf (fl_upto A B t) (krank A) 0 (kfactors A)) t = flipf (fl_upto A B (S t)) (krank A) 0 (kfactors A).
Proof.
  intros Hwf HtB HtA. unfold py_fso_step.
  change (mkK (kweights A) (flipf (fl_upto A B t) (krank A) 0 (kfactors A))) with (k_flip v1 vmul vopp (fl_upto A B t) A).
  rewrite scores_unflipped; [|exact HtA|intros n _; unfold fl_upto; now rewrite Nat.ltb_irrefl].
  set (s := scores A B t). set (idx := argsort leb s).
  assert (Hs : length s = length (kfactors A)) by (unfold s, fso_scores; now rewrite map_length, seq_length).
  pose proof (argsort_perm V leb s) as Hp. fold idx in Hp. rewrite Hs in Hp.
  rewrite (py_endpt_is_model V v0 vopp neg leb neg_mono) by (apply (argsort_sorted V v0 leb leb_total)).
  set (e := fso_endpt v0 vopp neg leb (pick v0 idx s)).
  assert (Hin : forall n, In n (firstn e idx) -> n < length (kfactors A)).
  { intros n Hn. apply (is_perm_In idx _ n Hp). eapply In_firstn; eauto. }
  rewrite flipf_fold.
  - apply flipf_ext. intros n r _ Hr. unfold fl_upto. destruct (Nat.eqb_spec r t) as [E|E].
    + subst r. rewrite Nat.ltb_irrefl. replace (t <? S t) with true by (symmetry; apply Nat.ltb_lt; lia).
      cbn [andb orb]. rewrite andb_true_r. unfold fso_modes. apply Nat.ltb_lt in HtB. rewrite HtB. reflexivity.
    + rewrite andb_false_r, orb_false_r. f_equal.
      destruct (Nat.ltb_spec r t), (Nat.ltb_spec r (S t)); auto; lia.
  - apply NoDup_firstn. eapply is_perm_NoDup; eauto.
  - exact Hin.
  - intros n Hn. unfold wf_k in Hwf. rewrite Forall_forall in Hwf. apply Hwf. apply nth_In. now apply Hin.
  - exact HtA.
  - intros n _. unfold fl_upto. now rewrite Nat.ltb_irrefl.
Qed.

(* THE LOOP IS THE MODEL *)
Theorem py_fixsigns_other_is_model A B : wf_k A -> pyloop A B = model A B.
Proof.
  intros Hwf. unfold py_fixsigns_other_core, k_fixsigns_other_core, k_flip. f_equal.
  assert (H : forall t, t <= Nat.min (krank A) (krank B) ->
            fold_left (step B (kweights A)) (seq 0 t) (kfactors A) = flipf (fl_upto A B t) (krank A) 0 (kfactors A)).
  { induction t as [|t IH]; intros Ht.
    - cbn [seq fold_left]. symmetry. etransitivity; [|apply (flipf_id (krank A) (kfactors A) 0 Hwf)].
      apply flipf_ext. intros n r _ _. reflexivity.
    - rewrite seq_S, fold_left_app, IH by lia. cbn [fold_left Nat.add]. apply step_inv; auto; lia. }
  rewrite (H (Nat.min (krank A) (krank B))) by lia. apply flipf_ext. intros n r _ Hr. unfold fl_upto, fso_modes.
  destruct (Nat.ltb_spec r (krank B)) as [HB|HB].
  - replace (r <? Nat.min (krank A) (krank B)) with true by (symmetry; apply Nat.ltb_lt; lia). reflexivity.
  - replace (r <? Nat.min (krank A) (krank B)) with false by (symmetry; apply Nat.ltb_ge; lia). reflexivity.
Qed.
End Order.

(* ---- normalize() keeps well-formedness and rank (so the operands of the loop are well-formed) ---- *)
Section WfNormalize.
Variables (vinv : V -> V) (nrm : list V -> V) (pos neg : V -> bool) (root : V -> V) (srt : list V -> list nat).
Notation nmode := (k_normalize_mode v0 v1 vmul vinv nrm pos).
Notation normalize0 := (k_normalize v0 v1 vmul vopp vinv nrm pos neg root srt WNone false None).

Lemma rows_scale_cols R cs (A : mat) : length cs = R -> rows_of R A -> rows_of R (scols cs A).
Proof.
  intros Hc HA. unfold scale_cols. induction HA as [|row A Hrow _ IH]; cbn [map]; constructor; auto.
  rewrite (length_zipmul V vmul). lia.
Qed.

Lemma Forall_upd_nth {A} (P : A -> Prop) (f : A -> A) : forall l n, (forall a, P a -> P (f a)) -> Forall P l -> Forall P (upd_nth n f l).
Proof.
  induction l as [|x l IH]; intros n Hf H; destruct n; cbn; try constructor; inversion H; subst; auto.
Qed.

Lemma wf_normalize_mode n K : wf_k K -> wf_k (nmode n K) /\ krank (nmode n K) = krank K.
Proof.
  intros Hwf.
  assert (Hr : krank (nmode n K) = krank K).
  { unfold k_normalize_mode, krank. cbn [kweights]. rewrite (length_zipmul V vmul). unfold col_norms.
    rewrite map_length, seq_length. unfold krank. lia. }
  split; [|exact Hr]. unfold wf_k. rewrite Hr. unfold k_normalize_mode. cbn [kfactors].
  apply Forall_upd_nth; [|exact Hwf]. intros A HA. apply rows_scale_cols; auto.
  unfold col_norms. now rewrite !map_length, seq_length.
Qed.

Lemma wf_normalize_fold l : forall K, wf_k K ->
  wf_k (fold_left (fun K n => nmode n K) l K) /\ krank (fold_left (fun K n => nmode n K) l K) = krank K.
Proof.
  induction l as [|n l IH]; intros K Hwf; cbn [fold_left]; [auto|].
  destruct (wf_normalize_mode n K Hwf) as [H1 H2]. destruct (IH _ H1) as [H3 H4]. split; [exact H3|congruence].
Qed.

Lemma wf_normalize K : wf_k K -> wf_k (normalize0 K) /\ krank (normalize0 K) = krank K.
Proof.
  intros Hwf. unfold k_normalize, k_absorb, k_normalize_cols.
  destruct (wf_normalize_fold (seq 0 (length (kfactors K))) K Hwf) as [H1 H2].
  set (K1 := fold_left (fun K n => nmode n K) (seq 0 (length (kfactors K))) K) in *.
  unfold k_fix_neg. destruct (kfactors K1) as [|A0 As] eqn:E; [auto|].
  assert (Hr : krank (mkK (zipm (kweights K1) (map (sgn_neg v1 vopp neg) (kweights K1)))
                          (scols (map (sgn_neg v1 vopp neg) (kweights K1)) A0 :: As)) = krank K1).
  { unfold krank. cbn [kweights]. rewrite (length_zipmul V vmul), map_length. lia. }
  split; [|congruence]. unfold wf_k. rewrite Hr. cbn [kfactors]. unfold wf_k in H1. rewrite E in H1.
  inversion H1; subst. constructor; auto. apply rows_scale_cols; auto. now rewrite map_length.
Qed.
End WfNormalize.

(* ---- consequences for the loop as fixsigns(other) runs it: on the two normalised operands ---- *)
Section Full.
Variables (vinv : V -> V) (nrm : list V -> V) (pos neg : V -> bool) (root : V -> V) (srt : list V -> list nat)
          (leb : V -> V -> bool).
Hypothesis leb_total : forall a b, leb a b = false -> leb b a = true.
Hypothesis neg_mono : forall a b, leb a b = true -> neg b = true -> neg a = true.
Notation normalize0 := (k_normalize v0 v1 vmul vopp vinv nrm pos neg root srt WNone false None).
Notation pyloop := (py_fixsigns_other_core v0 v1 vadd vmul vopp neg leb).

(* fixsigns(other), transliterated: self.normalize(); other.copy().normalize(); the column loop *)
Definition py_fixsigns_other (A B : ktensor V) : ktensor V := pyloop (normalize0 A) (normalize0 B).

Theorem py_fixsigns_other_full A B : wf_k A ->
  py_fixsigns_other A B = k_fixsigns_other V v0 v1 vadd vmul vopp vinv nrm pos neg root srt leb A B.
Proof.
  intros HA. unfold py_fixsigns_other, k_fixsigns_other.
  destruct (wf_normalize vinv nrm pos neg root srt A HA) as [H1 _].
  apply py_fixsigns_other_is_model; auto.
Qed.

(* the loop preserves the denoted array (every norm oracle positive on non-zero columns) *)
Theorem den_py_fixsigns_other :
  (forall x, x <> v0 -> x * vinv x = v1) -> (forall x, pos x = true -> x <> v0) ->
  (forall l, pos (nrm l) = false -> Forall (fun y => y = v0) l) -> (forall l, is_perm (srt l) (length l)) ->
  forall A B, wf_k A ->
  forall i, den_k v0 v1 vadd vmul (py_fixsigns_other A B) i = den_k v0 v1 vadd vmul A i.
Proof.
  intros H1 H2 H3 H4 A B HA i. rewrite py_fixsigns_other_full by assumption.
  apply (den_fixsigns_other V v0 v1 vadd vmul vsub vopp vinv Vring nrm pos neg root srt leb H1 H2 H3 H4).
Qed.
End Full.

(* sign-agreement normal form OF THE LOOP's result: in the order idx = argsort(scores) the new scores are the old ones with
   the first endpt negated; at most one stays negative, none when their number was even *)
Theorem py_fixsigns_other_scores (neg : V -> bool) (leb : V -> V -> bool) :
  (forall a b, leb a b = false -> leb b a = true) -> (forall a b, leb a b = true -> neg b = true -> neg a = true) ->
  (forall x, neg x = true -> neg (vopp x) = false) ->
  forall A B r, wf_k A -> r < krank B -> r < krank A ->
  let s := scores A B r in let idx := argsort leb s in let ss := pick v0 idx s in
  let A' := py_fixsigns_other_core v0 v1 vadd vmul vopp neg leb A B in
  Sorted (fun a b => leb a b = true) ss /\
  (forall q, q < length (kfactors A) -> nth (nth q idx 0) (scores A' B r) v0 = flipped_sorted V v0 vopp neg leb ss q) /\
  let cnt := length (filter (fun q => neg (nth (nth q idx 0) (scores A' B r) v0)) (seq 0 (length (kfactors A)))) in
  cnt <= 1 /\ (Nat.even (length (filter neg ss)) = true -> cnt = 0).
Proof.
  intros H1 H2 H3 A B r Hwf HrB HrA. rewrite (py_fixsigns_other_is_model neg leb H1 H2 A B Hwf).
  apply (fixsigns_other_scores V v0 v1 vadd vmul vsub vopp Vring neg leb H1 H2 H3 A B r); lia.
Qed.
End PL8.
