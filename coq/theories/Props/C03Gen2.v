(* Props/C03Gen2.v — wave 3b: the own code paths of == and != over the helpers GENERATED from pyttb_utils.py
   (Model/C03Gen2.v: extract through tt_ismember_rows; S != S2 through tt_intersect_rows and boolean scatter; S == T through
   extract; S != T through GenUtils2.tt_union_rows and tt_setdiff_rows).  Only statements, `exact`, Print Assumptions.
   V is any value type with decidable zero and equality; operands are arbitrary well-formed coordinate lists of order >= 1,
   in ANY stored order. *)
From Coq Require Import List Arith Bool ZArith Sorted.
From PV Require Import Base.Index Np.NpZ Np.Array Gen.GenUtils Gen.GenUtils2 Model.Sparse Model.Harness Model.C03Ops Model.C03Gen Model.C03More
                       Model.C03Gen2 Proofs.C03Lemmas Proofs.C03Proofs Proofs.C03Rows Proofs.C03GenProofs Proofs.C03More Proofs.GenRows Proofs.C03Gen2.
Import ListNotations.

Section C03Gen2.
Context {V : Type} (v0 : V) (isz : V -> bool).
Hypothesis isz_spec : forall v, isz v = true <-> v = v0.
Notation den := (den_sp v0).
Notation wf := (wf_sp isz).

(* sptensor.extract: valid, loc = tt_ismember_rows(searchsubs, self.subs); a[valid] = self.vals[loc[valid]] is the value at every
   requested subscript, implicit zeros included, repeated and absent rows alike *)
Theorem C03_extract_gen : forall (A : sparse V) (rows : list idx), wf_struct A -> sshape A <> [] ->
  width (length (sshape A)) rows -> extract_gen v0 A rows = Ok (map (den A) rows).
Proof. exact (@extract_gen_spec V v0). Qed.

(* S != S2 as written (tt_intersect_rows both ways, selfIdx[...] = False, subs_pad[subs2] = extract != extract) computes, list for
   list, the algorithm of C03_ne_sparse ... *)
Theorem C03_ne_sparse_gen_eq : forall (one : V) (veqb : V -> V -> bool) (A B : sparse V),
  wf_struct A -> wf_struct B -> sshape B = sshape A -> sshape A <> [] ->
  impl_ne_sparse_gen v0 one veqb A B = Ok (impl_ne_sparse v0 one veqb A B).
Proof. exact (@impl_ne_sparse_gen_eq V v0). Qed.

(* ... hence the element-wise != at every position, well-formed *)
Theorem C03_ne_sparse_gen : forall (one : V), one <> v0 -> forall (veqb : V -> V -> bool), (forall a b, veqb a b = true <-> a = b) ->
  forall A B : sparse V, wf A -> wf B -> sshape B = sshape A -> sshape A <> [] ->
  exists R, impl_ne_sparse_gen v0 one veqb A B = Ok R /\ wf R /\ sshape R = sshape A /\
            forall i, inb (sshape A) i = true -> den R i = bval v0 one (negb (veqb (den A i) (den B i))).
Proof. exact (impl_ne_sparse_gen_correct v0 isz isz_spec). Qed.

(* S == T as written ((other == 0).find() in F order, self[otherzerosubs] through extract) *)
Theorem C03_eq_dense_gen_eq : forall (one : V) (veqb : V -> V -> bool) (A : sparse V) (T : dense V),
  wf_struct A -> sshape A <> [] ->
  impl_eq_dense_gen v0 isz one veqb A T = Ok (impl_eq_dense v0 isz one veqb A T).
Proof. exact (@impl_eq_dense_gen_eq V v0 isz). Qed.

Theorem C03_eq_dense_gen : forall (one : V), one <> v0 -> forall (veqb : V -> V -> bool), (forall a b, veqb a b = true <-> a = b) ->
  forall (A : sparse V) (T : dense V), wf A -> sshape A <> [] ->
  exists R, impl_eq_dense_gen v0 isz one veqb A T = Ok R /\ wf R /\ sshape R = sshape A /\
            forall i, inb (sshape A) i = true -> den R i = bval v0 one (veqb (den A i) (den_dense v0 T i)).
Proof. exact (impl_eq_dense_gen_correct v0 isz isz_spec). Qed.

(* S != T as written: tt_union_rows(self.subs, zero positions of T in lexicographic row order), the size test, tt_setdiff_rows of the
   enumeration against the union; for ANY duplicate-free enumeration of the shape in strict lexicographic row order ... *)
Theorem C03_ne_dense_gen_enum : forall (one : V), one <> v0 -> forall (veqb : V -> V -> bool), (forall a b, veqb a b = true <-> a = b) ->
  forall (alls : list idx) (A : sparse V) (T : dense V), wf A -> sshape A <> [] ->
  NoDup alls -> (forall i, In i alls <-> inb (sshape A) i = true) -> StronglySorted row_lt (zrows alls) ->
  exists R, impl_ne_dense_gen v0 isz one veqb alls A T = Ok R /\ wf R /\ sshape R = sshape A /\
            forall i, inb (sshape A) i = true -> den R i = bval v0 one (negb (veqb (den A i) (den_dense v0 T i))).
Proof. exact (impl_ne_dense_gen_correct v0 isz isz_spec). Qed.

(* ... in particular for pyttb's own enumeration allsubs() / np.where (first mode slowest) *)
Theorem C03_ne_dense_gen : forall (one : V), one <> v0 -> forall (veqb : V -> V -> bool), (forall a b, veqb a b = true <-> a = b) ->
  forall (A : sparse V) (T : dense V), wf A -> sshape A <> [] ->
  exists R, impl_ne_dense_gen v0 isz one veqb (allsubsC (sshape A)) A T = Ok R /\ wf R /\ sshape R = sshape A /\
            forall i, inb (sshape A) i = true -> den R i = bval v0 one (negb (veqb (den A i) (den_dense v0 T i))).
Proof. exact (impl_ne_dense_gen_C v0 isz isz_spec). Qed.
End C03Gen2.

(* the enumeration: duplicate-free, exactly the positions of the shape, strictly increasing in np.unique's row order *)
Theorem C03_allsubsC_enum : forall s : shape,
  NoDup (allsubsC s) /\ (forall i, In i (allsubsC s) <-> inb s i = true) /\ StronglySorted row_lt (zrows (allsubsC s)).
Proof. intros s. exact (conj (allsubsC_NoDup s) (conj (in_allsubsC s) (allsubsC_sorted s))). Qed.

(* a[positions of C in l] = g(C) on an array of constants, read back as a map over l (selfIdx[idx] = False, subs_pad[subs2] = ...) *)
Theorem C03_scatter_positions : forall (X : Type) (l C : list idx) (g : idx -> X) (d0 : X), NoDup l -> (forall i, In i C -> In i l) ->
  np_scatter (repeat d0 (length l)) (map (fun i => Z.of_nat (pos i l)) C) (map g C) = map (fun i => if mem i C then g i else d0) l.
Proof. exact @scatter_pos_map. Qed.

(* the generated tt_ismember_rows on any two row lists the helpers treat as arrays (no row, or a positive number of cells) *)
Theorem C03_rows_ismember_exact : forall S T : mat, okw S -> okw T ->
  tt_ismember_rows S T = Ok (map (inrows T) S, map (loc T) S).
Proof. exact ismember_rows_exact. Qed.

Print Assumptions C03_extract_gen.
Print Assumptions C03_ne_sparse_gen_eq.
Print Assumptions C03_ne_sparse_gen.
Print Assumptions C03_eq_dense_gen_eq.
Print Assumptions C03_eq_dense_gen.
Print Assumptions C03_ne_dense_gen_enum.
Print Assumptions C03_ne_dense_gen.
Print Assumptions C03_allsubsC_enum.
Print Assumptions C03_scatter_positions.
Print Assumptions C03_rows_ismember_exact.

(* non-vacuity: non-symmetric 2x3 operands stored in different unsorted orders *)
Local Open Scope Z_scope.
Definition g2A : sparse Z := mkSp [2; 3]%nat [[1; 2]; [0; 1]; [1; 0]]%nat [9; -7; 5].
Definition g2B : sparse Z := mkSp [2; 3]%nat [[1; 0]; [0; 0]; [1; 2]]%nat [5; 4; -2].
Definition g2T : dense Z := mkDense [2; 3]%nat [0; 5; -7; 0; 3; 1].
Example C03_example_gen2 :
  extract_gen 0 g2A [[1; 0]; [0; 0]; [1; 0]; [1; 2]]%nat = Ok [5; 0; 5; 9] /\
  (exists R, impl_ne_sparse_gen 0 1 Z.eqb g2A g2B = Ok R /\ ssubs R = [[0; 1]; [0; 0]; [1; 2]]%nat /\
             full 0 R = mkDense [2; 3]%nat [1; 0; 1; 0; 0; 1]) /\
  (exists R, impl_eq_dense_gen 0 zisz 1 Z.eqb g2A g2T = Ok R /\ ssubs R = [[0; 0]; [1; 1]; [0; 1]; [1; 0]]%nat /\
             full 0 R = mkDense [2; 3]%nat [1; 1; 1; 1; 0; 0]) /\
  (exists R, impl_ne_dense_gen 0 zisz 1 Z.eqb (allsubsC [2; 3]%nat) g2A g2T = Ok R /\ ssubs R = [[0; 2]; [1; 2]]%nat /\
             full 0 R = mkDense [2; 3]%nat [0; 0; 0; 0; 1; 1]) /\
  tt_union_rows (zrows (ssubs g2A)) [[0; 0]; [1; 1]] = Ok [[0; 0]; [1; 1]; [1; 2]; [0; 1]; [1; 0]] /\
  allsubsC [2; 3]%nat = [[0; 0]; [0; 1]; [0; 2]; [1; 0]; [1; 1]; [1; 2]]%nat.
Proof. repeat split; try (eexists; split; [reflexivity|split; reflexivity]); reflexivity. Qed.
