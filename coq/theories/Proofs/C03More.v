(* Proofs/C03More.v — correctness of the code paths of Model/C03More.v. *)
From Coq Require Import List ZArith Arith Lia Bool Permutation QArith Qcanon.
From PV Require Import Base.Index Np.NpZ Np.Array Gen.GenUtils Model.Sparse Model.Harness Model.C03Ops Model.C03Gen Model.C03More
                       Proofs.NpZProofs Proofs.C03Lemmas Proofs.C03Proofs Proofs.C03GenProofs.
Import ListNotations.
Local Open Scope nat_scope.

Section More.
Context {V : Type} (v0 : V) (isz : V -> bool).
Hypothesis isz_spec : forall v, isz v = true <-> v = v0.
Variable one : V.
Hypothesis one_nz : one <> v0.
Variable veqb : V -> V -> bool.
Hypothesis veqb_spec : forall a b, veqb a b = true <-> a = b.
Notation den := (den_sp v0).
Notation dend := (den_dense v0).
Notation wf := (wf_sp isz).
Notation wfs := (@wf_struct V).
Notation bv := (bval v0 one).
Notation nz x := (negb (isz x)).

Lemma veqb_false a b : veqb a b = false <-> a <> b.
Proof. rewrite <- veqb_spec. destruct (veqb a b); split; intros; try discriminate; auto. now exfalso. Qed.

Lemma isz_den_notin (A : sparse V) i : wf A -> (isz (den A i) = true <-> ~ In i (ssubs A)).
Proof.
  intros W. rewrite <- mem_false, (mem_subs v0 isz isz_spec A i W). destruct (isz (den A i)); cbn; intuition discriminate.
Qed.

(* logical_and with a dense tensor *)
Theorem impl_and_dense_correct (A : sparse V) (T : dense V) : wf A -> wf_dense T -> dshape T = sshape A ->
  wf (impl_and_dense v0 isz one A T) /\ sshape (impl_and_dense v0 isz one A T) = sshape A /\
  forall i, den (impl_and_dense v0 isz one A T) i = bv (nz (den A i) && nz (dend T i)).
Proof.
  intros WA WT Hs. unfold impl_and_dense.
  destruct (impl_and_correct v0 isz isz_spec one A (to_sptensor v0 isz T) WA (to_sptensor_wf v0 isz T WT) Hs) as (W & S & D).
  split; [exact W|split; [exact S|]]. intros i. rewrite D. now rewrite (den_to_sptensor v0 isz isz_spec T i WT).
Qed.

(* S == c *)
Theorem impl_eq_scalar_correct (A : sparse V) (c : V) : wf A ->
  wf (impl_eq_scalar isz one veqb A c) /\ sshape (impl_eq_scalar isz one veqb A c) = sshape A /\
  forall i, inb (sshape A) i = true -> den (impl_eq_scalar isz one veqb A c) i = bv (veqb (den A i) c).
Proof.
  intros WA. pose proof (wf_sp_struct isz A WA) as Ws. unfold impl_eq_scalar. destruct (isz c) eqn:Hc.
  - apply isz_spec in Hc. subst c. destruct (impl_not_correct v0 isz isz_spec one A one_nz WA) as (W & S & D).
    split; [exact W|split; [exact S|]]. intros i Hi. rewrite D by auto. f_equal.
    apply eq_true_iff_eq. now rewrite isz_spec, veqb_spec.
  - assert (Hcz : c <> v0) by (now apply (isz_false v0 isz isz_spec)).
    set (subs1 := map fst (filter (fun e => veqb (snd e) c) (entries A))).
    assert (H1 : forall i, In i subs1 <-> In i (ssubs A) /\ veqb (den A i) c = true).
    { intros i. unfold subs1. now rewrite (in_fst_filter_entries v0). }
    destruct (sp_const_char v0 isz isz_spec one one_nz (sshape A) subs1 (fun i => veqb (den A i) c)) as (W & D).
    + unfold subs1. apply NoDup_map_fst_filter. now apply NoDup_fst_entries.
    + intros i Hi. apply H1 in Hi. now apply wf_inb.
    + intros i Hi. rewrite H1. destruct (in_dec idx_dec i (ssubs A)) as [Hin|Hout]; [tauto|].
      rewrite (den_sp_notin v0 A i Hout). split; [tauto|]. intros E. apply veqb_spec in E. congruence.
    + split; [exact W|split; [reflexivity|exact D]].
Qed.

(* S == T (dense) *)
Theorem impl_eq_dense_correct (A : sparse V) (T : dense V) : wf A ->
  wf (impl_eq_dense v0 isz one veqb A T) /\ sshape (impl_eq_dense v0 isz one veqb A T) = sshape A /\
  forall i, inb (sshape A) i = true -> den (impl_eq_dense v0 isz one veqb A T) i = bv (veqb (den A i) (dend T i)).
Proof.
  intros WA. pose proof (wf_sp_struct isz A WA) as Ws. unfold impl_eq_dense.
  set (g1 := filter (fun i => isz (den A i)) (filter (fun i => isz (dend T i)) (allsubs (sshape A)))).
  set (g2 := map fst (filter (fun e => veqb (dend T (fst e)) (snd e)) (entries A))).
  assert (H1 : forall i, In i g1 <-> inb (sshape A) i = true /\ isz (dend T i) = true /\ ~ In i (ssubs A)).
  { intros i. unfold g1. rewrite !filter_In, in_allsubs, (isz_den_notin A i WA). tauto. }
  assert (H2 : forall i, In i g2 <-> In i (ssubs A) /\ veqb (dend T i) (den A i) = true).
  { intros i. unfold g2. now rewrite (in_fst_filter_entries v0). }
  destruct (sp_const_char v0 isz isz_spec one one_nz (sshape A) (g1 ++ g2) (fun i => veqb (den A i) (dend T i))) as (W & D).
  - apply NoDup_app_intro.
    + apply NoDup_filter, NoDup_filter, allsubs_NoDup.
    + unfold g2. apply NoDup_map_fst_filter. now apply NoDup_fst_entries.
    + intros i Hi1 Hi2. apply H1 in Hi1. apply H2 in Hi2. tauto.
  - intros i Hi. apply in_app_iff in Hi as [Hi|Hi]; [apply H1 in Hi; tauto|apply H2 in Hi; apply wf_inb; tauto].
  - intros i Hi. rewrite in_app_iff, H1, H2, !veqb_spec, isz_spec.
    destruct (in_dec idx_dec i (ssubs A)) as [Hin|Hout].
    + split; [intros [?|[_ E]]; [tauto|now symmetry]|intros E; right; split; [auto|now symmetry]].
    + rewrite (den_sp_notin v0 A i Hout). split; [intros [(_ & E & _)|?]; [now symmetry|tauto]|intros E; left; split; [auto|split; [now symmetry|auto]]].
  - split; [exact W|split; [reflexivity|exact D]].
Qed.

(* S != S2 *)
Theorem impl_ne_sparse_correct (A B : sparse V) : wf A -> wf B -> sshape B = sshape A ->
  wf (impl_ne_sparse v0 one veqb A B) /\ sshape (impl_ne_sparse v0 one veqb A B) = sshape A /\
  forall i, inb (sshape A) i = true -> den (impl_ne_sparse v0 one veqb A B) i = bv (negb (veqb (den A i) (den B i))).
Proof.
  intros WA WB Hs. pose proof (wf_sp_struct isz A WA) as WsA. pose proof (wf_sp_struct isz B WB) as WsB.
  unfold impl_ne_sparse.
  set (d1 := rows_diff (ssubs A) (ssubs B)). set (d2 := rows_diff (ssubs B) (ssubs A)).
  set (g2 := filter (fun i => mem i (ssubs B) && negb (veqb (den A i) (den B i))) (ssubs A)).
  assert (HnA : NoDup (ssubs A)) by (now destruct WsA as (_ & ? & _)).
  assert (HnB : NoDup (ssubs B)) by (now destruct WsB as (_ & ? & _)).
  assert (H1 : forall i, In i d1 <-> In i (ssubs A) /\ ~ In i (ssubs B)).
  { intros i. unfold d1, rows_diff. now rewrite filter_In, negb_true_iff, mem_false. }
  assert (H2 : forall i, In i d2 <-> In i (ssubs B) /\ ~ In i (ssubs A)).
  { intros i. unfold d2, rows_diff. now rewrite filter_In, negb_true_iff, mem_false. }
  assert (H3 : forall i, In i g2 <-> In i (ssubs A) /\ In i (ssubs B) /\ veqb (den A i) (den B i) = false).
  { intros i. unfold g2. now rewrite filter_In, andb_true_iff, mem_spec, negb_true_iff. }
  destruct (sp_const_char v0 isz isz_spec one one_nz (sshape A) ((d1 ++ d2) ++ g2) (fun i => negb (veqb (den A i) (den B i)))) as (W & D).
  - apply NoDup_app_intro; [apply NoDup_app_intro| |].
    + now apply NoDup_filter.
    + now apply NoDup_filter.
    + intros i Hi1 Hi2. apply H1 in Hi1. apply H2 in Hi2. tauto.
    + now apply NoDup_filter.
    + intros i Hi Hi3. apply H3 in Hi3. apply in_app_iff in Hi as [Hi|Hi]; [apply H1 in Hi|apply H2 in Hi]; tauto.
  - intros i Hi. rewrite !in_app_iff in Hi. destruct Hi as [[Hi|Hi]|Hi].
    + apply H1 in Hi. apply wf_inb; tauto.
    + apply H2 in Hi. rewrite <- Hs. apply wf_inb; tauto.
    + apply H3 in Hi. apply wf_inb; tauto.
  - intros i Hi. rewrite !in_app_iff, H1, H2, H3, negb_true_iff, veqb_false.
    destruct (in_dec idx_dec i (ssubs A)) as [HA|HA], (in_dec idx_dec i (ssubs B)) as [HB|HB].
    + tauto.
    + rewrite (den_sp_notin v0 B i HB). pose proof (proj1 (in_subs_iff v0 isz isz_spec A i WA) HA). tauto.
    + rewrite (den_sp_notin v0 A i HA). pose proof (proj1 (in_subs_iff v0 isz isz_spec B i WB) HB) as HB'.
      split; [intros _ E; now symmetry in E|tauto].
    + rewrite (den_sp_notin v0 A i HA), (den_sp_notin v0 B i HB). tauto.
  - split; [exact W|split; [reflexivity|exact D]].
Qed.

(* S != T (dense) *)
Theorem impl_ne_dense_correct (A : sparse V) (T : dense V) : wf A ->
  wf (impl_ne_dense v0 isz one veqb A T) /\ sshape (impl_ne_dense v0 isz one veqb A T) = sshape A /\
  forall i, inb (sshape A) i = true -> den (impl_ne_dense v0 isz one veqb A T) i = bv (negb (veqb (den A i) (dend T i))).
Proof.
  intros WA. pose proof (wf_sp_struct isz A WA) as Ws. unfold impl_ne_dense.
  set (g1 := filter (fun i => negb (mem i (ssubs A)) && nz (dend T i)) (allsubs (sshape A))).
  set (g2 := map fst (filter (fun e => negb (veqb (snd e) (dend T (fst e)))) (entries A))).
  assert (H1 : forall i, In i g1 <-> inb (sshape A) i = true /\ ~ In i (ssubs A) /\ dend T i <> v0).
  { intros i. unfold g1. rewrite filter_In, in_allsubs, andb_true_iff, !negb_true_iff, mem_false, (isz_false v0 isz isz_spec). tauto. }
  assert (H2 : forall i, In i g2 <-> In i (ssubs A) /\ negb (veqb (den A i) (dend T i)) = true).
  { intros i. unfold g2. now rewrite (in_fst_filter_entries v0). }
  destruct (sp_const_char v0 isz isz_spec one one_nz (sshape A) (g1 ++ g2) (fun i => negb (veqb (den A i) (dend T i)))) as (W & D).
  - apply NoDup_app_intro.
    + apply NoDup_filter, allsubs_NoDup.
    + unfold g2. apply NoDup_map_fst_filter. now apply NoDup_fst_entries.
    + intros i Hi1 Hi2. apply H1 in Hi1. apply H2 in Hi2. tauto.
  - intros i Hi. apply in_app_iff in Hi as [Hi|Hi]; [apply H1 in Hi; tauto|apply H2 in Hi; apply wf_inb; tauto].
  - intros i Hi. rewrite in_app_iff, H1, H2.
    destruct (in_dec idx_dec i (ssubs A)) as [Hin|Hout]; [tauto|].
    rewrite (den_sp_notin v0 A i Hout), negb_true_iff, veqb_false. split.
    + intros [(_ & _ & E)|?]; [|tauto]. intros E'. now symmetry in E'.
    + intros E. left. split; [auto|split; [auto|]]. intros E'. now symmetry in E'.
  - split; [exact W|split; [reflexivity|exact D]].
Qed.

(* ------------------------------------------------------------------------------------------ *)
(* division into an arbitrary result type X with zero x0                                        *)
(* ------------------------------------------------------------------------------------------ *)
Section Div.
Context {X : Type} (x0 : X).
Variables (dv : V -> V -> X) (xnan : X).
Notation denx := (den_sp x0).

Lemma last_match_app {Y} i (es1 es2 : list (idx * Y)) d : last_match i (es1 ++ es2) d = last_match i es2 (last_match i es1 d).
Proof. revert d; induction es1 as [|[j v] r IH]; intros d; cbn; auto. Qed.

Lemma in_combine_map {Y} (g : V -> Y) (l : list idx) (vals : list V) (i : idx) (v : V) : In (i, v) (combine l vals) -> In (i, g v) (combine l (map g vals)).
Proof.
  revert vals; induction l as [|j l IH]; intros [|w vals] H; cbn in *; try contradiction.
  destruct H as [H|H]; [inversion H; subst; auto|right; auto].
Qed.

(* values mapped entry-wise, subscripts kept *)
Lemma den_map_entries (h : idx * V -> X) (A : sparse V) i : wfs A ->
  denx (mkSp (sshape A) (ssubs A) (map h (entries A))) i = if mem i (ssubs A) then h (i, den A i) else x0.
Proof.
  intros W. pose proof W as (HL & Hn & Hb). destruct (mem i (ssubs A)) eqn:Hm.
  - apply mem_spec in Hm.
    assert (EL : length (map h (entries A)) = length (ssubs A)).
    { unfold entries. rewrite map_length, combine_length, <- HL. apply Nat.min_id. }
    change (last_match i (combine (ssubs A) (map h (entries A))) x0 = h (i, den A i)). apply last_match_in.
    + rewrite map_fst_combine; auto.
    + assert (G : forall (es : list (idx * V)), In (i, den A i) es -> In (i, h (i, den A i)) (combine (map fst es) (map h es))).
      { induction es as [|[j w] es IH]; cbn; [tauto|]. intros [E|H]; [inversion E; subst; auto|auto]. }
      rewrite <- (map_fst_entries A HL) at 1. apply G. now apply (in_subs_entry v0).
  - apply mem_false in Hm. now apply den_sp_notin.
Qed.

Theorem impl_div_dense_partial (A : sparse V) (T : dense V) : wf A ->
  (forall t, t <> v0 -> dv v0 t = x0) ->
  let R := impl_div_dense v0 dv A T in
  @wf_struct X R /\ sshape R = sshape A /\
  forall i, ~ (den A i = v0 /\ dend T i = v0) -> denx R i = dv (den A i) (dend T i).
Proof.
  intros WA H0 R. pose proof (wf_sp_struct isz A WA) as Ws. split; [|split; [reflexivity|]].
  - destruct Ws as (HL & Hn & Hb). unfold wf_struct, R, impl_div_dense. cbn [ssubs svals sshape].
    repeat split; auto. unfold entries. now rewrite map_length, combine_length, <- HL, Nat.min_id.
  - intros i Hi. unfold R, impl_div_dense.
    rewrite (den_map_entries (fun e => dv (snd e) (dend T (fst e))) A i Ws). cbn [fst snd].
    destruct (mem i (ssubs A)) eqn:Hm; [reflexivity|].
    apply mem_false in Hm. rewrite (den_sp_notin v0 A i Hm) in *. symmetry. apply H0. tauto.
Qed.

Theorem impl_div_scalar_gen_correct (A : sparse V) (c : V) : wf A -> sshape A <> [] ->
  (c <> v0 -> dv v0 c = x0) -> (c = v0 -> dv v0 c = xnan) ->
  exists R, impl_div_scalar_gen isz dv xnan A c = Ok R /\ @wf_struct X R /\ sshape R = sshape A /\
            forall i, inb (sshape A) i = true -> denx R i = dv (den A i) c.
Proof.
  intros WA Hne Hc0 Hcn. pose proof (wf_sp_struct isz A WA) as Ws. pose proof Ws as (HL & Hn & Hb).
  unfold impl_div_scalar_gen. destruct (isz c) eqn:Hc.
  - apply isz_spec in Hc. rewrite (gen_zero_subs A Ws Hne). cbn [bind]. eexists. split; [reflexivity|].
    split; [|split; [reflexivity|]].
    + unfold wf_struct. cbn [ssubs svals sshape]. rewrite !app_length, !map_length. split; [lia|]. split.
      * apply NoDup_app_intro; auto using NoDup_zero_subs. intros i H1 H2. apply in_zero_subs in H2. tauto.
      * apply Forall_app. split; auto. rewrite Forall_forall. intros i Hi. apply in_zero_subs in Hi. tauto.
    + intros i Hi. unfold den_sp at 1, entries at 1. cbn [ssubs svals].
      rewrite combine_app by (now rewrite map_length). rewrite last_match_app.
      destruct (in_dec idx_dec i (ssubs A)) as [Hin|Hout].
      * rewrite (last_match_notin i (combine (zero_subs A) _)).
        -- apply last_match_in; [rewrite map_fst_combine; auto; now rewrite map_length|].
           apply (in_combine_map (fun v => dv v c)). exact (in_subs_entry v0 A i Ws Hin).
        -- intros e He Hf. destruct e as [j w]. cbn in Hf. subst j. apply in_combine_l in He. apply in_zero_subs in He. tauto.
      * rewrite (last_match_notin i (combine (ssubs A) _)).
        -- rewrite (den_sp_notin v0 A i Hout). rewrite (Hcn Hc). apply last_match_in.
           ++ rewrite map_fst_combine; [apply NoDup_zero_subs|now rewrite map_length].
           ++ assert (G : forall l, In i l -> In (i, xnan) (combine l (map (fun _ : idx => xnan) l))).
              { induction l as [|j l IH]; cbn; [tauto|]. intros [->|H]; auto. }
              apply G. apply in_zero_subs. tauto.
        -- intros e He Hf. destruct e as [j w]. cbn in Hf. subst j. apply in_combine_l in He. contradiction.
  - assert (Hcz : c <> v0) by (now apply (isz_false v0 isz isz_spec)).
    eexists. split; [reflexivity|]. split; [|split; [reflexivity|]].
    + unfold wf_struct. cbn [ssubs svals sshape]. now rewrite map_length.
    + intros i Hi. unfold den_sp at 1, entries at 1. cbn [ssubs svals].
      destruct (in_dec idx_dec i (ssubs A)) as [Hin|Hout].
      * apply last_match_in; [rewrite map_fst_combine; auto; now rewrite map_length|].
        apply (in_combine_map (fun v => dv v c)). exact (in_subs_entry v0 A i Ws Hin).
      * rewrite (den_sp_notin v0 A i Hout), (Hc0 Hcz). apply last_match_notin.
        intros e He Hf. destruct e as [j w]. cbn in Hf. subst j. apply in_combine_l in He. contradiction.
Qed.
End Div.
End More.

(* ------------------------------------------------------------------------------------------ *)
(* the IEEE instance: Z operands, xval results                                                  *)
(* ------------------------------------------------------------------------------------------ *)
Local Open Scope Z_scope.
Lemma zisz_spec v : zisz v = true <-> v = 0.
Proof. unfold zisz. apply Z.eqb_eq. Qed.

Lemma z2q_nz c : c <> 0 -> qisz (z2q c) = false.
Proof.
  intros H. unfold qisz, z2q. destruct (Qc_eq_bool (Q2Qc (inject_Z c)) (Q2Qc 0)) eqn:E; auto.
  apply Qc_eq_bool_correct in E. apply Q2Qc_eq_iff in E. unfold Qeq in E. cbn in E. lia.
Qed.

Lemma xdivz_0_l c : c <> 0 -> xdivz 0 c = x0.
Proof.
  intros H. unfold xdivz, xdiv. rewrite (z2q_nz c H). unfold x0. f_equal.
  change (z2q 0) with q0. unfold q0. apply Qc_is_canon. unfold Qcdiv, Qcmult, Q2Qc, this. rewrite !Qred_correct. 
  unfold Qmult, Qeq. cbn. lia.
Qed.

Lemma xdivz_0_0 : xdivz 0 0 = XNaN.
Proof. reflexivity. Qed.

(* finding C03-N5 (open): sparse / dense is NOT the element-wise quotient where both operands are 0 *)
Definition div_dense_stmt : Prop :=
  forall (A : sparse Z) (T : dense Z), wf_sp zisz A -> wf_dense T -> dshape T = sshape A ->
  forall i, inb (sshape A) i = true -> den_sp x0 (impl_div_dense 0 xdivz A T) i = xdivz (zden_sp A i) (zden T i).

Theorem div_dense_refuted : ~ div_dense_stmt.
Proof.
  intros H.
  specialize (H (mkSp [2; 2]%nat [[1; 1]; [0; 0]]%nat [3; 2]) (mkDense [2; 2]%nat [1; 0; 2; 3])).
  assert (W : wf_sp zisz (mkSp [2; 2]%nat [[1; 1]; [0; 0]]%nat [3; 2])).
  { unfold wf_sp; cbn. repeat split; auto. repeat constructor; cbn; intuition discriminate. }
  specialize (H W eq_refl eq_refl [1; 0]%nat eq_refl). vm_compute in H. discriminate.
Qed.

(* sparse / scalar (any scalar, 0 included) and sparse / dense over Z operands with IEEE results *)
Theorem div_scalar_ieee (A : sparse Z) (c : Z) : wf_sp zisz A -> sshape A <> [] ->
  exists R, impl_div_scalar_gen zisz xdivz XNaN A c = Ok R /\ wf_struct R /\ sshape R = sshape A /\
            forall i, inb (sshape A) i = true -> den_sp x0 R i = xdivz (zden_sp A i) c.
Proof.
  intros WA Hne. apply (impl_div_scalar_gen_correct 0 zisz zisz_spec x0 xdivz XNaN); auto using xdivz_0_l.
  intros ->. reflexivity.
Qed.

Theorem div_dense_ieee_partial (A : sparse Z) (T : dense Z) : wf_sp zisz A ->
  wf_struct (impl_div_dense 0 xdivz A T) /\ sshape (impl_div_dense 0 xdivz A T) = sshape A /\
  forall i, ~ (zden_sp A i = 0 /\ zden T i = 0) -> den_sp x0 (impl_div_dense 0 xdivz A T) i = xdivz (zden_sp A i) (zden T i).
Proof. intros WA. exact (impl_div_dense_partial 0 zisz x0 xdivz A T WA xdivz_0_l). Qed.

(* ------------------------------------------------------------------------------------------ *)
(* sparse / sparse as pyttb computes it (repaired tree e2beb21; Model/C03Gen.v impl_div_sparse_gen over the generated helpers).
   Finding A-07 (pairing by position, rows taken from the wrong list) is fixed; what remains is finding C03-N7: x/0 is filled
   with NaN and 0/x is stored as an explicit 0. *)
(* ------------------------------------------------------------------------------------------ *)
Definition div_sparse_stmt : Prop :=
  forall (A B : sparse Z), wf_sp zisz A -> wf_sp zisz B -> sshape B = sshape A -> sshape A <> [] ->
  exists R, impl_div_sparse_gen 0 xdivz XNaN x0 (allsubsC (sshape A)) A B = Ok R /\
            forall i, inb (sshape A) i = true -> den_sp x0 R i = xdivz (zden_sp A i) (zden_sp B i).

Definition wdA : sparse Z := mkSp [2; 2]%nat [[1; 0]]%nat [4].
Definition wdB : sparse Z := mkSp [2; 2]%nat [[1; 1]; [0; 0]]%nat [3; 2].

(* C03-N7: 4/0 at [1,0] comes out NaN, the element-wise quotient is +inf *)
Theorem div_sparse_refuted : ~ div_sparse_stmt.
Proof.
  intros H.
  assert (WA : wf_sp zisz wdA) by (unfold wf_sp; cbn; repeat split; auto; repeat constructor; cbn; intuition discriminate).
  assert (WB : wf_sp zisz wdB) by (unfold wf_sp; cbn; repeat split; auto; repeat constructor; cbn; intuition discriminate).
  destruct (H wdA wdB WA WB eq_refl) as (R & E & D); [discriminate|].
  vm_compute in E. inversion E; subst R. specialize (D [1; 0]%nat eq_refl). vm_compute in D. discriminate.
Qed.

Section DivSparse.
Context {V X : Type} (v0 : V) (isz : V -> bool) (x0 : X).
Hypothesis isz_spec : forall v, isz v = true <-> v = v0.
Variables (dv : V -> V -> X) (xnan xzero : X).
Notation den := (den_sp v0).

Lemma nonempty_cases {Y} (l : list Y) : l = [] \/ nonempty l = true.
Proof. destruct l; auto. Qed.

Lemma rows_diff_nil (l : list idx) : rows_diff l [] = l.
Proof. unfold rows_diff. cbn. induction l; cbn; auto. now f_equal. Qed.

Lemma rows_inter_nil_r (l : list idx) : rows_inter l [] = [].
Proof. unfold rows_inter. induction l; cbn; auto. Qed.

Lemma in_rows_inter i l1 l2 : In i (rows_inter l1 l2) <-> In i l1 /\ In i l2.
Proof. unfold rows_inter. now rewrite filter_In, mem_spec. Qed.

Lemma in_rows_diff i l1 l2 : In i (rows_diff l1 l2) <-> In i l1 /\ ~ In i l2.
Proof. unfold rows_diff. now rewrite filter_In, negb_true_iff, mem_false. Qed.

(* X[tt_intersect_rows(X, Y)] appended with a constant fill: the rows of Y that occur in X, in the order of Y *)
Lemma more_rows_pos (acc : list idx * list X) (src l2 : list idx) (fill : X) :
  more_rows acc src (map (fun i => Z.of_nat (pos i src)) (rows_inter l2 src)) fill =
  Ok (fst acc ++ rows_inter l2 src, snd acc ++ map (fun _ => fill) (rows_inter l2 src)).
Proof.
  set (C := rows_inter l2 src).
  assert (HC : forall i, In i C -> In i src) by (intros i Hi; now apply in_rows_inter in Hi).
  unfold more_rows. destruct C as [|c C'] eqn:EC.
  - cbn [map nonempty]. destruct acc; cbn [fst snd]. now rewrite !app_nil_r.
  - rewrite <- EC in *. assert (EN : nonempty (map (fun i => Z.of_nat (pos i src)) C) = true) by (rewrite EC; reflexivity).
    rewrite EN. unfold take_chk.
    match goal with |- context [forallb ?p ?l] => assert (Hchk : forallb p l = true) end.
    { apply forallb_forall. intros k Hk. apply in_map_iff in Hk as (i & <- & Hi). destruct (pos_spec i src (HC i Hi)) as [Hp _].
      unfold zlen. unfold idx in *. apply andb_true_iff. split; [apply Z.leb_le|apply Z.ltb_lt]; lia. }
    rewrite Hchk. cbn [bind fst snd]. rewrite take_pos, map_map. f_equal. f_equal. f_equal.
    transitivity (map (fun i : idx => i) C); [|apply map_id]. apply map_ext_in. intros i Hi. now apply pos_spec, HC.
Qed.

Lemma more_rows_inter N (acc : list idx * list X) (src l2 : list idx) (fill : X) :
  (0 < N)%nat -> NoDup src -> NoDup l2 -> width N src -> width N l2 ->
  bind (tt_intersect_rows (zrows src) (zrows l2)) (fun moresubs => more_rows acc src moresubs fill) =
  Ok (fst acc ++ rows_inter l2 src, snd acc ++ map (fun _ => fill) (rows_inter l2 src)).
Proof.
  intros HN Hs H2 Ws W2. rewrite (intersect_rows_idx _ HN src l2) by auto. cbn [bind].
  fold (rows_inter l2 src). apply more_rows_pos.
Qed.

Lemma more_rows_inter_if N (acc : list idx * list X) (src l2 : list idx) (fill : X) :
  (0 < N)%nat -> NoDup src -> NoDup l2 -> width N src -> width N l2 ->
  (if nonempty src then bind (tt_intersect_rows (zrows src) (zrows l2)) (fun moresubs => more_rows acc src moresubs fill)
   else Ok acc) =
  Ok (fst acc ++ rows_inter l2 src, snd acc ++ map (fun _ => fill) (rows_inter l2 src)).
Proof.
  intros HN Hs H2 Ws W2. destruct (nonempty_cases src) as [E|E].
  - subst src. cbn [nonempty]. rewrite rows_inter_nil_r. destruct acc; cbn [fst snd map]. now rewrite !app_nil_r.
  - rewrite E. now apply (more_rows_inter N).
Qed.

(* closed form: every position of the shape is stored, in four groups *)
Theorem impl_div_sparse_gen_eq (alls : list idx) (A B : sparse V) :
  wf_struct A -> wf_struct B -> sshape B = sshape A -> sshape A <> [] ->
  NoDup alls -> (forall i, In i alls <-> inb (sshape A) i = true) ->
  let ZA := rows_diff alls (ssubs A) in let ZB := rows_diff alls (ssubs B) in
  let subs := ((rows_inter (ssubs B) (ssubs A) ++ rows_inter ZB (ssubs A)) ++ rows_inter ZA (ssubs B)) ++ rows_inter ZB ZA in
  impl_div_sparse_gen v0 dv xnan xzero alls A B = Ok (mkSp (sshape A) subs (map (div_fill v0 dv xnan xzero A B) subs)).
Proof.
  intros WsA WsB Hs Hne Hnd Hall ZA ZB subs.
  assert (HN : (0 < length (sshape A))%nat) by (destruct (sshape A); [contradiction|cbn; lia]).
  pose proof (width_subs A WsA) as WdA. pose proof (width_subs B WsB) as WdB. rewrite Hs in WdB.
  pose proof WsA as (HLA & HnA & HbA). pose proof WsB as (HLB & HnB & HbB).
  assert (Wall : width (length (sshape A)) alls) by (intros i Hi; apply Hall in Hi; now apply inb_length).
  assert (WZA : width (length (sshape A)) ZA) by (now apply width_filter).
  assert (WZB : width (length (sshape A)) ZB) by (now apply width_filter).
  assert (NZA : NoDup ZA) by (now apply NoDup_filter). assert (NZB : NoDup ZB) by (now apply NoDup_filter).
  set (f := fun i => dv (den A i) (den B i)).
  unfold impl_div_sparse_gen. cbv zeta.
  assert (E0 : forall S : sparse V, NoDup (ssubs S) -> width (length (sshape A)) (ssubs S) ->
               (if nonempty (ssubs S) then gen_diff alls (ssubs S) else Ok alls) = Ok (rows_diff alls (ssubs S))).
  { intros S HnS WS. destruct (nonempty_cases (ssubs S)) as [El|El]; rewrite El; [now rewrite rows_diff_nil|].
    now apply (gen_diff_spec _ HN). }
  rewrite (E0 A HnA WdA). cbn [bind]. rewrite (E0 B HnB WdB). cbn [bind]. fold ZA ZB.
  set (C := rows_inter (ssubs B) (ssubs A)).
  assert (E1 : (if nonempty (ssubs A) && nonempty (ssubs B) then
                  bind (tt_intersect_rows (zrows (ssubs A)) (zrows (ssubs B))) (fun idxSelf =>
                  bind (tt_ismember_rows (zrows (np_take [] (ssubs A) idxSelf)) (zrows (ssubs B))) (fun mr =>
                  Ok (np_take [] (ssubs A) idxSelf, zipw dv (np_take v0 (svals A) idxSelf) (np_take v0 (svals B) (snd mr)))))
                else Ok ([], [])) = Ok (C, map f C)).
  { destruct (nonempty_cases (ssubs A)) as [El|El].
    { rewrite El. unfold C. rewrite El, rows_inter_nil_r. reflexivity. }
    destruct (nonempty_cases (ssubs B)) as [Fl|Fl].
    { rewrite Fl, andb_false_r. unfold C. rewrite Fl. reflexivity. }
    rewrite El, Fl. cbn [andb].
    rewrite (intersect_rows_idx _ HN (ssubs A) (ssubs B)) by auto. cbn [bind].
    fold (rows_inter (ssubs B) (ssubs A)). fold C.
    assert (HCA : forall i, In i C -> In i (ssubs A)) by (intros i Hi; now apply in_rows_inter in Hi).
    assert (HCB : forall i, In i C -> In i (ssubs B)) by (intros i Hi; now apply in_rows_inter in Hi).
    assert (ET : np_take [] (ssubs A) (map (fun i => Z.of_nat (pos i (ssubs A))) C) = C).
    { rewrite take_pos. rewrite <- (map_id C) at 2. apply map_ext_in. intros i Hi. now apply pos_spec, HCA. }
    rewrite ET.
    destruct (ismember_rows_idx _ HN C (ssubs B)) as (m & E); auto; [unfold C; now apply width_filter|].
    rewrite E. cbn [bind snd]. f_equal. f_equal. rewrite !take_pos.
    rewrite (map_ext_in _ (fun i => den A i)) by (intros i Hi; apply (nth_pos_vals v0); auto).
    rewrite (map_ext_in (fun i => nth (pos i (ssubs B)) (svals B) v0) (fun i => den B i))
      by (intros i Hi; apply (nth_pos_vals v0); auto).
    apply zipw_map. }
  rewrite E1. cbn [bind].
  rewrite (more_rows_inter_if _ _ (ssubs A) ZB xnan HN) by auto. cbn [bind fst snd].
  rewrite (more_rows_inter_if _ _ (ssubs B) ZA xzero HN) by auto. cbn [bind fst snd].
  rewrite (intersect_rows_idx _ HN ZA ZB) by auto. cbn [bind]. fold (rows_inter ZB ZA).
  rewrite more_rows_pos. cbn [bind fst snd].
  f_equal. fold subs. f_equal. unfold subs. rewrite !map_app. unfold div_fill.
  f_equal; [f_equal; [f_equal|]|]; apply map_ext_in; intros i Hi.
  - apply in_rows_inter in Hi as [HiB HiA]. now rewrite (proj2 (mem_spec i (ssubs A)) HiA), (proj2 (mem_spec i (ssubs B)) HiB).
  - apply in_rows_inter in Hi as [HiZ HiA]. apply in_rows_diff in HiZ as [_ HiB].
    now rewrite (proj2 (mem_spec i (ssubs A)) HiA), (proj2 (mem_false i (ssubs B)) HiB).
  - apply in_rows_inter in Hi as [HiZ HiB]. apply in_rows_diff in HiZ as [_ HiA].
    now rewrite (proj2 (mem_false i (ssubs A)) HiA), (proj2 (mem_spec i (ssubs B)) HiB).
  - apply in_rows_inter in Hi as [HiZB HiZA]. apply in_rows_diff in HiZB as [_ HiB]. apply in_rows_diff in HiZA as [_ HiA].
    now rewrite (proj2 (mem_false i (ssubs A)) HiA), (proj2 (mem_false i (ssubs B)) HiB).
Qed.

(* the repaired code, position by position: structurally well-formed, stores EVERY position of the shape (so 0/x is an
   explicit zero), the quotient of the two stored values where both operands store the subscript (ANY relative stored
   orders: finding A-07 is gone), xnan where only self stores it, xzero where only other stores it, xnan elsewhere *)
Theorem impl_div_sparse_gen_char (alls : list idx) (A B : sparse V) :
  wf_struct A -> wf_struct B -> sshape B = sshape A -> sshape A <> [] ->
  NoDup alls -> (forall i, In i alls <-> inb (sshape A) i = true) ->
  exists R, impl_div_sparse_gen v0 dv xnan xzero alls A B = Ok R /\ @wf_struct X R /\ sshape R = sshape A /\
            (forall i, In i (ssubs R) <-> inb (sshape A) i = true) /\
            forall i, inb (sshape A) i = true -> den_sp x0 R i = div_fill v0 dv xnan xzero A B i.
Proof.
  intros WsA WsB Hs Hne Hnd Hall. eexists. split; [now apply impl_div_sparse_gen_eq|]. cbv zeta.
  set (ZA := rows_diff alls (ssubs A)). set (ZB := rows_diff alls (ssubs B)).
  set (subs := ((rows_inter (ssubs B) (ssubs A) ++ rows_inter ZB (ssubs A)) ++ rows_inter ZA (ssubs B)) ++ rows_inter ZB ZA).
  pose proof WsA as (HLA & HnA & HbA). pose proof WsB as (HLB & HnB & HbB).
  assert (HinA : forall i, In i (ssubs A) -> In i alls) by (intros i Hi; apply Hall; now apply wf_inb).
  assert (HinB : forall i, In i (ssubs B) -> In i alls) by (intros i Hi; apply Hall; rewrite <- Hs; now apply wf_inb).
  assert (Hmem : forall i, In i subs <-> In i alls).
  { intros i. unfold subs, ZA, ZB. rewrite !in_app_iff, !in_rows_inter, !in_rows_diff.
    destruct (in_dec idx_dec i (ssubs A)) as [HA|HA], (in_dec idx_dec i (ssubs B)) as [HB|HB]; split; intros H;
      try (specialize (HinA i)); try (specialize (HinB i)); tauto. }
  assert (Hnds : NoDup subs).
  { unfold subs, ZA, ZB. repeat apply NoDup_app_intro; try (apply NoDup_filter; auto; now apply NoDup_filter).
    - intros i H1 H2. apply in_rows_inter in H1, H2. rewrite in_rows_diff in H2. tauto.
    - intros i H1 H2. rewrite in_app_iff, !in_rows_inter, !in_rows_diff in *. tauto.
    - intros i H1 H2. rewrite !in_app_iff, !in_rows_inter, !in_rows_diff in *. tauto. }
  split; [|split; [reflexivity|split]].
  - unfold wf_struct. cbn [ssubs svals sshape]. rewrite map_length. split; [reflexivity|]. split; [exact Hnds|].
    rewrite Forall_forall. intros i Hi. apply Hall. now apply Hmem.
  - intros i. cbn [ssubs]. rewrite Hmem. apply Hall.
  - intros i Hi. rewrite (den_mk_map x0) by exact Hnds. rewrite (proj2 (mem_spec i subs)); [reflexivity|]. apply Hmem. now apply Hall.
Qed.

(* in terms of the operands' VALUES (well-formed operands: stored <-> nonzero): the element-wise quotient at every position
   where the dividend is zero or the divisor is nonzero; xnan where a nonzero is divided by zero (finding C03-N7) *)
Theorem impl_div_sparse_gen_partial (alls : list idx) (A B : sparse V) :
  wf_sp isz A -> wf_sp isz B -> sshape B = sshape A -> sshape A <> [] ->
  NoDup alls -> (forall i, In i alls <-> inb (sshape A) i = true) ->
  xnan = dv v0 v0 -> (forall y, y <> v0 -> dv v0 y = xzero) ->
  exists R, impl_div_sparse_gen v0 dv xnan xzero alls A B = Ok R /\ @wf_struct X R /\ sshape R = sshape A /\
            length (ssubs R) = length alls /\
            (forall i, inb (sshape A) i = true -> den A i = v0 \/ den B i <> v0 -> den_sp x0 R i = dv (den A i) (den B i)) /\
            (forall i, inb (sshape A) i = true -> den A i <> v0 -> den B i = v0 -> den_sp x0 R i = xnan).
Proof.
  intros WA WB Hs Hne Hnd Hall Hnan Hz.
  pose proof (wf_sp_struct isz A WA) as WsA. pose proof (wf_sp_struct isz B WB) as WsB.
  destruct (impl_div_sparse_gen_char alls A B WsA WsB Hs Hne Hnd Hall) as (R & E & W & S & M & D).
  exists R. split; [exact E|split; [exact W|split; [exact S|split; [|split]]]].
  - destruct W as (_ & HnR & _). apply Nat.le_antisymm; apply NoDup_incl_length; auto; intros i Hi.
    + apply Hall. now apply M.
    + apply M. now apply Hall.
  - intros i Hi Hv. rewrite (D i Hi). unfold div_fill.
    destruct (mem i (ssubs A)) eqn:HA, (mem i (ssubs B)) eqn:HB; try reflexivity.
    + apply mem_spec in HA. apply mem_false in HB. apply (in_subs_iff v0 isz isz_spec A i WA) in HA.
      rewrite (den_sp_notin v0 B i HB) in Hv. tauto.
    + apply mem_false in HA. apply mem_spec in HB. apply (in_subs_iff v0 isz isz_spec B i WB) in HB.
      rewrite (den_sp_notin v0 A i HA). symmetry. now apply Hz.
    + apply mem_false in HA. apply mem_false in HB. now rewrite (den_sp_notin v0 A i HA), (den_sp_notin v0 B i HB).
  - intros i Hi HvA HvB. rewrite (D i Hi). unfold div_fill.
    apply (in_subs_iff v0 isz isz_spec A i WA) in HvA. rewrite (proj2 (mem_spec _ _) HvA).
    destruct (mem i (ssubs B)) eqn:HB; [|reflexivity].
    apply mem_spec in HB. apply (in_subs_iff v0 isz isz_spec B i WB) in HB. contradiction.
Qed.

(* operands with the same stored support (in ANY two stored orders): the element-wise quotient everywhere *)
Corollary impl_div_sparse_gen_same_support (alls : list idx) (A B : sparse V) :
  wf_sp isz A -> wf_sp isz B -> sshape B = sshape A -> sshape A <> [] ->
  (forall i, In i (ssubs A) <-> In i (ssubs B)) ->
  NoDup alls -> (forall i, In i alls <-> inb (sshape A) i = true) ->
  xnan = dv v0 v0 -> (forall y, y <> v0 -> dv v0 y = xzero) ->
  exists R, impl_div_sparse_gen v0 dv xnan xzero alls A B = Ok R /\ @wf_struct X R /\ sshape R = sshape A /\
            forall i, inb (sshape A) i = true -> den_sp x0 R i = dv (den A i) (den B i).
Proof.
  intros WA WB Hs Hne Hsup Hnd Hall Hnan Hz.
  destruct (impl_div_sparse_gen_partial alls A B WA WB Hs Hne Hnd Hall Hnan Hz) as (R & E & W & S & _ & D & _).
  exists R. split; [exact E|split; [exact W|split; [exact S|]]]. intros i Hi. apply D; auto.
  destruct (in_dec idx_dec i (ssubs A)) as [HA|HA].
  - right. apply (in_subs_iff v0 isz isz_spec B i WB). now apply Hsup.
  - left. now apply den_sp_notin.
Qed.
End DivSparse.

(* the IEEE instance over pyttb's own enumeration of the shape *)
Lemma allsubsC_NoDup s : NoDup (allsubsC s).
Proof.
  unfold allsubsC. apply FinFun.Injective_map_NoDup; [|apply allsubs_NoDup].
  intros a b H. rewrite <- (rev_involutive a), <- (rev_involutive b). now f_equal.
Qed.

Lemma inb_rev : forall s i, inb (rev s) (rev i) = inb s i.
Proof.
  assert (G : forall s i, inb s i = true -> inb (rev s) (rev i) = true).
  { induction s as [|d s IH]; intros [|x i] H; cbn in *; try discriminate; auto.
    apply andb_true_iff in H as [H1 H2]. specialize (IH i H2).
    assert (K : forall s1 i1, inb s1 i1 = true -> inb (s1 ++ [d]) (i1 ++ [x]) = true).
    { induction s1 as [|e s1 IH1]; intros [|y i1] Hk; cbn in *; try discriminate.
      - now rewrite H1.
      - apply andb_true_iff in Hk as [K1 K2]. rewrite K1. cbn. now apply IH1. }
    now apply K. }
  intros s i. destruct (inb s i) eqn:E; [now apply G|].
  destruct (inb (rev s) (rev i)) eqn:E'; [|reflexivity]. apply G in E'. rewrite !rev_involutive in E'. congruence.
Qed.

Lemma in_allsubsC s i : In i (allsubsC s) <-> inb s i = true.
Proof.
  unfold allsubsC. rewrite in_map_iff. split.
  - intros (j & <- & Hj). apply in_allsubs in Hj. rewrite <- inb_rev, rev_involutive. exact Hj.
  - intros H. exists (rev i). split; [apply rev_involutive|]. apply in_allsubs. now rewrite inb_rev.
Qed.

Theorem div_sparse_ieee_partial (A B : sparse Z) : wf_sp zisz A -> wf_sp zisz B -> sshape B = sshape A -> sshape A <> [] ->
  exists R, impl_div_sparse_gen 0 xdivz XNaN x0 (allsubsC (sshape A)) A B = Ok R /\ wf_struct R /\ sshape R = sshape A /\
            length (ssubs R) = size (sshape A) /\
            (forall i, inb (sshape A) i = true -> zden_sp A i = 0 \/ zden_sp B i <> 0 ->
                       den_sp x0 R i = xdivz (zden_sp A i) (zden_sp B i)) /\
            (forall i, inb (sshape A) i = true -> zden_sp A i <> 0 -> zden_sp B i = 0 -> den_sp x0 R i = XNaN).
Proof.
  intros WA WB Hs Hne.
  destruct (impl_div_sparse_gen_partial 0 zisz x0 zisz_spec xdivz XNaN x0 (allsubsC (sshape A)) A B WA WB Hs Hne
              (allsubsC_NoDup _) (in_allsubsC _) eq_refl xdivz_0_l) as (R & E & W & S & L & D1 & D2).
  exists R. split; [exact E|split; [exact W|split; [exact S|split; [|split; [exact D1|exact D2]]]]].
  rewrite L. unfold allsubsC, allsubs. rewrite !map_length, seq_length.
  clear. induction (sshape A) as [|d s IH]; [reflexivity|].
  cbn [rev]. rewrite size_app, IH, !size_cons. change (size []) with 1%nat. lia.
Qed.
