(* Model/C15KSym.v — wave 4: transliteration of ktensor.issymmetric (pyttb/ktensor.py):
     diffs = zeros((N, N))
     for i in range(N): for j in range(i+1, N):
        shapes differ -> diffs[i,j] = inf;  np.array_equal(F_i, F_j) -> 0;  else norm(F_i - F_j)
     issym = (diffs == 0).all()
   The answer only depends on which pairs are equal (a norm of a non-zero difference is not 0): the model records, for every
   pair i < j, whether the two factor matrices (row lists) have the same shape and the same entries.
   Definitions only; proofs in Proofs/C15KSym.v. *)
From Coq Require Import List Arith Lia Bool.
From PV Require Import Base.Index Base.Sum Np.Array Model.Repr Model.Harness.
Import ListNotations.

Section KS15.
Context {V : Type} (veqb : V -> V -> bool).
(* same shape and np.array_equal *)
Definition kmat_eqb (A B : list (list V)) : bool := list_eqb (list_eqb veqb) A B.
(* the strict upper triangle of diffs, row by row: true where diffs[i,j] == 0 *)
Definition k_diffs_zero (K : ktensor V) : list (list bool) :=
  let fs := kfactors K in let N := length fs in
  map (fun i => map (fun j => kmat_eqb (nth i fs []) (nth j fs [])) (seq (S i) (N - S i))) (seq 0 N).
Definition k_issym (K : ktensor V) : bool := forallb (forallb (fun b => b)) (k_diffs_zero K).
End KS15.
