(* Model/C02HarnessW4.v — executable glue for the wave-4 correspondence cases of property C02: the translator-GENERATED
   get_mttkrp_factors (Gen/GenUtils3.v) evaluated on the operand literal of every mttkrp case; its answer is the factor list the
   kernel models receive and is compared with the hand model of Model/C02Absorb.v (Kruskal operand) / the list itself (factor list). *)
From Coq Require Import List ZArith Bool.
From PV Require Import Np.NpZ Np.NpZ3 Gen.GenUtils3.
Import ListNotations.

Definition zgen_mttkrp_factors (lam : option (list Z)) (Us : list (list (list Z))) (n : nat) : list (list (list Z)) :=
  match get_mttkrp_factors (match lam with Some w => UKt (mkkt w Us) | None => USeq Us end) (Z.of_nat n) (zlen Us) with
  | Ok fs => fs
  | Err => []
  end.
Definition zgen_mttkrp_accepts (lam : option (list Z)) (Us : list (list (list Z))) (n : nat) : bool :=
  match get_mttkrp_factors (match lam with Some w => UKt (mkkt w Us) | None => USeq Us end) (Z.of_nat n) (zlen Us) with
  | Ok _ => true
  | Err => false
  end.

Fixpoint leqb {A} (eqb : A -> A -> bool) (a b : list A) : bool :=
  match a, b with
  | [], [] => true
  | x :: a', y :: b' => eqb x y && leqb eqb a' b'
  | _, _ => false
  end.
Definition zfactors_eqb : list (list (list Z)) -> list (list (list Z)) -> bool := leqb (leqb (leqb Z.eqb)).

(* wave-4 kernel models at Z *)
From PV Require Import Np.Array Model.Sparse Model.Repr Model.C02Ttsv Proofs.C02TuckerSpProofs.
Definition zimpl_ttsv := @impl_ttsv Z 0%Z Z.add Z.mul.
Definition zimpl_innerprod_t_sp := impl_innerprod_t_sp Z 0%Z Z.add Z.mul.

(* sptensor.ttv / ktensor.ttv / ttensor.ttv AS CALLED: the raw request resolved by the GENERATED tt_dimscheck (Proofs/C02ReqGen.v) *)
From PV Require Import Model.C02Modes Model.C02SpMore Model.C02KruskalMore Model.C02Tucker Proofs.C02ReqGen.
Definition zttv_req_sp (S : sparse Z) := ttv_req Z (length (sshape S)) (@impl_ttv_sp Z 0%Z 1%Z Z.add Z.mul S).
Definition zttv_req_k (K : ktensor Z) := ttv_req Z (length (kfactors K)) (@impl_ttv_k Z 0%Z 1%Z Z.add Z.mul K).
Definition zttv_req_t (T : ttensor Z) := ttv_req Z (length (tfactors T)) (@impl_ttv_t Z 0%Z Z.add Z.mul T).
Definition zres_ok {A} (r : res A) : bool := match r with Ok _ => true | Err => false end.
Definition zres_get {A} (d : A) (r : res A) : A := match r with Ok y => y | Err => d end.

(* tensor.mttkrps: C12's byte-level algorithm (Proofs/C12Reshape.v) at Z, at the split index the code computes; column r of every
   result scaled by lam[r] (a Kruskal operand's weights; ones for a factor list); compared per mode with pyttb's raw matrices *)
From PV Require Import Model.Harness Proofs.C12Mttkrps Proofs.C12Reshape.
Definition zmttkrps_ok (X : dense Z) (As : list (list (list Z))) (lam : list Z) (R : nat) (obs : list (dense Z)) : bool :=
  let Ys := mttkrps_b Z 0%Z Z.add Z.mul (ddata X) As (min_split (dshape X)) in
  Nat.eqb (length Ys) (length obs) &&
  forallb (fun n =>
    dense_eqb (tabulate [nth n (dshape X) 0%nat; R]
                 (fun i => (mget 0%Z (nth n Ys []) (nth 0 i 0%nat) (nth 1 i 0%nat) * nth (nth 1 i 0%nat) lam 1)%Z))
              (nth n obs (mkDense [] []))) (seq 0 (length (dshape X))).

(* sptensor.ttm / ttensor.ttm (list form) AS CALLED over the GENERATED tt_dimscheck (Proofs/C02ReqGenTtm.v) *)
From PV Require Import Proofs.C02SpTtmListProofs Proofs.C02ReqGenTtm.
Definition zttm_req_sp (S : sparse Z) := ttm_req Z (length (sshape S)) (impl_ttm_sp_list Z 0%Z Z.add Z.mul S).
Definition zttm_req_t (T : ttensor Z) := ttm_req Z (length (tfactors T)) (@impl_ttm_t Z 0%Z Z.add Z.mul T).
