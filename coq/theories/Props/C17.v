(* Props/C17.v — Index arithmetic, mode-selection preprocessing (theorems about the code as
   regenerated from /repo/pyttb/pyttb_utils.py at run time).  Only statements, `exact`, Print Assumptions. *)
From Coq Require Import List ZArith Arith Bool Permutation Sorted.
From PV Require Import Base.Index Np.NpZ Np.NpZ2 Proofs.NpZProofs Gen.GenUtils Gen.GenKernels Proofs.UtilsProofs Proofs.RowsProofs Gen.GenUtils2 Proofs.KhatriRao Proofs.GenKernelsProofs Proofs.GenKhatriRao Proofs.GenWrapDims Proofs.C03Rows Proofs.GenRows Proofs.C17Dup Proofs.C17Index Model.Repr.
Import ListNotations.

(* mutually inverse bijections between subscripts of a shape and 0..size-1 *)
Theorem C17_bijection : forall s : shape,
  (forall i, inb s i = true -> sub2ind s i < size s /\ ind2sub s (sub2ind s i) = i) /\
  (forall k, k < size s -> inb s (ind2sub s k) = true /\ sub2ind s (ind2sub s k) = k).
Proof. exact sub2ind_bijection. Qed.
Print Assumptions C17_bijection.

Theorem C17_first_fastest : forall d s x i,
  sub2ind (d :: s) (S x :: i) = S (sub2ind (d :: s) (x :: i)).
Proof. exact sub2ind_first_fastest. Qed.
Print Assumptions C17_first_fastest.

Theorem C17_enumeration : forall s, NoDup (allsubs s) /\ length (allsubs s) = size s /\
  (forall i, In i (allsubs s) <-> inb s i = true).
Proof. intros s. exact (conj (allsubs_NoDup s) (conj (allsubs_length s) (in_allsubs s))). Qed.
Print Assumptions C17_enumeration.

(* the generated tt_sub2ind / tt_ind2sub compute exactly these maps, and reject out-of-range subscripts *)
Theorem C17_tt_sub2ind : forall (s : shape) (subs : list idx),
  s <> [] -> (forall i, In i subs -> inb s i = true) ->
  tt_sub2ind (zs s) (zm subs) OrdF = Ok (map (fun i => Z.of_nat (sub2ind s i)) subs).
Proof. exact tt_sub2ind_spec. Qed.
Print Assumptions C17_tt_sub2ind.

Theorem C17_tt_sub2ind_rejects : forall (s : shape) (subs : list idx),
  (exists i, In i subs /\ i <> [] /\ inb s i = false) -> tt_sub2ind (zs s) (zm subs) OrdF = Err.
Proof. exact tt_sub2ind_rejects. Qed.
Print Assumptions C17_tt_sub2ind_rejects.

Theorem C17_tt_ind2sub : forall (s : shape) (ks : list nat),
  (forall k, In k ks -> k < size s) ->
  tt_ind2sub (zs s) (zs ks) OrdF = Ok (map (fun k => zs (ind2sub s k)) ks).
Proof. exact tt_ind2sub_spec. Qed.
Print Assumptions C17_tt_ind2sub.

(* every linear index in [-size, size) is answered — negative ones count from the end (numpy convention) — ... *)
Theorem C17_tt_ind2sub_all : forall (s : shape) (ks : list Z),
  (forall k, In k ks -> (- Z.of_nat (size s) <= k < Z.of_nat (size s))%Z) ->
  tt_ind2sub (zs s) ks OrdF = Ok (map (fun k => zs (ind2sub s (wrap_index (size s) k))) ks).
Proof. exact tt_ind2sub_all. Qed.
Print Assumptions C17_tt_ind2sub_all.

(* ... and every other index is rejected *)
Theorem C17_tt_ind2sub_rejects : forall (s : shape) (ks : list Z),
  (exists k, In k ks /\ (Z.of_nat (size s) <= k \/ k < - Z.of_nat (size s))%Z) -> tt_ind2sub (zs s) ks OrdF = Err.
Proof. exact tt_ind2sub_rejects. Qed.
Print Assumptions C17_tt_ind2sub_rejects.

Example C17_tt_ind2sub_example :
  tt_ind2sub [2; 3; 4]%Z [-1; 5; -24; 0; 23]%Z OrdF = Ok [[1; 2; 3]; [1; 2; 0]; [0; 0; 0]; [0; 0; 0]; [1; 2; 3]]%Z /\
  tt_ind2sub [2; 3; 4]%Z [3; 24]%Z OrdF = Err /\ tt_ind2sub [2; 3; 4]%Z [-25]%Z OrdF = Err.
Proof. repeat split; reflexivity. Qed.

Theorem C17_tt_roundtrip_sub : forall (s : shape) (subs : list idx),
  s <> [] -> (forall i, In i subs -> inb s i = true) ->
  bind (tt_sub2ind (zs s) (zm subs) OrdF) (fun ks => tt_ind2sub (zs s) ks OrdF) = Ok (zm subs).
Proof. exact tt_roundtrip_sub. Qed.
Print Assumptions C17_tt_roundtrip_sub.

Theorem C17_tt_roundtrip_ind : forall (s : shape) (ks : list nat),
  s <> [] -> (forall k, In k ks -> k < size s) ->
  bind (tt_ind2sub (zs s) (zs ks) OrdF) (fun subs => tt_sub2ind (zs s) subs OrdF) = Ok (zs ks).
Proof. exact tt_roundtrip_ind. Qed.
Print Assumptions C17_tt_roundtrip_ind.

Local Open Scope Z_scope.

(* mode-selection preprocessing: sorted selected modes + position of each one's multiplicand *)
Theorem C17_dimscheck_dims : forall N M d, dims_ok N M d ->
  tt_dimscheck N M (Some d) None = Ok (np_sort d, vidx_of N M d).
Proof. exact dimscheck_dims. Qed.
Print Assumptions C17_dimscheck_dims.

Theorem C17_sorted_modes : forall d, Sorted Z.le (np_sort d) /\ Permutation (np_sort d) d.
Proof. intros d. exact (conj (np_sort_sorted d) (np_sort_perm d)). Qed.
Print Assumptions C17_sorted_modes.

(* one multiplicand per selected mode: multiplicand vidx[k] is the one the caller listed for mode sdims[k] *)
Theorem C17_alignment : forall d, np_take 0 d (np_argsort d) = np_sort d.
Proof. exact dimscheck_alignment_P. Qed.
Print Assumptions C17_alignment.

Theorem C17_dimscheck_exclude : forall N M e,
  (forall x, In x e -> 0 <= x < N) ->
  match M with None => True | Some m => m <= N /\ (m = N \/ m = zlen (complement N e)) end ->
  tt_dimscheck N M None (Some e) = Ok (complement N e, vidx_of N M (complement N e)).
Proof. exact dimscheck_exclude. Qed.
Print Assumptions C17_dimscheck_exclude.

Theorem C17_dimscheck_default : forall N M, 0 <= N ->
  match M with None => True | Some m => m = N end ->
  tt_dimscheck N M None None = Ok (np_arange 0 N, option_map (fun _ => np_arange 0 N) M).
Proof. exact dimscheck_default. Qed.
Print Assumptions C17_dimscheck_default.

Theorem C17_dimscheck_rejects_both : forall N M d e, tt_dimscheck N M (Some d) (Some e) = Err.
Proof. exact dimscheck_rejects_both. Qed.
Print Assumptions C17_dimscheck_rejects_both.

Theorem C17_dimscheck_rejects_negative : forall N M d x, In x d -> x < 0 -> tt_dimscheck N M (Some d) None = Err.
Proof. exact dimscheck_rejects_negative. Qed.
Print Assumptions C17_dimscheck_rejects_negative.

Theorem C17_dimscheck_rejects_exclude_range : forall N M e x,
  In x e -> ~ (0 <= x < N) -> tt_dimscheck N M None (Some e) = Err.
Proof. exact dimscheck_rejects_exclude_range. Qed.
Print Assumptions C17_dimscheck_rejects_exclude_range.

Theorem C17_dimscheck_rejects_count : forall N m d, (forall x, In x d -> 0 <= x < N) -> NoDup d ->
  (m > N \/ (m <> N /\ m <> zlen d)) -> tt_dimscheck N (Some m) (Some d) None = Err.
Proof. exact dimscheck_rejects_count. Qed.
Print Assumptions C17_dimscheck_rejects_count.

Theorem C17_dimscheck_rejects_out_of_range : forall N M d x, In x d -> N <= x -> tt_dimscheck N M (Some d) None = Err.
Proof. exact dimscheck_rejects_out_of_range. Qed.
Print Assumptions C17_dimscheck_rejects_out_of_range.

Theorem C17_dimscheck_rejects_repeated : forall N M d, ~ NoDup d -> tt_dimscheck N M (Some d) None = Err.
Proof. exact dimscheck_rejects_repeated. Qed.
Print Assumptions C17_dimscheck_rejects_repeated.

(* row membership: location of every search row in the source (last occurrence when repeated), -1 if absent *)
Theorem C17_ismember : forall search source : mat,
  np_size2 search <> 0 -> np_size2 source <> 0 ->
  exists matched results, tt_ismember_rows search source = Ok (matched, results) /\
    length matched = length search /\ length results = length search /\
    forall i, (i < length search)%nat ->
      let r := nth i search [] in
      ((exists j, (j < length source)%nat /\ nth j source [] = r) ->
         nth i matched false = true /\
         exists j, nth i results 0 = Z.of_nat j /\ (j < length source)%nat /\ nth j source [] = r /\
                   forall j', (j < j' < length source)%nat -> nth j' source [] <> r) /\
      ((forall j, (j < length source)%nat -> nth j source [] <> r) ->
         nth i matched false = false /\ nth i results 0 = -1).
Proof. exact tt_ismember_rows_spec. Qed.
Print Assumptions C17_ismember.

Example C17_ismember_example :
  tt_ismember_rows [[4; 6]; [1; 9]; [2; 6]] [[2; 6]; [2; 1]; [4; 6]; [2; 6]] = Ok ([true; false; true], [2; -1; 3]).
Proof. reflexivity. Qed.

(* the same for ALL arguments, operands without rows included: flags = membership, locations = last occurrence or -1
   (loc T r = position of the last occurrence of r in T, -1 if absent: C17_dedup_reading below, RowsProofs.find_last_spec) *)
Theorem C17_ismember_all : forall S T : mat, okw S -> okw T ->
  tt_ismember_rows S T = Ok (map (inrows T) S, map (loc T) S).
Proof. exact tt_ismember_rows_okw. Qed.
Print Assumptions C17_ismember_all.

(* Khatri-Rao product = column-wise Kronecker product, first argument slowest (any commutative ring) *)
Theorem C17_khatrirao : forall (V : Type) (v0 v1 : V) (vadd vmul vsub : V -> V -> V) (vopp : V -> V),
  ring_theory v0 v1 vadd vmul vsub vopp (@eq V) ->
  forall (A : list (list V)) rest p R ns is b r,
  wfm V A p R -> length ns = length rest -> length is = length rest ->
  (forall k, (k < length rest)%nat -> wfm V (nth k rest []) (nth k ns 0%nat) R /\ (nth k is 0 < nth k ns 0)%nat) ->
  (b < p)%nat -> (r < R)%nat ->
  exists K, khatrirao V vmul false (A :: rest) = Some K /\
    wfm V K (size (p :: ns)) R /\
    mget v0 K (sub2ind (rev (p :: ns)) (rev (b :: is))) r = vmul (kr_prod V v0 v1 vmul rest is r) (mget v0 A b r).
Proof. exact khatrirao_spec. Qed.
Print Assumptions C17_khatrirao.

Theorem C17_khatrirao_reverse : forall (V : Type) (vmul : V -> V -> V) As,
  khatrirao V vmul true As = khatrirao V vmul false (rev As).
Proof. exact khatrirao_reverse. Qed.
Print Assumptions C17_khatrirao_reverse.

Example C17_khatrirao_example :
  khatrirao Z Z.mul false [[[1; 2]; [3; 4]]; [[5; 6]; [7; 8]; [9; 10]]]
  = Some [[5; 12]; [7; 16]; [9; 20]; [15; 24]; [21; 32]; [27; 40]].
Proof. reflexivity. Qed.

(* ---- kernels regenerated into Gen/GenKernels.v ---- *)

(* tensor.py::min_split (the split index of tensor.mttkrps): for N >= 2 modes of positive sizes the index is in
   [0, N-2], so neither partial Khatri-Rao product is empty (DESIGN §C02: C02_min_split_range) *)
Theorem C17_min_split_range : forall shape : vec,
  (2 <= length shape)%nat -> (forall d, In d shape -> 0 < d) ->
  exists k, min_split shape = Ok (Z.of_nat k) /\ (k + 2 <= length shape)%nat.
Proof. exact C02_min_split_range. Qed.
Print Assumptions C17_min_split_range.

(* the greedy rule it implements: modes 1..k joined the left product because prod shape[0:j] < prod shape[j+1:],
   and mode k+1 did not: prod shape[k+2:] <= prod shape[0:k+1] *)
Theorem C17_min_split_greedy : forall shape : vec,
  (2 <= length shape)%nat -> (forall d, In d shape -> 0 < d) ->
  exists k, min_split shape = Ok (Z.of_nat k) /\
    (forall j, (1 <= j <= k)%nat -> zprod (firstn j shape) < zprod (skipn (S j) shape)) /\
    zprod (skipn (k + 2) shape) <= zprod (firstn (k + 1) shape).
Proof. exact C02_min_split_greedy. Qed.
Print Assumptions C17_min_split_greedy.

Example C17_min_split_example : min_split [2; 3; 4; 5] = Ok 1 /\ min_split [5; 1; 1; 9] = Ok 2 /\ min_split [] = Err.
Proof. repeat split; reflexivity. Qed.

(* khatrirao.py::khatrirao as regenerated into Gen/GenKernels.v: on non-empty matrices it IS the model above
   (a product of matrices with zero columns is rejected: numpy cannot infer the -1 of the reshape) *)
Theorem C17_khatrirao_bridge : forall (Ms : list mat) (reverse : bool), (forall B, In B Ms -> B <> []) ->
  GenKernels.khatrirao Ms reverse =
  match (if reverse then rev Ms else Ms) with
  | [] => Err
  | A :: _ => if np_ncols A =? 0 then Err
              else match KhatriRao.khatrirao Z Z.mul reverse Ms with Some K => Ok K | None => Err end
  end.
Proof. exact khatrirao_bridge. Qed.
Print Assumptions C17_khatrirao_bridge.

(* column-wise Kronecker product, first argument slowest — about the generated function *)
Theorem C17_khatrirao_gen : forall (A : mat) rest p R ns is b r,
  wfm Z A p R -> length ns = length rest -> length is = length rest ->
  (forall k, (k < length rest)%nat -> wfm Z (nth k rest []) (nth k ns 0%nat) R /\ (nth k is 0 < nth k ns 0)%nat) ->
  (b < p)%nat -> (r < R)%nat ->
  exists K, GenKernels.khatrirao (A :: rest) false = Ok K /\
    wfm Z K (size (p :: ns)) R /\
    mget 0 K (sub2ind (rev (p :: ns)) (rev (b :: is))) r = kr_prod Z 0 1 Z.mul rest is r * mget 0 A b r.
Proof. exact khatrirao_gen_spec. Qed.
Print Assumptions C17_khatrirao_gen.

Theorem C17_khatrirao_gen_reverse : forall Ms : list mat, (forall B, In B Ms -> B <> []) ->
  GenKernels.khatrirao Ms true = GenKernels.khatrirao (rev Ms) false.
Proof. exact khatrirao_gen_reverse. Qed.
Print Assumptions C17_khatrirao_gen_reverse.

Theorem C17_khatrirao_gen_rejects : forall (A : mat) rest (B : mat) row,
  (forall M, In M (A :: rest) -> M <> []) -> In B (A :: rest) -> In row B -> zlen row <> np_ncols A ->
  GenKernels.khatrirao (A :: rest) false = Err.
Proof. exact khatrirao_gen_rejects. Qed.
Print Assumptions C17_khatrirao_gen_rejects.

Example C17_khatrirao_gen_example :
  GenKernels.khatrirao [[[1; 2]; [3; 4]]; [[5; 6]; [7; 8]; [9; 10]]] false
  = Ok [[5; 12]; [7; 16]; [9; 20]; [15; 24]; [21; 32]; [27; 40]].
Proof. reflexivity. Qed.

(* three matrices (2 x 2, 3 x 2, 2 x 2): row (i0, i1, i2) of the product sits at i2 + 2 * (i1 + 3 * i0) *)
Example C17_khatrirao_gen_example3 :
  GenKernels.khatrirao [[[1; 2]; [3; 4]]; [[5; 6]; [7; 8]; [9; 10]]; [[1; -1]; [2; 3]]] false
  = Ok [[5; -12]; [10; 36]; [7; -16]; [14; 48]; [9; -20]; [18; 60];
        [15; -24]; [30; 72]; [21; -32]; [42; 96]; [27; -40]; [54; 120]] /\
  GenKernels.khatrirao [[[1; -1]; [2; 3]]; [[5; 6]; [7; 8]; [9; 10]]; [[1; 2]; [3; 4]]] true
  = GenKernels.khatrirao [[[1; 2]; [3; 4]]; [[5; 6]; [7; 8]; [9; 10]]; [[1; -1]; [2; 3]]] false.
Proof. split; reflexivity. Qed.

(* ---- pyttb_utils.py::gather_wrap_dims as regenerated into Gen/GenUtils2.v: every admissible request
   (rows and/or columns given as duplicate-free in-range mode lists; both given = an ordered partition) yields
   (rdims, cdims) whose concatenation is a permutation of 0..ndims-1, in the documented convention ---- *)
Theorem C17_gather_wrap_dims : forall N rd cd cy, request_okZ N rd cd cy ->
  exists r c, gather_wrap_dims N rd cd cy = Ok (r, c) /\ Permutation (r ++ c) (np_arange 0 N) /\
    (forall r0 c0, rd = Some r0 -> cd = Some c0 -> r = r0 /\ c = c0) /\
    (forall c0, rd = None -> cd = Some c0 -> c = c0 /\ r = complement N c0) /\
    (forall r0, rd = Some r0 -> cd = None -> cy = None \/ length r0 <> 1%nat -> r = r0 /\ c = complement N r0) /\
    (forall m, rd = Some [m] -> cd = None -> cy = Some CycT -> c = [m] /\ r = complement N [m]) /\
    (forall m, rd = Some [m] -> cd = None -> cy = Some CycFC -> r = [m] /\ c = np_arange (m + 1) N ++ np_arange 0 m) /\
    (forall m, rd = Some [m] -> cd = None -> cy = Some CycBC ->
       r = [m] /\ c = np_arange_down (m - 1) (-1) ++ np_arange_down (N - 1) m).
Proof. exact gather_wrap_dims_gen. Qed.
Print Assumptions C17_gather_wrap_dims.

Theorem C17_gather_wrap_dims_rejects : forall N cy m,
  gather_wrap_dims N None None cy = Err /\ gather_wrap_dims N (Some [m]) None (Some CycOther) = Err.
Proof. intros N cy m. exact (conj (gwd_none N cy) (gwd_other N m)). Qed.
Print Assumptions C17_gather_wrap_dims_rejects.

Example C17_gather_wrap_dims_example :
  gather_wrap_dims 3 (Some [1]) None (Some CycBC) = Ok ([1], [0; 2]) /\
  gather_wrap_dims 4 (Some [1]) None (Some CycFC) = Ok ([1], [2; 3; 0]) /\
  gather_wrap_dims 4 (Some [2]) None (Some CycT) = Ok ([0; 1; 3], [2]) /\
  gather_wrap_dims 4 None (Some [3; 0]) None = Ok ([1; 2], [3; 0]).
Proof. repeat split; reflexivity. Qed.

(* ---- row-set algebra on duplicate-free row lists (the subscript lists of well-formed sparse tensors), about the
   generated helpers: exact index contracts (whose order, indices into which list) ---- *)

(* tt_intersect_rows A B = positions IN A of the rows of B that occur in A, in the order of B (Proofs/C03Rows.v) *)
Theorem C17_intersect_rows : forall A B : mat, NoDup A -> NoDup B -> okw A -> okw B ->
  tt_intersect_rows A B = Ok (map (loc A) (filter (inrows A) B)).
Proof. exact tt_intersect_rows_nodup. Qed.
Print Assumptions C17_intersect_rows.

(* tt_setdiff_rows A B = ascending positions in A of the rows of A that do not occur in B *)
Theorem C17_setdiff_rows : forall A B : mat, NoDup A -> NoDup B -> okw A -> okw B ->
  tt_setdiff_rows A B =
  Ok (map Z.of_nat (filter (fun k => negb (existsb (row_eqb (nth k A [])) B)) (seq 0 (length A)))).
Proof. exact setdiff_rows_positions. Qed.
Print Assumptions C17_setdiff_rows.

(* tt_union_rows A B (Gen/GenUtils2.v) = rows of B not in A, in B's order, followed by the rows of A — first for B in
   lexicographic row order (what np.where(...).transpose() delivers to the only in-repo caller; proved in wave 2 while
   finding C17-UNION was open); the statements for ALL arguments follow below (C17_union_rows ...) *)
Theorem C17_union_rows_sortedB : forall A B : mat,
  NoDup A -> okw A -> okw B -> Sorted row_lt B ->
  (forall r q, In r A -> In q B -> length r = length q) ->
  tt_union_rows A B = Ok (filter (fun r => negb (inrows A r)) B ++ A).
Proof. exact tt_union_rows_sortedB. Qed.
Print Assumptions C17_union_rows_sortedB.

Theorem C17_union_rows_members : forall A B : mat,
  NoDup A -> okw A -> okw B -> Sorted row_lt B ->
  (forall r q, In r A -> In q B -> length r = length q) ->
  exists U, tt_union_rows A B = Ok U /\ (forall r, In r U <-> In r A \/ In r B) /\ (NoDup B -> NoDup U).
Proof. exact tt_union_rows_members. Qed.
Print Assumptions C17_union_rows_members.

Example C17_union_rows_example :
  tt_union_rows [[1; 2]; [3; 4]] [[0; 0]; [1; 2]; [3; 4]; [5; 5]] = Ok [[0; 0]; [5; 5]; [1; 2]; [3; 4]].
Proof. reflexivity. Qed.

(* ---- row-set algebra for ALL arguments: repeated rows in either argument, any stored order (Proofs/C17Dup.v).
   dedup m = the distinct rows of m in first-occurrence order; firstpos m = the ascending positions of the first
   occurrences; loc A r = position of (the last occurrence of) r in A; inrows A r = membership ---- *)

(* what the specification functions mean *)
Theorem C17_dedup_reading : forall m : mat,
  NoDup (dedup m) /\ (forall r, In r (dedup m) <-> In r m) /\ (NoDup m -> dedup m = m) /\
  np_take [] m (firstpos m) = dedup m /\ StronglySorted Z.lt (firstpos m) /\
  (forall r, inrows m r = true <-> In r m) /\
  (forall r, In r m -> exists j, loc m r = Z.of_nat j /\ (j < length m)%nat /\ nth j m [] = r).
Proof. exact dedup_reading. Qed.
Print Assumptions C17_dedup_reading.

(* union: the distinct rows of B that do not occur in A (order of first occurrence in B), then the distinct rows of A *)
Theorem C17_union_rows : forall A B : mat,
  okw A -> okw B -> (forall r q, In r A -> In q B -> length r = length q) ->
  tt_union_rows A B = Ok (filter (fun r => negb (inrows A r)) (dedup B) ++ dedup A).
Proof. exact tt_union_rows_gen. Qed.
Print Assumptions C17_union_rows.

(* ... which is set union: a row is in the result iff it is in A or in B, and no row occurs twice *)
Theorem C17_union_rows_set : forall A B : mat,
  okw A -> okw B -> (forall r q, In r A -> In q B -> length r = length q) ->
  exists U, tt_union_rows A B = Ok U /\ (forall r, In r U <-> In r A \/ In r B) /\ NoDup U.
Proof. exact tt_union_rows_set. Qed.
Print Assumptions C17_union_rows_set.

(* duplicate-free arguments in ANY stored order (B unsorted: the case of the repaired finding C17-UNION) *)
Theorem C17_union_rows_anyorder : forall A B : mat,
  NoDup A -> NoDup B -> okw A -> okw B -> (forall r q, In r A -> In q B -> length r = length q) ->
  tt_union_rows A B = Ok (filter (fun r => negb (inrows A r)) B ++ A).
Proof. exact tt_union_rows_nodup. Qed.
Print Assumptions C17_union_rows_anyorder.

Example C17_union_rows_unsorted_example :
  tt_union_rows [[1; 2]] [[5; 5]; [0; 0]; [1; 2]] = Ok [[5; 5]; [0; 0]; [1; 2]] /\
  tt_union_rows [[1; 2]; [3; 4]; [1; 2]] [[5; 5]; [0; 0]; [1; 2]; [5; 5]] = Ok [[5; 5]; [0; 0]; [1; 2]; [3; 4]].
Proof. split; reflexivity. Qed.

(* exactly what tt_intersect_rows / tt_setdiff_rows return for arbitrary arguments: positions in dedup A *)
Theorem C17_intersect_rows_general : forall A B : mat, okw A -> okw B ->
  tt_intersect_rows A B = Ok (map (loc (dedup A)) (filter (inrows A) (dedup B))).
Proof. exact tt_intersect_rows_gen. Qed.
Print Assumptions C17_intersect_rows_general.

Theorem C17_setdiff_rows_general : forall A B : mat, okw A -> okw B ->
  tt_setdiff_rows A B =
  Ok (filter (fun x => negb (zmem x (map (loc (dedup A)) (filter (inrows A) (dedup B))))) (firstpos A)).
Proof. exact tt_setdiff_rows_gen. Qed.
Print Assumptions C17_setdiff_rows_general.

(* index contracts with a duplicate-free FIRST argument and an ARBITRARY second one (repeated rows, any order) *)
Theorem C17_intersect_rows_dupB : forall A B : mat, NoDup A -> okw A -> okw B ->
  exists idx, tt_intersect_rows A B = Ok idx /\ idx = map (loc A) (filter (inrows A) (dedup B)) /\
              np_take [] A idx = filter (inrows A) (dedup B) /\ (forall x, In x idx -> 0 <= x < zlen A).
Proof. exact tt_intersect_rows_dupB. Qed.
Print Assumptions C17_intersect_rows_dupB.

Theorem C17_setdiff_rows_dupB : forall A B : mat, NoDup A -> okw A -> okw B ->
  tt_setdiff_rows A B =
  Ok (map Z.of_nat (filter (fun k => negb (existsb (row_eqb (nth k A [])) B)) (seq 0 (length A)))).
Proof. exact tt_setdiff_rows_dupB. Qed.
Print Assumptions C17_setdiff_rows_dupB.

Example C17_rows_dupB_example :
  tt_intersect_rows [[3; 0]; [1; 1]; [0; 2]] [[0; 2]; [7; 7]; [3; 0]; [0; 2]] = Ok [2; 0] /\
  tt_setdiff_rows [[3; 0]; [1; 1]; [0; 2]; [4; 4]] [[0; 2]; [7; 7]; [0; 2]] = Ok [0; 1; 3].
Proof. split; reflexivity. Qed.

(* the full-strength contracts "A[result] = the set-algebra answer" for all arguments
   (C17Dup.intersect_rows_contract_stmt / setdiff_rows_contract_stmt) are REFUTED when the first argument has
   repeated rows (open finding A-41: the numbers returned are positions in dedup A) ... *)
Theorem C17_intersect_rows_dupA_refuted : ~ (forall A B : mat, okw A -> okw B ->
  exists idx, tt_intersect_rows A B = Ok idx /\ np_take [] A idx = filter (inrows A) (dedup B)).
Proof. exact intersect_rows_contract_refuted. Qed.
Print Assumptions C17_intersect_rows_dupA_refuted.

Theorem C17_setdiff_rows_dupA_refuted : ~ (forall A B : mat, okw A -> okw B ->
  exists idx, tt_setdiff_rows A B = Ok idx /\ np_take [] A idx = filter (fun r => negb (inrows B r)) (dedup A)).
Proof. exact setdiff_rows_contract_refuted. Qed.
Print Assumptions C17_setdiff_rows_dupA_refuted.

Example C17_rows_dupA_example :
  tt_intersect_rows [[1]; [1]; [2]] [[2]] = Ok [1] /\ tt_setdiff_rows [[1]; [1]; [2]] [[2]] = Ok [0; 2].
Proof. split; reflexivity. Qed.

(* ... and proved for every duplicate-free first argument *)
Theorem C17_intersect_rows_contract_nodupA : forall A B : mat, NoDup A -> okw A -> okw B ->
  exists idx, tt_intersect_rows A B = Ok idx /\ np_take [] A idx = filter (inrows A) (dedup B).
Proof. exact intersect_rows_contract_nodupA. Qed.
Print Assumptions C17_intersect_rows_contract_nodupA.

Theorem C17_setdiff_rows_contract_nodupA : forall A B : mat, NoDup A -> okw A -> okw B ->
  exists idx, tt_setdiff_rows A B = Ok idx /\ np_take [] A idx = filter (fun r => negb (inrows B r)) (dedup A).
Proof. exact setdiff_rows_contract_nodupA. Qed.
Print Assumptions C17_setdiff_rows_contract_nodupA.

(* non-vacuity: a concrete request meets the hypotheses *)
Example C17_dimscheck_example :
  tt_dimscheck 4 (Some 2) (Some [3; 1]) None = Ok ([1; 3], Some [1; 0]).
Proof. reflexivity. Qed.
