(* Wave 7: hand reference for tenmat.__init__ (pyttb/tenmat.py): argument checks and stored fields, over the
   representation of Np/NpZ7.v (shape + Fortran-order entries).  Proofs/W7Tenmat.v proves Gen.tenmat_init = H_tenmat_init. *)
From Coq Require Import List ZArith Bool.
From PV Require Import Np.NpZ Np.NpZ2 Np.NpZ3 Np.NpZ3b Np.NpZ7 Gen.GenUtils Gen.GenUtils2 Gen.GenUtils3b.
Import ListNotations.
Local Open Scope Z_scope.

Definition H_ovec_empty (o : option vec) : bool := match o with None => true | Some v => zlen v =? 0 end.
Definition H_oshp_cmp_ok (o : option pyshp) : bool := match o with None => true | Some s => shp_eq_unit_ok s end.
Definition H_oshp_empty (o : option pyshp) : bool := match o with None => true | Some s => shp_eq_unit s end.

Definition H_tm_empty : tmz := mk_tmz [] [] [] nd7_empty2.

(* data is None / has no entries: the other three arguments must be empty too *)
Definition H_empty_case (rdims cdims : option vec) (tshape : option pyshp) : res tmz :=
  if H_oshp_cmp_ok tshape then
    if H_ovec_empty rdims && H_ovec_empty cdims && H_oshp_empty tshape then Ok H_tm_empty else Err
  else Err.

(* 1-d data needs a tshape and becomes a row vector; anything but a matrix is rejected *)
Definition H_as_matrix (d : ndz) (tshape : option pyshp) : res ndz :=
  match nd7_shape d with
  | [n] => match tshape with None => Err | Some _ => Ok (mk_ndz [1; n] (nd7_data d)) end
  | [_; _] => Ok d
  | _ => Err
  end.

Definition H_dims_perm (n : Z) (r c : vec) : bool :=
  (zlen (r ++ c) =? n) && vec_eqb (np_arange 0 n) (np_sort (r ++ c)).

Definition H_tenmat_init (data : option ndz) (data_isnum : bool) (rdims cdims : option vec) (tshape : option pyshp) : res tmz :=
  match data with
  | None => H_empty_case rdims cdims tshape
  | Some d =>
    if nd7_size d =? 0 then H_empty_case rdims cdims tshape
    else if negb data_isnum then Err
    else
      bind (H_as_matrix d tshape) (fun m =>
      bind (parse_shape (match tshape with None => shp_of_ints (nd7_shape m) | Some t => t end)) (fun ts =>
      if negb (zprod (nd7_shape m) =? zprod ts) then Err else
      bind (gather_wrap_dims (zlen ts) rdims cdims None) (fun '(r, c) =>
      if negb (np_take_ok ts r && np_take_ok ts c) then Err else
      if negb (zprod (np_take 0 ts r) * zprod (np_take 0 ts c) =? zprod (nd7_shape m)) then Err else
      if H_dims_perm (zlen ts) r c then Ok (mk_tmz ts r c m) else Err)))
  end.
