(* Proofs/C18GenPrintHosvd.v — C18, verbosity clause for hosvd, tied to the GENERATED mode loop (Gen/GenHosvd.v, regenerated from
   /repo/pyttb/hosvd.py `for k in dimorder:` on every run).

   The generated region has no verbosity input at all: the only statement of the loop that looks at it (`if verbosity > 5: print(...)`)
   assigns nothing and is dropped by the skeleton translator; a statement under that `if` that assigned to Y / factor_matrices / ranks
   would make the translation read an undeclared variable (the unit aborts: tie A of every module that lists GenHosvd) or change the
   generated text.  What is PROVED here is the bridge to the hand-written print driver of Proofs/C18Print.v (hv_loop: the same loop
   WITH its verbosity parameter and the printed events): for EVERY verbosity the result component of the hand driver is the generated
   loop's result, when the hand driver's oracles are instantiated with the generated kernels:

       eigs k Y      = the descending spectrum   k_take D (k_argsort_desc D),  (D, V) = k_eigh (k_gram (k_unfold Y k))
       lead k Y r    = k_select_cols V (first r entries of the sorting permutation)
       setf          = list store,   ranks k = ranks0[k],   shrink Y k U = the generated k_shrink on a list whose k-th entry is U

   Side conditions = what hosvd's own argument checks establish before the loop: dimorder has no repeated mode, every mode is a
   valid index of `ranks` and `factor_matrices`; and the reading contract of the sequential shrink
   `Y.ttm(factor_matrices[k].transpose(), k)`: it reads entry k of the list only.
   Consequence (gen_hosvd_verbosity_indep): the generated loop's result is the verbosity-independent component of the print driver, for
   any two verbosities the driver returns exactly that. *)
From Coq Require Import String List Arith Bool ZArith Lia.
From PV Require Import Model.W4SPrelude Gen.GenHosvd Model.C10Tucker Proofs.W4SHosvd Proofs.C18Print.
Import ListNotations.
Local Open Scope nat_scope.

Lemma c18_sk_set_some {A} (l : list A) i v : i < length l -> exists l', sk_set l i v = Some l'.
Proof. intros H. unfold sk_set. apply Nat.ltb_lt in H. rewrite H. eauto. Qed.

Lemma c18_sk_set_length {A} (l l' : list A) i v : sk_set l i v = Some l' -> length l' = length l.
Proof.
  unfold sk_set. destruct (i <? length l) eqn:E; [|discriminate]. apply Nat.ltb_lt in E. intros H.
  assert (H' : l' = firstn i l ++ v :: skipn (S i) l) by congruence. subst l'.
  rewrite app_length, firstn_length. cbn [length]. rewrite skipn_length. lia.
Qed.

Lemma c18_sk_set_same {A} (l l' : list A) i v : sk_set l i v = Some l' -> nth_error l' i = Some v.
Proof.
  unfold sk_set. destruct (i <? length l) eqn:E; [|discriminate]. apply Nat.ltb_lt in E. intros H.
  assert (H' : l' = firstn i l ++ v :: skipn (S i) l) by congruence. subst l'.
  rewrite nth_error_app2; rewrite firstn_length; [|lia]. replace (i - Nat.min i (length l)) with 0 by lia. reflexivity.
Qed.

Lemma c18_nth_error_firstn {A} : forall (l : list A) i j, j < i -> nth_error (firstn i l) j = nth_error l j.
Proof. induction l as [|x l IH]; intros [|i] [|j] H; cbn; try reflexivity; try lia. apply IH. lia. Qed.

Lemma c18_nth_error_skipn {A} : forall n (l : list A) d, nth_error (skipn n l) d = nth_error l (n + d).
Proof. induction n as [|n IH]; intros [|x l] d; cbn; try reflexivity; [now destruct d|apply IH]. Qed.

Lemma c18_sk_set_other {A} (l l' : list A) i j v : sk_set l i v = Some l' -> j <> i -> nth_error l' j = nth_error l j.
Proof.
  unfold sk_set. destruct (i <? length l) eqn:E; [|discriminate]. apply Nat.ltb_lt in E. intros H Hj.
  assert (H' : l' = firstn i l ++ v :: skipn (S i) l) by congruence. subst l'.
  destruct (Nat.lt_ge_cases j i) as [Hlt|Hge].
  - rewrite nth_error_app1; [|rewrite firstn_length; lia]. apply c18_nth_error_firstn. exact Hlt.
  - rewrite nth_error_app2; rewrite firstn_length; [|lia]. replace (Nat.min i (length l)) with i by lia.
    destruct (j - i) as [|d] eqn:Ed; [lia|]. cbn [nth_error]. rewrite c18_nth_error_skipn. f_equal. lia.
Qed.

Section HosvdPrintBridge.
Variables T_V T_Tensor T_Mat : Type.
Variable c_leV : T_V -> T_V -> bool.
Variable c_zeroV : T_V.
Variable c_addV : T_V -> T_V -> T_V.
Variable k_unfold : T_Tensor -> nat -> T_Mat.
Variable k_gram : T_Mat -> T_Mat.
Variable k_eigh : T_Mat -> list T_V * T_Mat.
Variable k_argsort_desc : list T_V -> list nat.
Variable k_take : list T_V -> list nat -> list T_V.
Variable k_select_cols : T_Mat -> list nat -> T_Mat.
Variable k_shrink : T_Tensor -> list T_Mat -> nat -> T_Tensor.
(* reading contract of `Y.ttm(factor_matrices[k].transpose(), k)` *)
Variable shrink1 : T_Tensor -> nat -> T_Mat -> T_Tensor.
Hypothesis k_shrink_reads_k : forall Y fm k U, nth_error fm k = Some U -> k_shrink Y fm k = shrink1 Y k U.

Notation gloop := (GenHosvd.hosvd_modes_loop1 T_V T_Tensor T_Mat c_leV c_zeroV c_addV k_unfold k_gram k_eigh k_argsort_desc k_take
  k_select_cols k_shrink).
Notation gmodes := (GenHosvd.hosvd_modes T_V T_Tensor T_Mat c_leV c_zeroV c_addV k_unfold k_gram k_eigh k_argsort_desc k_take
  k_select_cols k_shrink).
Notation hl := (h_loop T_V T_Tensor T_Mat c_leV c_zeroV c_addV k_unfold k_gram k_eigh k_argsort_desc k_take k_select_cols k_shrink).
Notation spectrum := (mode_spectrum T_V T_Tensor T_Mat k_unfold k_gram k_eigh k_argsort_desc k_take).

(* the oracles of the hand print driver, made of the generated kernels *)
Definition g_eigs (k : nat) (Y : T_Tensor) : list T_V := fst (fst (spectrum Y k)).
Definition g_lead (k : nat) (Y : T_Tensor) (r : nat) : T_Mat :=
  k_select_cols (snd (spectrum Y k)) (keep_cols r (snd (fst (spectrum Y k)))).
Definition g_setf (fs : list T_Mat) (k : nat) (U : T_Mat) : list T_Mat := match sk_set fs k U with Some l => l | None => fs end.
Definition g_ranks (ranks0 : list nat) (k : nat) : nat := nth k ranks0 0.

Notation hloop ranks0 sq v t :=
  (hv_loop T_Tensor T_Mat (list T_Mat) T_V c_zeroV c_addV (lt_of c_leV) g_eigs g_lead g_setf shrink1 (g_ranks ranks0) sq v t).

Definition drop_ranks (r : option (T_Tensor * list T_Mat * list nat)) : option (T_Tensor * list T_Mat) :=
  match r with Some (Y, fm, _) => Some (Y, fm) | None => None end.

Lemma hosvd_print_bridge_gen ranks0 sq (v : Z) t : forall xs Y fm rl,
  NoDup xs ->
  (forall k, In k xs -> k < length fm) ->
  (forall k, In k xs -> nth_error rl k = Some (g_ranks ranks0 k)) ->
  fst (hloop ranks0 sq v t xs Y fm) = drop_ranks (gloop t sq xs (Y, fm, rl)).
Proof.
  induction xs as [|k xs IH]; intros Y fm rl Hnd Hfm Hrl; [reflexivity|].
  rewrite hosvd_loop_bridge. cbn [hv_loop h_loop].
  unfold h_rank_step, g_eigs, g_lead.
  destruct (spectrum Y k) as [[eig p] Vm] eqn:Esp. cbn [fst snd].
  rewrite (Hrl k (or_introl eq_refl)).
  inversion Hnd as [|? ? Hnotin Hnd']; subst.
  assert (Hk : k < length fm) by (apply Hfm; now left).
  assert (Hkr : k < length rl).
  { apply nth_error_Some. rewrite (Hrl k (or_introl eq_refl)). discriminate. }
  (* the tail of the step, common to both branches of the rank rule *)
  assert (Tail : forall r rl', nth_error rl' k = Some r -> (forall j, j <> k -> nth_error rl' j = nth_error rl j) ->
            fst (let U := k_select_cols Vm (keep_cols r p) in
                 let fs' := g_setf fm k U in
                 let Y' := if sq then shrink1 Y k U else Y in
                 let res := hloop ranks0 sq v t xs Y' fs' in
                 (fst res, (if (g_ranks ranks0 k =? 0) && (5 <? v)%Z
                            then [@HvEigsum T_Tensor T_V k (eigsum c_zeroV c_addV eig) r] else []) ++ snd res)) =
            drop_ranks match nth_error rl' k with
                       | None => None
                       | Some r0 => match sk_set fm k (k_select_cols Vm (keep_cols r0 p)) with
                                    | None => None
                                    | Some fm' => hl t sq xs (if sq then k_shrink Y fm' k else Y, fm', rl')
                                    end
                       end).
  { intros r rl' Hr Hoth. rewrite Hr. cbn zeta. cbn [fst].
    destruct (c18_sk_set_some fm k (k_select_cols Vm (keep_cols r p)) Hk) as [fm' Efm]. unfold g_setf. rewrite Efm.
    rewrite (k_shrink_reads_k Y fm' k _ (c18_sk_set_same _ _ _ _ Efm)). rewrite <- hosvd_loop_bridge.
    apply IH; [exact Hnd'| |].
    - intros j Hj. rewrite (c18_sk_set_length _ _ _ _ Efm). apply Hfm. now right.
    - intros j Hj. rewrite Hoth; [apply Hrl; now right|]. intros ->. contradiction. }
  destruct (g_ranks ranks0 k =? 0) eqn:E0.
  - destruct (auto_rank c_zeroV c_addV (lt_of c_leV) eig t) as [r|]; [|reflexivity].
    destruct (c18_sk_set_some rl k r Hkr) as [rl' Erl]. rewrite Erl.
    apply (Tail r rl' (c18_sk_set_same _ _ _ _ Erl)). intros j Hj. exact (c18_sk_set_other _ _ _ _ _ Erl Hj).
  - apply (Tail (g_ranks ranks0 k) rl (Hrl k (or_introl eq_refl))). reflexivity.
Qed.

(* BRIDGE: for every verbosity, the hand print driver's mode loop returns the generated loop's (Y, factor_matrices) - or its IndexError *)
Theorem hosvd_print_bridge : forall (v : Z) t sq dimorder Y fm ranks0,
  NoDup dimorder -> (forall k, In k dimorder -> k < length fm) -> (forall k, In k dimorder -> k < length ranks0) ->
  fst (hloop ranks0 sq v t dimorder Y fm) = drop_ranks (gloop t sq dimorder (Y, fm, ranks0)).
Proof.
  intros v t sq dimorder Y fm ranks0 Hnd Hfm Hr. apply hosvd_print_bridge_gen; [exact Hnd|exact Hfm|].
  intros k Hk. unfold g_ranks. apply nth_error_nth'. now apply Hr.
Qed.

(* the generated loop's result is what the print driver returns under ANY two verbosities *)
Theorem gen_hosvd_verbosity_indep : forall (v1 v2 : Z) t sq dimorder Y fm ranks0,
  NoDup dimorder -> (forall k, In k dimorder -> k < length fm) -> (forall k, In k dimorder -> k < length ranks0) ->
  fst (hloop ranks0 sq v1 t dimorder Y fm) = drop_ranks (gloop t sq dimorder (Y, fm, ranks0)) /\
  fst (hloop ranks0 sq v2 t dimorder Y fm) = drop_ranks (gloop t sq dimorder (Y, fm, ranks0)).
Proof. intros. split; now apply hosvd_print_bridge. Qed.

(* same statement for the generated region function hosvd_modes (returns (factor_matrices, ranks, Y)) *)
Theorem gen_hosvd_modes_print_bridge : forall (v : Z) t sq dimorder Y fm ranks0,
  NoDup dimorder -> (forall k, In k dimorder -> k < length fm) -> (forall k, In k dimorder -> k < length ranks0) ->
  match gmodes dimorder ranks0 t Y fm sq with
  | Some (fm', _, Y') => fst (hloop ranks0 sq v t dimorder Y fm) = Some (Y', fm')
  | None => fst (hloop ranks0 sq v t dimorder Y fm) = None
  end.
Proof.
  intros v t sq dimorder Y fm ranks0 Hnd Hfm Hr. unfold GenHosvd.hosvd_modes.
  rewrite (hosvd_print_bridge v t sq dimorder Y fm ranks0 Hnd Hfm Hr).
  destruct (gloop t sq dimorder (Y, fm, ranks0)) as [[[Y' fm'] rl']|]; reflexivity.
Qed.
End HosvdPrintBridge.
