(* Proofs/C01Converse.v — the converse direction of the matricisation theorems:
   every tenmat / sptenmat that passes the constructor checks (Model/C01Unique.v: tm_ctor, stm_ctor) converts back to a
   tensor whose matricisation with the same row / column modes is that very object; and sptensor.to_sptenmat with the
   constructor's sort + accumulate step included (to_sptenmat_sorted). *)
From Coq Require Import List Arith Lia Bool Permutation Ring.
From PV Require Import Base.Index Base.Perm Base.Sum Np.Array Model.Sparse Model.Repr Model.C07Ops Model.C01Conv
  Model.C01Unique Proofs.C07Index Proofs.C07Proofs Proofs.C01Proofs Proofs.C01Unique.
Import ListNotations.

(* ------------------------------------------------------------------ matrix position <-> tensor subscript *)
Definition row_to_sub (s : shape) (r c : list nat) (rc : idx) : idx :=
  pick 0 (invperm (r ++ c)) (ind2sub (pick 0 r s) (nth 0 rc 0) ++ ind2sub (pick 0 c s) (nth 1 rc 0)).

Lemma inb2 R C rc : inb [R; C] rc = true <-> exists a b, rc = [a; b] /\ a < R /\ b < C.
Proof.
  split.
  - destruct rc as [|a [|b [|z rc]]]; cbn [inb]; intros H; try discriminate; try (rewrite !andb_false_r in H; discriminate).
    rewrite andb_true_r in H. apply andb_true_iff in H as [Ha Hb]. apply Nat.ltb_lt in Ha, Hb. eauto.
  - intros (a & b & -> & Ha & Hb). cbn [inb]. apply Nat.ltb_lt in Ha, Hb. now rewrite Ha, Hb.
Qed.

Lemma row_to_sub_spec s r c rc : is_perm (r ++ c) (length s) -> inb [size (pick 0 r s); size (pick 0 c s)] rc = true ->
  inb s (row_to_sub s r c rc) = true /\ tm_pos s r c (row_to_sub s r c rc) = rc.
Proof.
  intros Hp Hrc. apply inb2 in Hrc as (x & y & -> & Hx & Hy). unfold row_to_sub. cbn [nth].
  set (a := ind2sub (pick 0 r s) x). set (b := ind2sub (pick 0 c s) y). set (p := r ++ c) in *.
  pose proof (is_perm_length _ _ Hp) as HpL.
  assert (La : length a = length r) by (unfold a; now rewrite ind2sub_length, pick_length).
  assert (Lb : length b = length c) by (unfold b; now rewrite ind2sub_length, pick_length).
  assert (Lab : length (a ++ b) = length s) by (rewrite app_length, La, Lb, <- HpL; unfold p; now rewrite app_length).
  assert (Hab : inb (pick 0 p s) (a ++ b) = true).
  { unfold p. rewrite pick_app, inb_app by (now rewrite pick_length). unfold a, b. now rewrite !inb_ind2sub. }
  set (j := pick 0 (invperm p) (a ++ b)).
  assert (Hj : inb s j = true) by (unfold j; rewrite <- inb_pick_inv; auto).
  split; [exact Hj|].
  assert (Epj : pick 0 p j = a ++ b) by (unfold j; now apply (pick_pick_invperm 0 p (length s))).
  unfold p in Epj. rewrite pick_app in Epj. apply app_inv_length_eq in Epj as [Ea Eb]; [|now rewrite pick_length].
  unfold tm_pos. rewrite Ea, Eb. unfold a, b. now rewrite !sub2ind_ind2sub.
Qed.

Lemma stm_row_to_sub_eq {V} (M : sptenmat V) rc : stm_row_to_sub M rc = row_to_sub (stm_tshape M) (stm_r M) (stm_c M) rc.
Proof. reflexivity. Qed.

(* ------------------------------------------------------------------ tenmat *)
Section TenmatConverse.
Context {V : Type} (v0 : V).

Lemma tenmat_to_tensor_as_transpose (M : tenmat V) :
  let p := tm_r M ++ tm_c M in let ts := tm_tshape M in
  wf_dense (tm_data M) -> is_perm p (length ts) -> size (dshape (tm_data M)) = size ts ->
  tenmat_to_tensor v0 M = np_transpose v0 (np_reshapeF v0 (tm_data M) (pick 0 p ts)) (invperm p).
Proof.
  intros p ts W Hp Hsz. unfold tenmat_to_tensor. fold p ts. set (X := np_reshapeF v0 (tm_data M) (pick 0 p ts)).
  pose proof (is_perm_length _ _ Hp) as HpL. pose proof (invperm_is_perm _ _ Hp) as Hq.
  assert (WX : wf_dense X) by apply wf_tabulate.
  assert (HsX : dshape X = pick 0 p ts) by reflexivity.
  assert (Hq' : is_perm (invperm p) (length (dshape X))) by (now rewrite HsX, pick_length, HpL).
  assert (Hsh : dshape (np_transpose v0 X (invperm p)) = ts).
  { unfold np_transpose. rewrite dshape_tabulate, HsX. now apply (pick_invperm_pick 0 p (length ts)). }
  destruct (Nat.ltb_spec 1 (length p)) as [H1|H1].
  - rewrite <- Hsh at 1. now destruct (np_transpose v0 X (invperm p)).
  - rewrite (transpose_short v0 X (invperm p)) by (auto; rewrite invperm_length; lia).
    rewrite (transpose_short v0 X (invperm p)) in Hsh by (auto; rewrite invperm_length; lia).
    rewrite <- Hsh. now destruct X.
Qed.

(* a matrix holder with a mode partition and the right number of entries converts back to a tensor whose matricisation
   along the same modes has the same entries in the same places *)
Theorem tenmat_back_forth (M : tenmat V) :
  let p := tm_r M ++ tm_c M in let ts := tm_tshape M in
  wf_dense (tm_data M) -> is_perm p (length ts) -> size (dshape (tm_data M)) = size ts ->
  let T := tenmat_to_tensor v0 M in
  wf_dense T /\ dshape T = ts /\
  exists M', to_tenmat v0 T (tm_r M) (tm_c M) = Some M' /\ tm_r M' = tm_r M /\ tm_c M' = tm_c M /\ tm_tshape M' = ts /\
    dshape (tm_data M') = tm_rc M /\ ddata (tm_data M') = ddata (tm_data M) /\
    (dshape (tm_data M) = tm_rc M -> M' = M) /\
    (forall i, inb ts i = true -> den_tenmat v0 M' i = den_dense v0 T i) /\
    tenmat_to_tensor v0 M' = T.
Proof.
  intros p ts W Hp Hsz T. pose proof (is_perm_length _ _ Hp) as HpL. pose proof (invperm_is_perm _ _ Hp) as Hq.
  set (X := np_reshapeF v0 (tm_data M) (pick 0 p ts)).
  assert (WX : wf_dense X) by apply wf_tabulate.
  assert (HsX : dshape X = pick 0 p ts) by reflexivity.
  assert (Hq' : is_perm (invperm p) (length (dshape X))) by (now rewrite HsX, pick_length, HpL).
  assert (ET : T = np_transpose v0 X (invperm p)) by (apply tenmat_to_tensor_as_transpose; auto).
  assert (WT : wf_dense T) by (rewrite ET; apply wf_tabulate).
  assert (HsT : dshape T = ts).
  { rewrite ET. unfold np_transpose. rewrite dshape_tabulate, HsX. now apply (pick_invperm_pick 0 p (length ts)). }
  split; [exact WT|]. split; [exact HsT|].
  assert (HpT : is_perm (tm_r M ++ tm_c M) (length (dshape T))) by (now rewrite HsT).
  destruct (to_tenmat_correct v0 T (tm_r M) (tm_c M) WT HpT) as (M' & E & Er & Ec & Ets & WM' & Hsh & Hden & Hback).
  exists M'. split; [exact E|]. split; [exact Er|]. split; [exact Ec|]. split; [now rewrite Ets|].
  assert (Hrc : dshape (tm_data M') = tm_rc M) by (rewrite Hsh, HsT; reflexivity).
  split; [exact Hrc|].
  (* the data: transpose back by p undoes the inverse transpose, F-order reshapes keep the data list *)
  assert (Edata : ddata (tm_data M') = ddata (tm_data M)).
  { unfold to_tenmat in E. fold p in E. rewrite HsT in E. fold ts in E.
    rewrite (proj2 (is_permb_spec p (length ts)) Hp) in E.
    rewrite (permute_d_perm v0 T p WT) in E by (now rewrite HsT).
    inversion E as [E']. cbn [tm_data].
    assert (EX : np_transpose v0 T p = X).
    { rewrite ET. rewrite <- (invperm_invperm p _ Hp) at 2. now apply transpose_inverse. }
    rewrite EX. rewrite np_reshapeF_data; auto.
    - unfold X. apply np_reshapeF_data; auto. now rewrite size_pick.
    - rewrite HsX. unfold p. rewrite pick_app, size_app, !size_cons. change (size []) with 1. lia. }
  split; [exact Edata|]. split; [|split; [|exact Hback]].
  - intros Hd. destruct M as [D r c t], M' as [D' r' c' t']. cbn [tm_data tm_r tm_c tm_tshape] in *. subst r' c' t'.
    fold ts. f_equal; [|now rewrite HsT]. destruct D as [sD dD], D' as [sD' dD']. cbn [dshape ddata] in *. congruence.
  - intros i Hi. apply Hden. now rewrite HsT.
Qed.

(* what an accepted constructor call guarantees *)
Lemma tm_ctor_sound (D : dense V) rd cd ts M : wf_dense D -> tm_ctor (Some D) rd cd ts = CtorOk M ->
  wf_dense (tm_data M) /\ ddata (tm_data M) = ddata D /\ length (dshape (tm_data M)) = 2 /\
  (length (dshape D) = 2 -> tm_data M = D) /\
  is_perm (tm_r M ++ tm_c M) (length (tm_tshape M)) /\ size (dshape (tm_data M)) = size (tm_tshape M) /\
  gather_wrap_dims (length (tm_tshape M)) rd cd None = Some (tm_r M, tm_c M) /\
  (forall t, ts = Some t -> tm_tshape M = t) /\ (ts = None -> tm_tshape M = dshape (tm_data M)).
Proof.
  intros W. unfold tm_ctor.
  destruct (size (dshape D) =? 0); [destruct (oempty rd && oempty cd && oempty ts); discriminate|].
  set (D2o := match dshape D with [n] => match ts with None => None | Some _ => Some (mkDense [1; n] (ddata D)) end
                                 | [_; _] => Some D | _ => None end).
  assert (HD2 : forall D2, D2o = Some D2 -> wf_dense D2 /\ ddata D2 = ddata D /\ length (dshape D2) = 2 /\
                                               (length (dshape D) = 2 -> D2 = D)).
  { unfold D2o. intros D2. destruct (dshape D) as [|n [|m [|z rest]]] eqn:Es; try discriminate.
    - destruct ts; [|discriminate]. intros E. inversion E; subst. unfold wf_dense in *. cbn [ddata dshape]. rewrite W, Es.
      repeat split; auto. + cbn. lia. + cbn. discriminate.
    - intros E. inversion E; subst. rewrite Es. repeat split; auto. }
  destruct D2o as [D2|]; [|discriminate]. destruct (HD2 D2 eq_refl) as (W2 & Ed & L2 & Eq2).
  set (tshape := match ts with Some t => t | None => dshape D2 end).
  destruct (size (dshape D2) =? size tshape) eqn:Esz; cbn [negb]; [|discriminate]. apply Nat.eqb_eq in Esz.
  destruct (gather_wrap_dims (length tshape) rd cd None) as [[r c]|] eqn:Eg; [|discriminate].
  destruct (forallb (fun k => k <? length tshape) (r ++ c)); cbn [negb]; [|discriminate].
  destruct (size (pick 0 r tshape) * size (pick 0 c tshape) =? size (dshape D2)); cbn [negb]; [|discriminate].
  destruct (is_permb (r ++ c) (length tshape)) eqn:Ep; cbn [negb]; [|discriminate].
  intros E. inversion E; subst M. cbn [tm_data tm_r tm_c tm_tshape]. apply is_permb_spec in Ep.
  repeat split; auto.
  - intros t ->. reflexivity.
  - intros ->. reflexivity.
Qed.

Theorem tm_ctor_converse (D : dense V) rd cd ts M : wf_dense D -> tm_ctor (Some D) rd cd ts = CtorOk M ->
  let T := tenmat_to_tensor v0 M in
  wf_dense T /\ dshape T = tm_tshape M /\ is_perm (tm_r M ++ tm_c M) (length (tm_tshape M)) /\
  exists M', to_tenmat v0 T (tm_r M) (tm_c M) = Some M' /\ tm_r M' = tm_r M /\ tm_c M' = tm_c M /\
    tm_tshape M' = tm_tshape M /\ dshape (tm_data M') = tm_rc M /\ ddata (tm_data M') = ddata (tm_data M) /\
    (dshape (tm_data M) = tm_rc M -> M' = M) /\
    (forall i, inb (tm_tshape M) i = true -> den_tenmat v0 M' i = den_dense v0 T i) /\
    tenmat_to_tensor v0 M' = T.
Proof.
  intros W E T. destruct (tm_ctor_sound D rd cd ts M W E) as (WM & _ & _ & _ & Hp & Hsz & _).
  destruct (tenmat_back_forth M WM Hp Hsz) as (WT & HsT & M' & H). split; [exact WT|]. split; [exact HsT|].
  split; [exact Hp|]. exists M'. exact H.
Qed.

End TenmatConverse.

(* ------------------------------------------------------------------ sptenmat *)
Section SptenmatConverse.
Variable V : Type.
Variables (v0 v1 : V) (vadd vmul vsub : V -> V -> V) (vopp : V -> V) (isz : V -> bool).
Hypothesis Vring : ring_theory v0 v1 vadd vmul vsub vopp (@eq V).
Hypothesis isz_spec : forall v, isz v = true <-> v = v0.
Add Ring Vr01c : Vring.
Notation stmn := (stm_norm vadd isz).
Notation ctor := (stm_ctor vadd isz).
Notation sorted_of := (to_sptenmat_sorted vadd isz).

Lemma forallb_rows_ok R C (subs : list idx) : Forall (fun rc => inb [R; C] rc = true) subs ->
  forallb (fun rc => nth 0 rc 0 <? R) subs = true /\ forallb (fun rc => nth 1 rc 0 <? C) subs = true.
Proof.
  intros H. split; apply forallb_forall; intros rc Hrc; rewrite Forall_forall in H; specialize (H rc Hrc);
    apply inb2 in H as (a & b & -> & Ha & Hb); cbn [nth]; now apply Nat.ltb_lt.
Qed.

(* the constructor accepts every in-bounds list of triples along a mode partition *)
Lemma stm_ctor_accepts subs vals r c ts : is_perm (r ++ c) (length ts) ->
  Forall (fun rc => inb [size (pick 0 r ts); size (pick 0 c ts)] rc = true) subs ->
  ctor (Some subs) (Some vals) (Some r) (Some c) ts = Some (stmn (mkSTM subs vals r c ts)).
Proof.
  intros Hp Hb. unfold stm_ctor. cbn [gather_wrap_dims olist].
  rewrite (proj2 (is_permb_spec _ _) Hp). destruct (forallb_rows_ok _ _ _ Hb) as [-> ->]. reflexivity.
Qed.

(* ... and what an accepted call guarantees *)
Lemma stm_ctor_sound subs vals rd cd ts M : ctor subs vals rd cd ts = Some M ->
  (rd = None /\ cd = None /\ subs = None /\ vals = None /\ M = mkSTM [] [] [] [] []) \/
  exists r c, gather_wrap_dims (length ts) rd cd None = Some (r, c) /\ is_perm (r ++ c) (length ts) /\
    Forall (fun rc => nth 0 rc 0 < size (pick 0 r ts) /\ nth 1 rc 0 < size (pick 0 c ts)) (olist subs) /\
    M = stmn (mkSTM (olist subs) (olist vals) r c ts).
Proof.
  unfold stm_ctor. intros E.
  assert (G : match gather_wrap_dims (length ts) rd cd None with
              | Some (r, c) => if negb (is_permb (r ++ c) (length ts)) then None
                  else if negb (forallb (fun rc => nth 0 rc 0 <? size (pick 0 r ts)) (olist subs)) then None
                  else if negb (forallb (fun rc => nth 1 rc 0 <? size (pick 0 c ts)) (olist subs)) then None
                  else Some (stmn (mkSTM (olist subs) (olist vals) r c ts))
              | None => None end = Some M ->
            exists r c, gather_wrap_dims (length ts) rd cd None = Some (r, c) /\ is_perm (r ++ c) (length ts) /\
              Forall (fun rc => nth 0 rc 0 < size (pick 0 r ts) /\ nth 1 rc 0 < size (pick 0 c ts)) (olist subs) /\
              M = stmn (mkSTM (olist subs) (olist vals) r c ts)).
  { destruct (gather_wrap_dims (length ts) rd cd None) as [[r c]|]; [|discriminate].
    destruct (is_permb (r ++ c) (length ts)) eqn:Ep; cbn [negb]; [|discriminate].
    destruct (forallb (fun rc => nth 0 rc 0 <? size (pick 0 r ts)) (olist subs)) eqn:E0; cbn [negb]; [|discriminate].
    destruct (forallb (fun rc => nth 1 rc 0 <? size (pick 0 c ts)) (olist subs)) eqn:E1; cbn [negb]; [|discriminate].
    intros E'. inversion E'. exists r, c. split; auto. split; [now apply is_permb_spec|]. split; auto.
    rewrite forallb_forall in E0, E1. rewrite Forall_forall. intros rc Hrc. split; apply Nat.ltb_lt; auto. }
  destruct rd as [rd|], cd as [cd|]; try (right; now apply G).
  left. destruct subs, vals; try discriminate. inversion E. auto.
Qed.

(* reading a coordinate list is invariant under reordering when the subscripts are distinct *)
Lemma vsum_perm i (l l' : list (idx * V)) : Permutation l l' -> vsum_at v0 vadd i l = vsum_at v0 vadd i l'.
Proof.
  intros P. unfold vsum_at. change (sumv v0 vadd (map snd ?x)) with (sum_over v0 vadd x snd).
  apply (sum_over_perm V v0 v1 vadd vmul vsub vopp Vring).
  induction P; cbn [filter]; auto.
  - destruct (idx_eqb i (fst x)); auto.
  - destruct (idx_eqb i (fst x)), (idx_eqb i (fst y)); auto. apply perm_swap.
  - etransitivity; eauto.
Qed.

Lemma last_match_perm i (l l' : list (idx * V)) : NoDup (map fst l) -> Permutation l l' ->
  last_match i l v0 = last_match i l' v0.
Proof.
  intros Hn P. assert (Hn' : NoDup (map fst l')) by (eapply Permutation_NoDup; [apply Permutation_map; exact P|exact Hn]).
  rewrite !(last_match_vsum V v0 v1 vadd vmul vsub vopp Vring) by auto. now apply vsum_perm.
Qed.

Lemma combine_map_l {A B C} (f : A -> C) (a : list A) (b : list B) :
  combine (map f a) b = map (fun e => (f (fst e), snd e)) (combine a b).
Proof. revert b; induction a as [|x a IH]; intros [|y b]; cbn; auto. now rewrite IH. Qed.

(* the back conversion of a well-formed sptenmat *)
Theorem sptenmat_back_forth (M : sptenmat V) :
  let r := stm_r M in let c := stm_c M in let ts := stm_tshape M in
  is_perm (r ++ c) (length ts) -> length (stm_subs M) = length (stm_vals M) ->
  Forall (fun rc => inb (stm_shape M) rc = true) (stm_subs M) ->
  let S := sptenmat_to_sptensor M in
  sshape S = ts /\ Forall (fun j => inb ts j = true) (ssubs S) /\ svals S = stm_vals M /\ nnz S = length (stm_subs M) /\
  (NoDup (stm_subs M) -> NoDup (ssubs S)) /\
  to_sptenmat S r c = Some M /\
  (forall i, inb ts i = true -> den_sp v0 S i = den_sptenmat v0 M i) /\
  (ssorted (stm_subs M) -> Forall (fun v => isz v = false) (stm_vals M) -> sorted_of S r c = Some M).
Proof.
  intros r c ts Hp HL Hb S. unfold stm_shape in Hb. fold r c ts in Hb.
  assert (Hrt : forall rc, In rc (stm_subs M) -> inb ts (stm_row_to_sub M rc) = true /\
                                                   tm_pos ts r c (stm_row_to_sub M rc) = rc).
  { intros rc Hrc. rewrite stm_row_to_sub_eq. apply row_to_sub_spec; auto. rewrite Forall_forall in Hb. auto. }
  assert (Emap : map (tm_pos ts r c) (ssubs S) = stm_subs M).
  { unfold S, sptenmat_to_sptensor. cbn [ssubs]. rewrite map_map. rewrite <- (map_id (stm_subs M)) at 2.
    apply map_ext_in. intros rc Hrc. now apply Hrt. }
  assert (HbS : Forall (fun j => inb ts j = true) (ssubs S)).
  { unfold S, sptenmat_to_sptensor. cbn [ssubs]. rewrite Forall_forall. intros j Hj. apply in_map_iff in Hj as (rc & <- & Hrc).
    now apply Hrt. }
  assert (Eto : to_sptenmat S r c = Some M).
  { unfold to_sptenmat. change (sshape S) with ts. rewrite (proj2 (is_permb_spec _ _) Hp), Emap.
    destruct M; reflexivity. }
  split; [reflexivity|]. split; [exact HbS|]. split; [reflexivity|].
  split; [unfold nnz, S, sptenmat_to_sptensor; cbn [ssubs]; now rewrite map_length|]. split; [|split; [exact Eto|split]].
  - intros Hn. unfold S, sptenmat_to_sptensor. cbn [ssubs]. apply NoDup_map_inj; auto.
    intros a b Ha Hb' E. destruct (Hrt a Ha) as [_ <-]. destruct (Hrt b Hb') as [_ <-]. now rewrite E.
  - intros i Hi.
    destruct (to_sptenmat_correct v0 isz S r c Hp HbS) as (M2 & E2 & _ & _ & _ & _ & _ & _ & _ & Hden & _).
    rewrite Eto in E2. inversion E2; subst M2. symmetry. now apply Hden.
  - intros Hs Hz. unfold to_sptenmat_sorted. rewrite Eto. change (sshape S) with ts.
    replace r with (stm_r M) by reflexivity. replace c with (stm_c M) by reflexivity.
    rewrite stm_ctor_accepts by auto. f_equal.
    destruct (stm_norm_correct V v0 v1 vadd vmul vsub vopp isz Vring isz_spec
                (mkSTM (stm_subs M) (stm_vals M) (stm_r M) (stm_c M) ts) 2) as (_ & _ & _ & _ & _ & _ & _ & _ & _ & _ & Hid); auto.
    + cbn [stm_subs]. rewrite Forall_forall in *. intros rc Hrc. specialize (Hb rc Hrc).
      apply inb2 in Hb as (a & b & -> & _). reflexivity.
    + rewrite Hid by auto. destruct M; reflexivity.
Qed.

(* the constructor: every accepted call yields a strictly sorted, in-bounds, zero-free sptenmat denoting the sums of the
   given values, which converts back to a well-formed sparse tensor whose matricisation is that very object *)
Definition stm_converse_concl (subs : list idx) (vals : list V) (ts : shape) (M : sptenmat V) : Prop :=
  stm_tshape M = ts /\ is_perm (stm_r M ++ stm_c M) (length ts) /\
  ssorted (stm_subs M) /\ wf_sp isz (stm_sp M) /\
  (forall rc, den_sp v0 (stm_sp M) rc = vsum_at v0 vadd rc (combine subs vals)) /\
  let S := sptenmat_to_sptensor M in
  wf_sp isz S /\ sshape S = ts /\ nnz S = length (stm_subs M) /\
  to_sptenmat S (stm_r M) (stm_c M) = Some M /\ sorted_of S (stm_r M) (stm_c M) = Some M /\
  (forall i, inb ts i = true -> den_sp v0 S i = den_sptenmat v0 M i).

Lemma stm_norm_converse subs vals r c ts : is_perm (r ++ c) (length ts) ->
  Forall (fun rc => nth 0 rc 0 < size (pick 0 r ts) /\ nth 1 rc 0 < size (pick 0 c ts)) subs ->
  length subs = length vals -> Forall (fun rc => length rc = 2) subs ->
  stm_converse_concl subs vals ts (stmn (mkSTM subs vals r c ts)).
Proof.
  intros Hp Hrow HL H2. set (M := stmn (mkSTM subs vals r c ts)).
  destruct (stm_norm_correct V v0 v1 vadd vmul vsub vopp isz Vring isz_spec (mkSTM subs vals r c ts) 2 HL H2)
    as (Er & Ec & Ets & HL' & Hs & Hn & Hz & Hsub & Hden & _).
  fold M in Er, Ec, Ets, HL', Hs, Hn, Hz, Hsub, Hden. cbn [stm_r stm_c stm_tshape stm_subs stm_vals] in *.
  assert (Hb : Forall (fun rc => inb (stm_shape M) rc = true) (stm_subs M)).
  { unfold stm_shape. rewrite Er, Ec, Ets. rewrite Forall_forall in *. intros rc Hrc. specialize (Hsub rc Hrc).
    specialize (H2 rc Hsub). destruct (Hrow rc Hsub) as [Ha Hb].
    destruct rc as [|a [|b [|z rc]]]; cbn in H2; try discriminate. cbn [nth] in *. apply inb2. eauto. }
  assert (Hp' : is_perm (stm_r M ++ stm_c M) (length (stm_tshape M))) by (now rewrite Er, Ec, Ets).
  destruct (sptenmat_back_forth M Hp' HL' Hb) as (Es & HbS & Ev & En & HnS & Eto & HdenS & Hsorted).
  unfold stm_converse_concl.
  split; [exact Ets|]. split; [now rewrite <- Ets|]. split; [exact Hs|]. split.
  { unfold wf_sp, stm_sp. cbn [sshape ssubs svals]. auto. }
  split; [exact Hden|]. cbn zeta. split.
  { unfold wf_sp. rewrite Ev, Es. repeat split; auto;
      try (unfold sptenmat_to_sptensor; cbn [ssubs]; now rewrite map_length); try (now rewrite <- Ets). }
  split; [now rewrite Es|]. split; [exact En|]. split; [exact Eto|]. split; [now apply Hsorted|].
  intros i Hi. apply HdenS. now rewrite Ets.
Qed.

(* the constructor: every accepted call (with rdims or cdims given) yields a strictly sorted, in-bounds, zero-free sptenmat
   denoting the sums of the given values, which converts back to a well-formed sparse tensor whose matricisation is that
   very object; subs is an nnz x 2 array and vals has nnz entries (numpy typing of the arguments) *)
Theorem stm_ctor_converse subs vals rd cd ts M : ctor subs vals rd cd ts = Some M -> rd <> None \/ cd <> None ->
  length (olist subs) = length (olist vals) -> Forall (fun rc => length rc = 2) (olist subs) ->
  stm_converse_concl (olist subs) (olist vals) ts M.
Proof.
  intros E Hrc HL H2.
  destruct (stm_ctor_sound _ _ _ _ _ _ E) as [(-> & -> & _)|(r & c & _ & Hp & Hrow & ->)]; [destruct Hrc; congruence|].
  now apply stm_norm_converse.
Qed.

(* the call without rdims and cdims: only sptenmat() is accepted and gives the 0-way object without nonzeros *)
Theorem stm_ctor_empty subs vals ts M : ctor subs vals None None ts = Some M ->
  subs = None /\ vals = None /\ M = mkSTM [] [] [] [] [] /\ stm_converse_concl [] [] [] M.
Proof.
  intros E. destruct (stm_ctor_sound _ _ _ _ _ _ E) as [(_ & _ & -> & -> & ->)|(r & c & Eg & _)]; [|discriminate].
  repeat (split; [reflexivity|]).
  apply (stm_norm_converse [] [] [] [] []); cbn; auto. constructor.
Qed.

(* sptensor.to_sptenmat as pyttb computes it (constructor included): strictly sorted triples; on a well-formed sparse
   tensor a reordering of the per-entry images, same nnz, same array, and back to an equivalent sparse tensor *)
Theorem to_sptenmat_sorted_correct (S : sparse V) r c : is_perm (r ++ c) (length (sshape S)) ->
  Forall (fun j => inb (sshape S) j = true) (ssubs S) -> length (ssubs S) = length (svals S) ->
  exists M0 M, to_sptenmat S r c = Some M0 /\ sorted_of S r c = Some M /\ M = stmn M0 /\
    stm_r M = r /\ stm_c M = c /\ stm_tshape M = sshape S /\ ssorted (stm_subs M) /\ wf_sp isz (stm_sp M) /\
    (forall rc, den_sp v0 (stm_sp M) rc = vsum_at v0 vadd rc (stm_entries V M0)) /\
    (wf_sp isz S ->
       Permutation (stm_entries V M) (stm_entries V M0) /\ length (stm_subs M) = nnz S /\
       (forall i, inb (sshape S) i = true -> den_sptenmat v0 M i = den_sp v0 S i) /\
       (forall i, inb (sshape S) i = true -> den_tenmat v0 (sptenmat_full v0 M) i = den_sp v0 S i) /\
       let B := sptenmat_to_sptensor M in
       wf_sp isz B /\ sshape B = sshape S /\ nnz B = nnz S /\ forall i, den_sp v0 B i = den_sp v0 S i).
Proof.
  intros Hp Hb HL. set (s := sshape S) in *.
  destruct (to_sptenmat_correct v0 isz S r c Hp Hb) as (M0 & E0 & Er & Ec & Ets & Ev & En & Hb0 & Hwf0 & Hden0 & _).
  assert (EM0 : M0 = mkSTM (stm_subs M0) (stm_vals M0) r c s) by (destruct M0 as [a0 b0 r0 c0 t0]; cbn [stm_subs stm_vals stm_r stm_c stm_tshape] in *; unfold s; congruence).
  assert (HL0 : length (stm_subs M0) = length (stm_vals M0)) by (rewrite En, Ev; exact HL).
  unfold stm_shape in Hb0. rewrite Er, Ec, Ets in Hb0. fold s in Hb0.
  assert (H2 : Forall (fun rc => length rc = 2) (stm_subs M0)).
  { rewrite Forall_forall in *. intros rc Hrc. specialize (Hb0 rc Hrc). apply inb2 in Hb0 as (a & b & -> & _). reflexivity. }
  assert (Hrow : Forall (fun rc => nth 0 rc 0 < size (pick 0 r s) /\ nth 1 rc 0 < size (pick 0 c s)) (stm_subs M0)).
  { rewrite Forall_forall in *. intros rc Hrc. specialize (Hb0 rc Hrc). apply inb2 in Hb0 as (a & b & -> & Ha & Hb'). cbn; auto. }
  exists M0, (stmn M0). split; [exact E0|]. split.
  { unfold to_sptenmat_sorted. rewrite E0. fold s. rewrite stm_ctor_accepts by auto. now rewrite <- EM0. }
  split; [reflexivity|].
  pose proof (stm_norm_converse (stm_subs M0) (stm_vals M0) r c s Hp Hrow HL0 H2) as C. rewrite <- EM0 in C.
  destruct C as (Cts & Cp & Cs & Cwf & Cden & CB). cbn zeta in CB. destruct CB as (CBwf & CBs & CBn & _ & _ & CBden).
  set (M := stmn M0) in *.
  assert (ErM : stm_r M = r) by (unfold M, stm_norm; cbn [stm_r]; exact Er).
  assert (EcM : stm_c M = c) by (unfold M, stm_norm; cbn [stm_c]; exact Ec).
  split; [exact ErM|]. split; [exact EcM|]. split; [exact Cts|]. split; [exact Cs|]. split; [exact Cwf|].
  split; [exact Cden|]. intros W.
  destruct (stm_norm_correct V v0 v1 vadd vmul vsub vopp isz Vring isz_spec M0 2 HL0 H2)
    as (_ & _ & _ & HLM & _ & _ & _ & _ & _ & Hperm & _).
  fold M in HLM, Hperm. destruct (Hwf0 W) as (_ & Hn0 & _ & Hz0). cbn [stm_sp ssubs svals] in Hn0, Hz0.
  destruct (Hperm Hn0 Hz0) as [P Hdeq].
  assert (Hlen : length (stm_subs M) = nnz S).
  { apply Permutation_length in P. unfold stm_entries in P. rewrite !combine_length, <- HLM, <- HL0, !Nat.min_id in P. lia. }
  assert (HdM : forall i, inb s i = true -> den_sptenmat v0 M i = den_sp v0 S i).
  { intros i Hi. rewrite <- Hden0 by auto. unfold den_sptenmat. rewrite Cts, ErM, EcM, Ets, Er, Ec.
    assert (Esp : forall rc, den_sp v0 (stm_sp M) rc = den_sp v0 (stm_sp M0) rc) by exact Hdeq. apply Esp. }
  split; [exact P|]. split; [exact Hlen|]. split; [exact HdM|]. split.
  - intros i Hi. unfold den_tenmat, sptenmat_full. cbn [tm_data tm_r tm_c tm_tshape].
    destruct Cwf as (_ & _ & CbM & _). rewrite den_full by exact CbM. now apply HdM.
  - cbn zeta. split; [exact CBwf|]. split; [exact CBs|]. split; [now rewrite CBn|].
    intros i. destruct (inb s i) eqn:Hi.
    + rewrite CBden by auto. now apply HdM.
    + rewrite !den_sp_notin; auto.
      * intros Hin. destruct W as (_ & _ & Wb & _). rewrite Forall_forall in Wb. specialize (Wb _ Hin). fold s in Wb. congruence.
      * intros Hin. destruct CBwf as (_ & _ & Wb & _). rewrite Forall_forall in Wb. specialize (Wb _ Hin). rewrite CBs in Wb. congruence.
Qed.

End SptenmatConverse.
