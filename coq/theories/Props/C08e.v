(* Props/C08e.v — C08, wave 4: ktensor.symmetrize — C08's executable transliteration k_symmetrize_core (the one the correspondence
   stream runs against pyttb) IS C15's transliteration k15_core, so the value theorems of C15 hold for it.
   Only statements, `exact`, Print Assumptions. *)
From Coq Require Import List Arith Bool Permutation Ring QArith Qcanon.
From PV Require Import Base.Index Base.Perm Base.Sum Model.Repr Model.Harness Model.C08Kruskal Model.C08More Model.C08Inst
  Model.C08Inst3 Model.C15Sym Model.C15K Model.C15Inst Proofs.C08SymBridge.
Import ListNotations.
Local Open Scope nat_scope.

Section C08e.
Variable V : Type.
Variables (v0 v1 : V) (vadd vmul vsub : V -> V -> V) (vopp vinv : V -> V).
Hypothesis Vring : ring_theory v0 v1 vadd vmul vsub vopp (@eq V).
Variable neg : V -> bool.

(* the body of symmetrize after normalize('all'), written with list operations (sign lists per factor, scale_cols, the weights
   toggled by zipmul once per flipped factor, a fold of matrix additions, division by N, odd-order repair), equals — weights and
   every stored entry — the entry-formula transliteration k15_core: every well-formed Kruskal tensor (rows of length rank K1) whose
   factors have the same number of rows (a cubic tensor), any order N >= 0, any rank, every commutative ring, every sign test *)
Theorem C08_symmetrize_bridge : forall K1 : ktensor V, wf_k K1 ->
  (forall A, In A (kfactors K1) -> nrows A = nrows (nth 0 (kfactors K1) [])) ->
  k_symmetrize_core v0 v1 vadd vmul vopp vinv neg K1 = k15_core v0 v1 vadd vmul vopp vinv neg K1.
Proof. exact (k_symmetrize_core_is_k15_core V v0 v1 vadd vmul vsub vopp vinv Vring neg). Qed.

(* the result denotes a symmetric array *)
Theorem C08_symmetrize_symmetric : forall K1 : ktensor V, wf_k K1 ->
  (forall A, In A (kfactors K1) -> nrows A = nrows (nth 0 (kfactors K1) [])) ->
  forall i i', Permutation i i' ->
  den_k v0 v1 vadd vmul (k_symmetrize_core v0 v1 vadd vmul vopp vinv neg K1) i =
  den_k v0 v1 vadd vmul (k_symmetrize_core v0 v1 vadd vmul vopp vinv neg K1) i'.
Proof. exact (k_symmetrize_core_symmetric V v0 v1 vadd vmul vsub vopp vinv Vring neg). Qed.

(* "changes only the parameterisation" where that is true: factors that agree up to column signs (what normalize('all') makes of
   identical factors with weights of either sign) — the denoted array is kept.  Oracle hypotheses as in C15_ksym_keeps. *)
Hypothesis neg_sq : forall (h : nat -> V) n, neg (sum_n v0 vadd n (fun x => vmul (h x) (h x))) = false.
Hypothesis neg_opp_sq : forall (h : nat -> V) n, neg (vopp (sum_n v0 vadd n (fun x => vmul (h x) (h x)))) = false ->
  forall x, x < n -> h x = v0.
Hypothesis char0 : forall n, n <> 0 -> of_nat v0 v1 vadd n <> v0.
Hypothesis vinv_l : forall x, x <> v0 -> vmul (vinv x) x = v1.
Theorem C08_symmetrize_keeps : forall (B : list (list V)) (m R : nat) (K1 : ktensor V),
  wf_k K1 -> kfactors K1 <> [] -> krank K1 = R ->
  (forall A, In A (kfactors K1) -> signed_copy v0 v1 vmul vopp B m R A) ->
  forall i, den_k v0 v1 vadd vmul (k_symmetrize_core v0 v1 vadd vmul vopp vinv neg K1) i = den_k v0 v1 vadd vmul K1 i.
Proof. exact (k_symmetrize_core_keeps V v0 v1 vadd vmul vsub vopp vinv Vring neg neg_sq neg_opp_sq char0 vinv_l). Qed.
End C08e.
Print Assumptions C08_symmetrize_bridge.
Print Assumptions C08_symmetrize_symmetric.
Print Assumptions C08_symmetrize_keeps.

(* over the exact rationals with the exact sign test nothing is assumed *)
Theorem C08_symmetrize_keeps_Qc : forall (B : list (list Qc)) (m R : nat) (K1 : ktensor Qc),
  wf_k K1 -> kfactors K1 <> [] -> krank K1 = R ->
  (forall A, In A (kfactors K1) -> signed_copy q0 q1 Qcmult Qcopp B m R A) ->
  forall i, qden_k (k_symmetrize_core q0 q1 Qcplus Qcmult Qcopp Qcinv q_neg K1) i = qden_k K1 i.
Proof. exact qk_symmetrize_core_keeps. Qed.
Print Assumptions C08_symmetrize_keeps_Qc.

(* non-vacuity: order 3, rank 2, factors B.diag(1,-1), B.diag(-1,-1), B with B = [[1 2];[3 -1]] (signs scrambled, not identical),
   weights (2, -3): both transliterations return the same Kruskal tensor, entry by entry, and it denotes the same array *)
Example C08_example_symmetrize_bridge :
  let z := fun n : Z => Q2Qc (inject_Z n) in
  let K := mkK [z 2; z (-3)]%Z [[[z 1; z (-2)]; [z 3; z 1]]; [[z (-1); z (-2)]; [z (-3); z 1]]; [[z 1; z 2]; [z 3; z (-1)]]]%Z in
  qk_eqb (k_symmetrize_core q0 q1 Qcplus Qcmult Qcopp Qcinv q_neg K) (q_k15_core K) = true /\
  q_mats_identical (kfactors K) = false /\
  q_mats_identical (kfactors (k_symmetrize_core q0 q1 Qcplus Qcmult Qcopp Qcinv q_neg K)) = true /\
  qk_den_eqb [2; 2; 2] K (k_symmetrize_core q0 q1 Qcplus Qcmult Qcopp Qcinv q_neg K) = true /\
  Qc_eq_bool (qden_k K [0; 1; 0]) (z 6%Z) = true /\ Qc_eq_bool (qden_k K [1; 1; 1]) (z (-51)%Z) = true.
Proof. vm_compute. repeat split; reflexivity. Qed.
