(* Proofs/C06KInner2.v — wave 5: sptensor.innerprod with a Kruskal operand (Model/C06W4.v impl_innerprod_sp_k: per component a
   sptensor.ttv over ALL modes with the component's factor columns, accumulated with the weights — what ktensor.innerprod does) IS the
   defining sum Σ_i S(i) * K(i) over all subscripts of the shape.  Composition of C02's impl_ttv_sp_correct and innerprod_k_any.
   Values: any commutative ring. *)
From Coq Require Import List Arith Lia Bool Permutation Ring.
From PV Require Import Base.Index Base.Perm Base.Sum Np.Array Model.Sparse Model.Repr Model.C03Ops Model.C06Ops Model.C02Spec Model.C02SpMore Model.C06W4
                       Proofs.C02SparseProofs Proofs.C02IndicatorProofs Proofs.C02KruskalAnyProofs.
Import ListNotations.

Section KInner2.
Variable V : Type.
Variables (v0 v1 : V) (vadd vmul vsub : V -> V -> V) (vopp : V -> V).
Hypothesis Vring : ring_theory v0 v1 vadd vmul vsub vopp (@eq V).
Variable isz : V -> bool.
Add Ring VringC06KInner2 : Vring.

Lemma fold_left_acc_sum {A} (f : A -> V) (l : list A) (a : V) :
  fold_left (fun acc r => vadd acc (f r)) l a = vadd a (sum_over v0 vadd l f).
Proof.
  revert a. induction l as [|x l IH]; intros a; cbn [fold_left].
  - rewrite sum_over_nil. ring.
  - rewrite IH, sum_over_cons. ring.
Qed.

Theorem innerprod_sp_k_correct (S : sparse V) (K : ktensor V) : wf_sp isz S -> sshape S = kshape K ->
  impl_innerprod_sp_k v0 v1 vadd vmul S K = spec_innerprod v0 vadd vmul (den_sp v0 S) (den_k v0 v1 vadd vmul K) (sshape S).
Proof.
  intros W Hs. unfold impl_innerprod_sp_k. rewrite fold_left_acc_sum.
  assert (HN : length (sshape S) = length (kfactors K)) by (rewrite Hs; unfold kshape; apply map_length).
  assert (E : spec_innerprod v0 vadd vmul (den_sp v0 S) (den_k v0 v1 vadd vmul K) (sshape S) =
              spec_innerprod v0 vadd vmul (den_sp v0 S) (den_k v0 v1 vadd vmul K) (kshape K)) by (now rewrite Hs).
  rewrite E. rewrite <- (innerprod_k_any V v0 v1 vadd vmul vsub vopp Vring K (den_sp v0 S)). unfold sum_n.
  transitivity (sum_over v0 vadd (seq 0 (krank K))
                  (fun r => vmul (nth r (kweights K) v0)
                     (impl_ttv_sp v0 v1 vadd vmul S (seq 0 (length (kfactors K))) (C06W4.kcols v0 (kfactors K) r) []))); [ring|].
  apply sum_over_ext. intros r _. f_equal.
  rewrite (impl_ttv_sp_correct V v0 v1 vadd vmul vsub vopp Vring isz S _ _ [] W).
  - rewrite Hs. reflexivity.
  - apply seq_NoDup.
  - intros x Hx. apply in_seq in Hx. lia.
  - unfold C06W4.kcols. now rewrite map_length, seq_length.
  - unfold ttv_shape. rewrite HN, compl_all. reflexivity.
Qed.
End KInner2.
