(* Model/W4Sptensor.v — hand references for the sptensor methods that the translator generates into Gen/GenSptensor4.v
   (ones, permute, subdims) on the record sptz of Np/NpZ3.v, and the conversion to the shared sparse record of
   Model/Sparse.v (nat-indexed; Model/C07Ops.v defines permute_sp there). *)
From Coq Require Import List ZArith Arith Bool Lia.
From PV Require Import Base.Index Base.Perm Np.NpZ Np.NpZ2 Np.NpZ3 Np.NpZ3c Np.NpZ3d Np.NpZ3e Np.NpZ4 Np.NpZ4b Model.Sparse Model.W4Ktensor.
Import ListNotations.
Local Open Scope Z_scope.

(* sptensor.ones(): same pattern, every stored value 1 *)
Definition H_sp_ones (self : sptz) : res sptz :=
  let v := map (fun _ => 1) (spt_vals self) in
  if spt_make_ok (spt_subs self) v (spt_shape self) then Ok (mkspt (spt_subs self) v (spt_shape self)) else Err.

(* sptensor.permute(order): order a permutation of range(ndims); subs[:, order] (kept as it is when nothing is stored),
   vals unchanged, shape[order] *)
Definition H_sp_permute (self : sptz) (order : vec) : res sptz :=
  let n := zlen (spt_shape self) in
  if (n =? zlen order) && zlist_eqb (np_sort order) (np_arange 0 n) then
    let shp := np_take 0 (spt_shape self) order in
    if np_size2 (spt_subs self) =? 0 then
      (if np_take_ok (spt_shape self) order && spt_make_ok (spt_subs self) (spt_vals self) shp
       then Ok (mkspt (spt_subs self) (spt_vals self) shp) else Err)
    else
      (if np_cols_ok (spt_subs self) order && np_take_ok (spt_shape self) order
          && spt_make_ok (np_cols (spt_subs self) order) (spt_vals self) shp
       then Ok (mkspt (np_cols (spt_subs self) order) (spt_vals self) shp) else Err)
  else Err.

(* sptensor.subdims(region): positions of the stored subscripts lying in the region.  One key per mode: an int (that
   index), a list / array (those indices), a slice (range(size)[slice]); anything else raises ValueError — unless the
   tensor stores nothing (then the answer is empty before the keys are looked at) *)
Definition H_key_ok (shape : vec) (i : Z) (x : pyidx) : bool :=
  match x with
  | IxInt _ | IxSeq _ | IxArr _ => true
  | IxSlice s => idx_ok shape i && slice_ok s
  | IxNone => false
  end.
Definition H_key_sel (shape : vec) (i : Z) (x : pyidx) (s : Z) : bool :=
  match x with
  | IxInt k => s =? k
  | IxSeq l | IxArr l => zmem s l
  | IxSlice sl => zmem s (py_slice 0 (np_arange 0 (znth 0 shape i)) sl)
  | IxNone => false
  end.
Definition H_row_in (self : sptz) (region : list pyidx) (l : Z) : bool :=
  forallb (fun i => H_key_sel (spt_shape self) i (znth IxNone region i) (znth 0 (znth [] (spt_subs self) l) i))
          (np_arange 0 (zlen (spt_shape self))).
Definition H_subdims (self : sptz) (region : list pyidx) : res vec :=
  let n := zlen (spt_shape self) in
  if negb (zlen region =? n) then Err
  else if np_size2 (spt_subs self) =? 0 then Ok []
  else if forallb (fun i => H_key_ok (spt_shape self) i (znth IxNone region i) && np_col_ok (spt_subs self) i) (np_arange 0 n)
       then Ok (filter (H_row_in self region) (np_arange 0 (zlen (spt_subs self))))
       else Err.

(* ---- conversion to the shared sparse record (for tensors with stored entries) ---- *)
Definition to_Sp (t : sptz) : sparse Z := mkSp (nats (spt_shape t)) (map nats (spt_subs t)) (spt_vals t).
