(* Proofs/C11Mass.v — the "- sum m" term of the CP-APR objective: after 1-norm normalisation with the weights absorbed into
   mode 0 (unit weights, unit column sums in the other modes) the total mass of the model is the sum of factor 0's columns. *)
From Coq Require Import List Arith Lia Bool Ring.
From PV Require Import Base.Index Base.Sum Np.Array Model.Sparse Model.Repr Model.C14Nvecs Proofs.C14Sums.
Import ListNotations.

Section Mass.
Variable V : Type.
Variables (v0 v1 : V) (vadd vmul vsub : V -> V -> V) (vopp : V -> V).
Hypothesis Vring : ring_theory v0 v1 vadd vmul vsub vopp (@eq V).
Add Ring Vr11 : Vring.

Lemma prodv_ones (l : list V) : Forall (fun x => x = v1) l -> prodv v1 vmul l = v1.
Proof. induction 1 as [|x l Hx _ IH]; cbn; [reflexivity|]. rewrite Hx, IH. ring. Qed.

Theorem mass_factor0 (w : list V) (A0 : list (list V)) (rest : list (list (list V))) :
  (forall r, r < length w -> nth r w v0 = v1) ->
  (forall A r, In A rest -> r < length w -> colsum V v0 vadd A r = v1) ->
  sum_over v0 vadd (allsubs (kshape (mkK w (A0 :: rest)))) (den_k v0 v1 vadd vmul (mkK w (A0 :: rest))) =
  sum_n v0 vadd (length w) (fun r => colsum V v0 vadd A0 r).
Proof.
  intros Hw Hc. rewrite (mass_identity V v0 v1 vadd vmul vsub vopp Vring).
  apply sum_n_ext. intros r Hr. cbn [kweights kfactors map prodv]. unfold krank in Hr. cbn in Hr.
  rewrite Hw by auto. rewrite prodv_ones; [ring|].
  apply Forall_forall. intros x Hx. apply in_map_iff in Hx. destruct Hx as (A & <- & HA). now apply Hc.
Qed.
End Mass.
