(* Proofs/C06Proofs.v — canonical form, order independence as a corollary of denotational correctness. *)
From Coq Require Import List Arith Lia Bool Permutation ZArith.
From PV Require Import Base.Index Np.NpZ Np.Array Gen.GenUtils Model.Sparse Model.Harness Model.C03Ops Model.C03AsIs Model.C06Ops
                       Proofs.C03Lemmas Proofs.C03Proofs Proofs.C03AsIsProofs.
Import ListNotations.

Section C06.
Context {V : Type} (v0 : V) (isz : V -> bool).
Hypothesis isz_spec : forall v, isz v = true <-> v = v0.
Notation den := (den_sp v0).
Notation wf := (wf_sp isz).
Notation canon := (canon v0 isz).

Lemma wf_bounds (S : sparse V) : wf S -> Forall (fun j => inb (sshape S) j = true) (ssubs S).
Proof. now intros (_ & _ & H & _). Qed.

(* canon is well-formed, denotes the same array, and is a re-ordering of the stored entries *)
Theorem canon_wf (S : sparse V) : wf (canon S).
Proof. apply to_sptensor_wf. apply wf_full. Qed.

Theorem canon_den (S : sparse V) i : wf S -> den (canon S) i = den S i.
Proof.
  intros W. unfold C06Ops.canon. rewrite (den_to_sptensor v0 isz isz_spec) by apply wf_full.
  apply den_full. now apply wf_bounds.
Qed.

Theorem canon_perm (S : sparse V) : wf S -> Permutation (entries S) (entries (canon S)).
Proof.
  intros W. apply (canon_unique v0 isz isz_spec); auto using canon_wf.
  intros i. symmetry. now apply canon_den.
Qed.

(* two well-formed tensors of one shape that denote the same array have THE SAME canonical form *)
Theorem canon_eq (X Y : sparse V) : wf X -> wf Y -> sshape X = sshape Y ->
  (forall i, inb (sshape X) i = true -> den X i = den Y i) -> canon X = canon Y.
Proof.
  intros WX WY Hs E. unfold C06Ops.canon. f_equal. apply (dense_ext v0); auto using wf_full.
  intros i Hi. cbn [dshape full] in Hi. rewrite !den_full by (now apply wf_bounds). now apply E.
Qed.

Theorem canon_of_perm (X Y : sparse V) : wf X -> wf Y -> sshape X = sshape Y ->
  Permutation (entries X) (entries Y) -> canon X = canon Y.
Proof.
  intros WX WY Hs HP. apply canon_eq; auto. intros i _. apply den_perm; auto. now apply wf_sp_struct.
Qed.

(* order independence of ANY binary operation that is denotationally correct *)
Theorem order_indep2 (op : sparse V -> sparse V -> sparse V) (f : V -> V -> V) :
  (forall A B, wf A -> wf B -> sshape B = sshape A ->
     wf (op A B) /\ sshape (op A B) = sshape A /\
     forall i, inb (sshape A) i = true -> den (op A B) i = f (den A i) (den B i)) ->
  forall A A' B B', wf A -> wf A' -> wf B -> wf B' ->
    sshape A' = sshape A -> sshape B = sshape A -> sshape B' = sshape A ->
    Permutation (entries A) (entries A') -> Permutation (entries B) (entries B') ->
    canon (op A B) = canon (op A' B') /\ Permutation (entries (op A B)) (entries (op A' B')).
Proof.
  intros Hop A A' B B' WA WA' WB WB' SA SB SB' PA PB.
  destruct (Hop A B WA WB SB) as (W1 & S1 & D1).
  destruct (Hop A' B' WA' WB') as (W2 & S2 & D2); [congruence|].
  assert (E : forall i, inb (sshape (op A B)) i = true -> den (op A B) i = den (op A' B') i).
  { intros i Hi. rewrite S1 in Hi. rewrite D1 by auto. rewrite D2 by (now rewrite SA).
    rewrite (den_perm v0 A A' (wf_sp_struct isz A WA) PA i).
    now rewrite (den_perm v0 B B' (wf_sp_struct isz B WB) PB i). }
  split.
  - apply canon_eq; auto. congruence.
  - apply (canon_unique v0 isz isz_spec); auto. intros i.
    destruct (inb (sshape (op A B)) i) eqn:Hi; [now apply E|].
    rewrite (den_out v0 (op A B) i) by (auto using wf_sp_struct).
    rewrite (den_out v0 (op A' B') i); auto using wf_sp_struct. congruence.
Qed.

Theorem order_indep1 (op : sparse V -> sparse V) (g : V -> V) :
  (forall A, wf A -> wf (op A) /\ sshape (op A) = sshape A /\
     forall i, inb (sshape A) i = true -> den (op A) i = g (den A i)) ->
  forall A A', wf A -> wf A' -> sshape A' = sshape A -> Permutation (entries A) (entries A') ->
    canon (op A) = canon (op A') /\ Permutation (entries (op A)) (entries (op A')).
Proof.
  intros Hop A A' WA WA' SA PA.
  destruct (Hop A WA) as (W1 & S1 & D1). destruct (Hop A' WA') as (W2 & S2 & D2).
  assert (E : forall i, inb (sshape (op A)) i = true -> den (op A) i = den (op A') i).
  { intros i Hi. rewrite S1 in Hi. rewrite D1 by auto. rewrite D2 by (now rewrite SA).
    now rewrite (den_perm v0 A A' (wf_sp_struct isz A WA) PA i). }
  split.
  - apply canon_eq; auto. congruence.
  - apply (canon_unique v0 isz isz_spec); auto. intros i.
    destruct (inb (sshape (op A)) i) eqn:Hi; [now apply E|].
    rewrite (den_out v0 (op A) i) by (auto using wf_sp_struct).
    rewrite (den_out v0 (op A') i); auto using wf_sp_struct. congruence.
Qed.

End C06.

(* the code as it is: sptensor.__mul__ (sparse, sparse) depends on the stored order (finding A-06) *)
Local Open Scope Z_scope.
Definition wA' : sparse Z := mkSp [2; 2]%nat [[0; 0]; [1; 1]]%nat [2; 3].
Theorem mul_asis_order_dependent :
  Permutation (entries wA) (entries wA') /\
  exists R R', impl_mul_asis wA wB = Ok R /\ impl_mul_asis wA' wB = Ok R' /\ zden_sp R [0; 0]%nat <> zden_sp R' [0; 0]%nat.
Proof.
  split; [apply perm_swap|]. eexists; eexists. split; [reflexivity|]. split; [reflexivity|]. vm_compute. discriminate.
Qed.
