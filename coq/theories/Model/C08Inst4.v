(* Model/C08Inst4.v — wave 4: Qc / Z instances of the literal column loops of normalize and fixsigns() (Model/C08Loop2.v, with the
   sign / absorb / sort steps of Proofs/C08Loop2.py_normalize) for the generated cases: pyttb is compared with the LOOP and the loop
   with the vectorised model exactly. *)
From Coq Require Import List ZArith QArith Qabs Qcanon Bool Arith.
From PV Require Import Base.Index Base.Perm Base.Sum Np.Array Model.Sparse Model.Repr Model.Harness Model.C08Kruskal
  Model.C08Inst Model.C08More Model.C08Inst2 Model.C08Loop Model.C08Inst3 Model.C08Loop2 Proofs.C08Loop2.
Import ListNotations.

Definition qk_py_normalize (t : nat) (wf : wfac) (sort : bool) (mode : option nat) (K : ktensor Qc) : ktensor Qc :=
  py_normalize Qc q0 q1 Qcmult Qcopp Qcinv (q_norm t) q_pos q_neg (q_root (length (kfactors K))) (argsort_desc qleb) wf sort mode K.
Definition zk_py_fixsigns := @py_fixsigns Z 0%Z Z.opp z_negcol.
Definition qk_py_fixsigns := @py_fixsigns Qc q0 Qcopp q_negcol.
