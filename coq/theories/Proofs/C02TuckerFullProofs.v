(* Proofs/C02TuckerFullProofs.v — a tensor-times-matrix in EVERY mode is the full contraction with the factor product; from it
   ttensor.full (= the array the Tucker tensor denotes), ttensor.innerprod with a dense tensor and ttensor.norm()^2, each on both
   sides of its size switch, equal their defining sums; all shapes, core sizes and values of a commutative ring. *)
From Coq Require Import List Arith Lia Bool Permutation Ring.
From PV Require Import Base.Index Base.Perm Base.Sum Np.Array Model.Sparse Model.Repr Model.C02Spec Model.C02Dense Model.C02Modes
                       Model.C02Tucker Model.C02TuckerFull
                       Proofs.C02DenseProofs Proofs.C02MttkrpProofs Proofs.C02KruskalProofs Proofs.C02ModesProofs
                       Proofs.C02TenmatProofs Proofs.C02PermProofs Proofs.C02TuckerProofs.
Import ListNotations.

Section P.
Variable V : Type.
Variables (v0 v1 : V) (vadd vmul vsub : V -> V -> V) (vopp : V -> V).
Hypothesis Vring : ring_theory v0 v1 vadd vmul vsub vopp (@eq V).
Add Ring Vr15 : Vring.

Local Notation "x + y" := (vadd x y).
Local Notation "x * y" := (vmul x y).
Local Notation Sn := (sum_n v0 vadd).
Local Notation So := (sum_over v0 vadd).
Local Notation tp := (tprod v0 v1 vmul).
Local Notation dent := (den_t v0 v1 vadd vmul).
Local Notation den := (den_dense v0).

(* the coefficient product: transposed products sum over the ROW subscript of every factor, plain ones over the column subscript *)
Definition cT (tr : bool) (Us : list (@matrix V)) (a i : idx) : V := if tr then tp Us a i else tp Us i a.

Lemma ttm_all_gen tr : forall (Us : list (@matrix V)) (Js : list nat) (f : idx -> V) (pre_s rest_s : shape) (pre i : idx),
  length Js = length Us -> length rest_s = length Us -> length pre = length pre_s -> length i = length Us ->
  spec_ttm_list v0 vadd vmul f (pre_s ++ rest_s) (combine (seq (length pre_s) (length Us)) (combine Js Us)) tr (pre ++ i) =
  So (allsubs rest_s) (fun a => f (pre ++ a) * cT tr Us a i).
Proof.
  induction Us as [|U Us IH]; intros [|J Js] f pre_s [|d rest] pre [|y i] HJ HR HP HI; cbn [length] in *; try lia.
  - cbn [seq combine spec_ttm_list]. cbn. unfold cT. destruct tr; cbn; ring.
  - cbn [seq combine spec_ttm_list].
    rewrite <- HP at 1. rewrite upd_app_mid.
    replace (pre_s ++ J :: rest) with ((pre_s ++ [J]) ++ rest) by (now rewrite <- app_assoc).
    replace (pre ++ y :: i) with ((pre ++ [y]) ++ i) by (now rewrite <- app_assoc).
    replace (S (length pre_s)) with (length (pre_s ++ [J])) by (rewrite app_length; cbn; lia).
    rewrite IH by (try lia; rewrite !app_length; cbn; lia).
    rewrite (sum_allsubs_cons V v0 v1 vadd vmul vsub vopp Vring).
    transitivity (So (allsubs rest) (fun a' => Sn d (fun x => f (pre ++ x :: a') * cT tr (U :: Us) (x :: a') (y :: i)))).
    2:{ unfold sum_n. apply (sum_over_swap _ _ _ _ _ _ _ Vring). }
    apply sum_over_ext. intros a' _. unfold spec_ttm.
    rewrite <- app_assoc. cbn [app].
    rewrite !app_nth2 by lia. rewrite Nat.sub_diag. replace (Nat.sub (length pre) (length pre_s)) with 0 by lia. cbn [nth].
    unfold sum_n. rewrite <- (sum_over_scale_r _ _ _ _ _ _ _ Vring). apply sum_over_ext. intros x _.
    rewrite upd_app_mid. unfold cT. destruct tr; cbn [tprod]; ring.
Qed.

(* every mode, from position 0 *)
Lemma ttm_all tr (Us : list (@matrix V)) (Js : list nat) (f : idx -> V) (s : shape) (i : idx) :
  length Js = length Us -> length s = length Us -> length i = length Us ->
  spec_ttm_list v0 vadd vmul f s (all_modes Js Us) tr i = So (allsubs s) (fun a => f a * cT tr Us a i).
Proof. intros HJ HS HI. exact (ttm_all_gen tr Us Js f [] s [] i HJ HS eq_refl HI). Qed.

Lemma ttm_all_shape_gen : forall (Us : list (@matrix V)) (Js : list nat) (pre rest : shape),
  length Js = length Us -> length rest = length Us ->
  ttm_list_shape (pre ++ rest) (combine (seq (length pre) (length Us)) (combine Js Us)) = pre ++ Js.
Proof.
  induction Us as [|U Us IH]; intros [|J Js] pre [|d rest] HJ HR; cbn [length] in *; try lia; [reflexivity|].
  cbn [seq combine ttm_list_shape]. rewrite upd_app_mid.
  replace (pre ++ J :: rest) with ((pre ++ [J]) ++ rest) by (now rewrite <- app_assoc).
  replace (S (length pre)) with (length (pre ++ [J])) by (rewrite app_length; cbn; lia).
  rewrite IH by lia. now rewrite <- app_assoc.
Qed.

Lemma ttm_all_shape (Us : list (@matrix V)) Js s : length Js = length Us -> length s = length Us ->
  ttm_list_shape s (all_modes Js Us) = Js.
Proof. intros HJ HS. exact (ttm_all_shape_gen Us Js [] s HJ HS). Qed.

Lemma all_modes_range (Us : list (@matrix V)) Js n : n = length Us ->
  Forall (fun p : nat * (nat * @matrix V) => fst p < n) (all_modes Js Us).
Proof.
  intros ->. apply Forall_forall. intros [k JU] H. unfold all_modes in H. apply in_combine_l in H.
  apply in_seq in H. cbn [fst]. lia.
Qed.

(* ---- ttensor.full(): core.ttm(factors) is the array the Tucker tensor denotes ---- *)
Theorem impl_full_t_correct (T : ttensor V) :
  wf_dense (tcore T) -> length (dshape (tcore T)) = length (tfactors T) ->
  let Y := impl_full_t v0 vadd vmul T in
  dshape Y = tshape T /\ wf_dense Y /\ forall i, inb (tshape T) i = true -> den Y i = dent T i.
Proof.
  intros W HC. unfold impl_full_t.
  set (Us := tfactors T) in *. set (cs := dshape (tcore T)) in *.
  assert (HJ : length (map (@nrows V) Us) = length Us) by (now rewrite map_length).
  destruct (ttm_seq_correct V v0 vadd vmul (all_modes (map (@nrows V) Us) Us) (tcore T) false W
              (all_modes_range Us _ _ HC)) as (S1 & W1 & D1).
  fold cs in S1, D1. rewrite (ttm_all_shape Us _ cs HJ HC) in S1, D1.
  cbn zeta. split; [exact S1|]. split; [exact W1|].
  intros i Hi. change (map (@nrows V) Us) with (tshape T) in D1. rewrite D1 by exact Hi.
  rewrite ttm_all; auto.
  2:{ apply inb_length in Hi. unfold tshape in Hi. now rewrite map_length in Hi. }
  unfold den_t. rewrite Hi. reflexivity.
Qed.

(* ---- ttensor.innerprod(tensor), both sides of the size switch ---- *)
Theorem impl_innerprod_t_dense_correct (T : ttensor V) (X : dense V) :
  wf_dense (tcore T) -> length (dshape (tcore T)) = length (tfactors T) -> wf_dense X -> dshape X = tshape T ->
  impl_innerprod_t_dense v0 vadd vmul T X = spec_innerprod v0 vadd vmul (dent T) (den X) (tshape T).
Proof.
  intros W HC WX HS. unfold impl_innerprod_t_dense.
  set (Us := tfactors T) in *. set (cs := dshape (tcore T)) in *.
  assert (HN : length (tshape T) = length Us) by (unfold tshape; now rewrite map_length).
  destruct (size (tshape T) <? size cs).
  - destruct (impl_full_t_correct T W HC) as (S1 & W1 & D1).
    rewrite (impl_innerprod_dense_correct V v0 vadd vmul _ X W1 WX) by congruence.
    rewrite S1. unfold spec_innerprod. apply sum_over_ext. intros i Hi. apply in_allsubs in Hi. now rewrite D1.
  - assert (HF : Forall (fun p : nat * (nat * @matrix V) => fst p < length (dshape X)) (all_modes cs Us)).
    { apply all_modes_range. rewrite HS. exact HN. }
    destruct (ttm_seq_correct V v0 vadd vmul (all_modes cs Us) X true WX HF) as (S1 & W1 & D1).
    rewrite HS in S1, D1. rewrite (ttm_all_shape Us cs (tshape T) HC HN) in S1, D1.
    rewrite (impl_innerprod_dense_correct V v0 vadd vmul _ (tcore T) W1 W) by exact S1.
    rewrite S1. unfold spec_innerprod.
    transitivity (So (allsubs cs) (fun c => So (allsubs (tshape T)) (fun a => den X a * tp Us a c * den (tcore T) c))).
    { apply sum_over_ext. intros c Hc. apply in_allsubs in Hc. rewrite D1 by exact Hc.
      rewrite ttm_all; auto.
      - unfold cT. now rewrite (sum_over_scale_r _ _ _ _ _ _ _ Vring).
      - apply inb_length in Hc. fold cs in Hc. lia. }
    rewrite (sum_over_swap _ _ _ _ _ _ _ Vring). apply sum_over_ext. intros a Ha. apply in_allsubs in Ha.
    unfold den_t. rewrite Ha. fold cs Us. rewrite <- (sum_over_scale_r _ _ _ _ _ _ _ Vring).
    apply sum_over_ext. intros c _. ring.
Qed.

(* ---- ttensor.norm()^2, both sides of the size switch ---- *)
Lemma sum_tprod_tprod : forall (As Cs : list (@matrix V)) (c a : idx),
  length Cs = length As -> length c = length As -> length a = length As ->
  (forall k, k < length As -> mget v0 (nth k Cs []) (nth k c 0) (nth k a 0) =
     Sn (nrows (nth k As [])) (fun x => mget v0 (nth k As []) x (nth k c 0) * mget v0 (nth k As []) x (nth k a 0))) ->
  So (allsubs (map (@nrows V) As)) (fun j => tp As j c * tp As j a) = tp Cs c a.
Proof.
  induction As as [|A As IH]; intros [|C Cs] [|y c] [|z a] HCs Hc Ha H; cbn [length] in *; try lia.
  - cbn. ring.
  - cbn [map]. rewrite (sum_allsubs_cons V v0 v1 vadd vmul vsub vopp Vring).
    cbn [tprod]. pose proof (H 0 ltac:(lia)) as H0. cbn [nth] in H0. rewrite H0.
    rewrite <- (IH Cs c a) by (try lia; intros k Hk; apply (H (S k)); lia).
    unfold nrows at 1. unfold sum_n. rewrite <- (sum_over_scale_r _ _ _ _ _ _ _ Vring).
    apply sum_over_ext. intros x _. rewrite <- (sum_over_scale_l _ _ _ _ _ _ _ Vring).
    apply sum_over_ext. intros j _. cbn [tprod]. ring.
Qed.

Theorem impl_normsq_t_correct (T : ttensor V) :
  wf_dense (tcore T) -> length (dshape (tcore T)) = length (tfactors T) ->
  impl_normsq_t v0 vadd vmul T = spec_normsq v0 vadd vmul (dent T) (tshape T).
Proof.
  intros W HC. unfold impl_normsq_t.
  set (Us := tfactors T) in *. set (cs := dshape (tcore T)) in *.
  assert (HN : length (tshape T) = length Us) by (unfold tshape; now rewrite map_length).
  destruct (size cs <? size (tshape T)).
  - set (G := fun Uc : @matrix V * nat => mm v0 vadd vmul (fst Uc) (fst Uc) (snd Uc) (nrows (fst Uc)) (snd Uc) true).
    set (Vs := map G (combine Us cs)).
    assert (HLV : length Vs = length Us) by (unfold Vs; rewrite map_length, combine_length, HC; apply Nat.min_id).
    assert (HnV : forall k, k < length Us -> nth k Vs [] = G (nth k Us [], nth k cs 0)).
    { intros k Hk. unfold Vs. rewrite (nth_indep _ [] (G ([], 0))) by (rewrite map_length, combine_length, HC, Nat.min_id; exact Hk).
      rewrite (map_nth G). now rewrite combine_nth by (symmetry; exact HC). }
    assert (HF : Forall (fun p : nat * (nat * @matrix V) => fst p < length (dshape (tcore T))) (all_modes cs Vs)).
    { apply all_modes_range. fold cs. lia. }
    destruct (ttm_seq_correct V v0 vadd vmul (all_modes cs Vs) (tcore T) false W HF) as (S1 & W1 & D1).
    fold cs in S1, D1. rewrite (ttm_all_shape Vs cs cs ltac:(lia) ltac:(lia)) in S1, D1.
    rewrite (impl_innerprod_dense_correct V v0 vadd vmul _ (tcore T) W1 W) by exact S1.
    rewrite S1. unfold spec_innerprod, spec_normsq.
    transitivity (So (allsubs cs) (fun c => So (allsubs cs) (fun a => den (tcore T) a * tp Vs c a * den (tcore T) c))).
    { apply sum_over_ext. intros c Hc. apply in_allsubs in Hc. rewrite D1 by exact Hc.
      rewrite ttm_all; auto; try lia.
      - unfold cT. now rewrite (sum_over_scale_r _ _ _ _ _ _ _ Vring).
      - apply inb_length in Hc. lia. }
    transitivity (So (allsubs (tshape T)) (fun i => So (allsubs cs) (fun c => So (allsubs cs)
                    (fun a => den (tcore T) a * (tp Us i c * tp Us i a) * den (tcore T) c)))).
    2:{ apply sum_over_ext. intros i Hi. apply in_allsubs in Hi. unfold den_t. rewrite Hi. fold cs Us.
        rewrite <- (sum_over_scale_l _ _ _ _ _ _ _ Vring). apply sum_over_ext. intros c _.
        rewrite <- (sum_over_scale_r _ _ _ _ _ _ _ Vring). apply sum_over_ext. intros a _. ring. }
    symmetry. rewrite (sum_over_swap _ _ _ _ _ _ _ Vring). apply sum_over_ext. intros c Hc. apply in_allsubs in Hc.
    rewrite (sum_over_swap _ _ _ _ _ _ _ Vring). apply sum_over_ext. intros a Ha. apply in_allsubs in Ha.
    rewrite <- (sum_tprod_tprod Us Vs c a).
    + unfold tshape. fold Us. rewrite <- (sum_over_scale_l _ _ _ _ _ _ _ Vring), <- (sum_over_scale_r _ _ _ _ _ _ _ Vring). reflexivity.
    + exact HLV.
    + apply inb_length in Hc. lia.
    + apply inb_length in Ha. lia.
    + intros k Hk. rewrite HnV by exact Hk. unfold G. cbn [fst snd]. apply mget_mm.
      * apply c02_inb_nth in Hc as [_ Hkk]. apply Hkk. lia.
      * apply c02_inb_nth in Ha as [_ Hkk]. apply Hkk. lia.
  - destruct (impl_full_t_correct T W HC) as (S1 & W1 & D1).
    rewrite (impl_normsq_dense_correct V v0 vadd vmul _ W1). rewrite S1.
    unfold spec_normsq, spec_innerprod. apply sum_over_ext. intros i Hi. apply in_allsubs in Hi. now rewrite D1.
Qed.

(* ---- ttensor.innerprod(ttensor) ---- *)
Lemma sum_tprod_tprod2 : forall (As Bs Cs : list (@matrix V)) (c a : idx),
  length Bs = length As -> length Cs = length As -> length c = length As -> length a = length As ->
  (forall k, k < length As -> mget v0 (nth k Cs []) (nth k c 0) (nth k a 0) =
     Sn (nrows (nth k As [])) (fun x => mget v0 (nth k As []) x (nth k c 0) * mget v0 (nth k Bs []) x (nth k a 0))) ->
  So (allsubs (map (@nrows V) As)) (fun j => tp As j c * tp Bs j a) = tp Cs c a.
Proof.
  induction As as [|A As IH]; intros [|B Bs] [|C Cs] [|y c] [|z a] HB HCs Hc Ha H; cbn [length] in *; try lia.
  - cbn. ring.
  - cbn [map]. rewrite (sum_allsubs_cons V v0 v1 vadd vmul vsub vopp Vring).
    cbn [tprod]. pose proof (H 0 ltac:(lia)) as H0. cbn [nth] in H0. rewrite H0.
    rewrite <- (IH Bs Cs c a) by (try lia; intros k Hk; apply (H (S k)); lia).
    unfold nrows at 1. unfold sum_n. rewrite <- (sum_over_scale_r _ _ _ _ _ _ _ Vring).
    apply sum_over_ext. intros x _. rewrite <- (sum_over_scale_l _ _ _ _ _ _ _ Vring).
    apply sum_over_ext. intros j _. cbn [tprod]. ring.
Qed.

Lemma impl_innerprod_tt_core_correct (T T' : ttensor V) :
  wf_dense (tcore T) -> wf_dense (tcore T') ->
  length (dshape (tcore T)) = length (tfactors T) -> length (dshape (tcore T')) = length (tfactors T') ->
  tshape T = tshape T' ->
  impl_innerprod_tt_core v0 vadd vmul T T' = spec_innerprod v0 vadd vmul (dent T) (dent T') (tshape T).
Proof.
  intros W W' HC HC' HS. unfold impl_innerprod_tt_core.
  set (Us := tfactors T) in *. set (Us' := tfactors T') in *.
  set (cs := dshape (tcore T)) in *. set (cs' := dshape (tcore T')) in *.
  assert (HN : length (tshape T) = length Us) by (unfold tshape; now rewrite map_length).
  assert (HN' : length Us' = length Us).
  { assert (E : length (tshape T') = length Us') by (unfold tshape; now rewrite map_length). rewrite <- HS in E. lia. }
  set (G := fun UU : @matrix V * @matrix V * (nat * nat) =>
              mm v0 vadd vmul (fst (fst UU)) (snd (fst UU)) (fst (snd UU)) (nrows (fst (fst UU))) (snd (snd UU)) true).
  set (Ws := map G (combine (combine Us Us') (combine cs cs'))).
  assert (HLW : length Ws = length Us).
  { unfold Ws. rewrite map_length, !combine_length, HC, HC', HN', !Nat.min_id. reflexivity. }
  assert (HnW : forall k, k < length Us -> nth k Ws [] = G ((nth k Us [], nth k Us' []), (nth k cs 0, nth k cs' 0))).
  { intros k Hk. unfold Ws. rewrite (nth_indep _ [] (G (([], []), (0, 0)))) by (rewrite map_length, !combine_length, HC, HC', HN', !Nat.min_id; exact Hk).
    rewrite (map_nth G). rewrite combine_nth by (rewrite !combine_length, HC, HC', HN', !Nat.min_id; reflexivity).
    rewrite (combine_nth Us Us') by (symmetry; exact HN'). rewrite (combine_nth cs cs') by (rewrite HC, HC'; symmetry; exact HN'). reflexivity. }
  assert (HF : Forall (fun p : nat * (nat * @matrix V) => fst p < length (dshape (tcore T'))) (all_modes cs Ws)).
  { apply all_modes_range. fold cs'. lia. }
  destruct (ttm_seq_correct V v0 vadd vmul (all_modes cs Ws) (tcore T') false W' HF) as (S1 & W1 & D1).
  fold cs' in S1, D1. rewrite (ttm_all_shape Ws cs cs' ltac:(lia) ltac:(lia)) in S1, D1.
  rewrite (impl_innerprod_dense_correct V v0 vadd vmul (tcore T) _ W W1) by (symmetry; exact S1).
  fold cs. unfold spec_innerprod.
  transitivity (So (allsubs cs) (fun c => So (allsubs cs') (fun a => den (tcore T) c * (den (tcore T') a * tp Ws c a)))).
  { apply sum_over_ext. intros c Hc. apply in_allsubs in Hc. rewrite D1 by exact Hc.
    rewrite ttm_all; auto; try lia.
    - unfold cT. now rewrite (sum_over_scale_l _ _ _ _ _ _ _ Vring).
    - apply inb_length in Hc. lia. }
  transitivity (So (allsubs (tshape T)) (fun i => So (allsubs cs) (fun c => So (allsubs cs')
                  (fun a => den (tcore T) c * (den (tcore T') a * (tp Us i c * tp Us' i a)))))).
  2:{ apply sum_over_ext. intros i Hi. apply in_allsubs in Hi. unfold den_t. rewrite <- HS, Hi. fold cs cs' Us Us'.
      rewrite <- (sum_over_scale_r _ _ _ _ _ _ _ Vring). apply sum_over_ext. intros c _.
      rewrite <- (sum_over_scale_l _ _ _ _ _ _ _ Vring). apply sum_over_ext. intros a _. ring. }
  symmetry. rewrite (sum_over_swap _ _ _ _ _ _ _ Vring). apply sum_over_ext. intros c Hc. apply in_allsubs in Hc.
  rewrite (sum_over_swap _ _ _ _ _ _ _ Vring). apply sum_over_ext. intros a Ha. apply in_allsubs in Ha.
  rewrite <- (sum_tprod_tprod2 Us Us' Ws c a).
  - unfold tshape. fold Us. rewrite <- !(sum_over_scale_l _ _ _ _ _ _ _ Vring). reflexivity.
  - exact HN'.
  - exact HLW.
  - apply inb_length in Hc. lia.
  - apply inb_length in Ha. lia.
  - intros k Hk. rewrite HnW by exact Hk. unfold G. cbn [fst snd]. apply mget_mm.
    + apply c02_inb_nth in Hc as [_ Hkk]. apply Hkk. lia.
    + apply c02_inb_nth in Ha as [_ Hkk]. apply Hkk. lia.
Qed.

Lemma spec_innerprod_comm (f g : idx -> V) s : spec_innerprod v0 vadd vmul f g s = spec_innerprod v0 vadd vmul g f s.
Proof. unfold spec_innerprod. apply sum_over_ext. intros i _. ring. Qed.

Theorem impl_innerprod_tt_correct (T T' : ttensor V) :
  wf_dense (tcore T) -> wf_dense (tcore T') ->
  length (dshape (tcore T)) = length (tfactors T) -> length (dshape (tcore T')) = length (tfactors T') ->
  tshape T = tshape T' ->
  impl_innerprod_tt v0 vadd vmul T T' = spec_innerprod v0 vadd vmul (dent T) (dent T') (tshape T).
Proof.
  intros W W' HC HC' HS. unfold impl_innerprod_tt.
  destruct (size (dshape (tcore T')) <? size (dshape (tcore T))).
  - rewrite impl_innerprod_tt_core_correct by auto. rewrite <- HS. apply spec_innerprod_comm.
  - now apply impl_innerprod_tt_core_correct.
Qed.

End P.
