(* Model/C16IO.v — token-level transliteration of pyttb/export_data.py and pyttb/import_data.py.
   A file is a list of lines, a line a list of tokens.  Number texts are ABSTRACT: [T] is the type of
   number texts, [print : D -> T] is what `tofile(format="%.16e")` writes for a double, [parse : T -> D]
   is what `np.fromfile(sep=" ")` / `float(str)` read.  The only thing the proofs use about them is
   [parse (print v) = v].  [export_lines b] writes subscripts with base [b]; pyttb's export_data is
   [export_lines 1] ("0-based indexing in package, 1-based indexing in file").
   Definitions only (no proofs). *)
From Coq Require Import String.
From Coq Require Import List Arith ZArith Lia Bool.
From PV Require Import Base.Index Np.Array Model.Sparse Model.Repr.
Import ListNotations.


Section IO.
Variables (D T : Type) (d0 : D) (print : D -> T) (parse : T -> D).

Inductive token := Word (s : string) | Int (z : Z) | Num (t : T).
Definition line := list token.

(* the four kinds of object export_data accepts (np.ndarray = "matrix"%string, 2-d here) *)
Inductive obj :=
| OTensor (X : dense D)
| OSptensor (Sp : sparse D)
| OKtensor (K : ktensor D)
| OMatrix (m n : nat) (A : list (list D))
| OArray (s : shape) (c : list D).

(* ------------------------------------------------------------------ numpy pieces *)
(* a.transpose() without arguments: axes reversed, result[j] = a[rev j] *)
Definition transpose_all (X : dense D) : dense D :=
  tabulate (rev (dshape X)) (fun j => den_dense d0 X (rev j)).
(* C-order (last index fastest) subscript of linear position k = F-order on the reversed shape, reversed *)
Definition ind2subC (s : shape) (k : nat) : idx := rev (ind2sub (rev s) k).
Definition sub2indC (s : shape) (i : idx) : nat := sub2ind (rev s) (rev i).
(* ndarray.tofile writes the entries in C order whatever the memory layout *)
Definition ravelC (A : dense D) : list D :=
  map (fun k => den_dense d0 A (ind2subC (dshape A) k)) (seq 0 (size (dshape A))).
(* np.reshape(v, (m, n)) of a 1-d array, C order: row i = v[i*n .. i*n+n) *)
Definition reshapeC2 (m n : nat) (l : list D) : list (list D) :=
  map (fun i => firstn n (skipn (i * n) l)) (seq 0 m).

(* ORDER 0 (/repo b512e35, repairing finding C16-N2).  pyttb has exactly one dense tensor without modes, ttb.tensor(): shape (),
   data = the 1-d array of length 0 (the constructor refuses any entry: "Empty tensor cannot contain any elements"), so it
   holds NO entry although np.prod(()) = 1: [tsize] is `np.prod(shape) if shape else 0` of import_data, [tensor_vals] what
   data.data.transpose().tofile writes, [tensor_of] what ttb.tensor(data, shape, copy=False) builds from the values read *)
Definition tsize (s : shape) : nat := match s with [] => 0 | _ => size s end.
Definition tensor_vals (X : dense D) : list D :=
  match dshape X with [] => [] | _ => ravelC (transpose_all X) end.
Definition tensor_of (s : shape) (l : list D) : dense D :=
  match s with [] => mkDense [] l | _ => np_reshapeF d0 (mkDense [size s] l) s end.
Definition wf_tensor (X : dense D) : Prop := length (ddata X) = tsize (dshape X).

(* ------------------------------------------------------------------ export_data *)
Definition zn (n : nat) : token := Int (Z.of_nat n).
Definition num (v : D) : token := Num (print v).
(* export_size: number of dimensions on one line, the sizes on the next *)
Definition size_lines (s : shape) : list line := [[zn (length s)]; map zn s].
(* export_array: data.tofile(fp, sep="\n") then print(): one value per line (an empty line when no value) *)
Definition one_per_line (l : list D) : list line :=
  match l with [] => [[]] | _ => map (fun v => [num v]) l end.
(* export_weights / one row of export_factor: tofile(sep=" ") then print() *)
Definition num_line (l : list D) : line := map num l.
(* export_sparse_array: subs[i,:] + base, then the value *)
Definition entry_line (b : Z) (e : idx * D) : line :=
  map (fun x => Int (Z.of_nat x + b)) (fst e) ++ [num (snd e)].

Definition factor_lines (R : nat) (A : list (list D)) : list line :=
  [Word "matrix"%string] :: size_lines [length A; R] ++ map num_line A.

Definition export_lines (b : Z) (o : obj) : list line :=
  match o with
  | OTensor X =>
      [Word "tensor"%string] :: size_lines (dshape X) ++ one_per_line (tensor_vals X)
  | OSptensor Sp =>
      [Word "sptensor"%string] :: size_lines (sshape Sp) ++ [zn (length (ssubs Sp))] :: map (entry_line b) (entries Sp)
  | OKtensor K =>
      [Word "ktensor"%string] :: size_lines (kshape K) ++ [zn (krank K)] :: num_line (kweights K)
        :: flat_map (factor_lines (krank K)) (kfactors K)
  | OMatrix m n A =>
      [Word "matrix"%string] :: size_lines [m; n] ++ one_per_line (concat A)
  | OArray s c =>
      [Word "matrix"%string] :: size_lines s ++ one_per_line c
  end.

Definition export (b : Z) (o : obj) : list token := concat (export_lines b o).

(* ------------------------------------------------------------------ import_data *)
Definition bindo {A B} (o : option A) (f : A -> option B) : option B :=
  match o with Some a => f a | None => None end.
Notation "x <- e ;; k" := (bindo e (fun x => k)) (at level 61, e at next level, right associativity).

Definition rd_nat (toks : list token) : option (nat * list token) :=
  match toks with
  | Int z :: r => if (0 <=? z)%Z then Some (Z.to_nat z, r) else None
  | _ => None
  end.
Fixpoint rd_nats (n : nat) (toks : list token) : option (list nat * list token) :=
  match n with
  | O => Some ([], toks)
  | S n' => p <- rd_nat toks ;; q <- rd_nats n' (snd p) ;; Some (fst p :: fst q, snd q)
  end.
(* one subscript token: np.int64(text) - index_base (negative results are not representable: rejected) *)
Definition rd_sub (b : Z) (toks : list token) : option (nat * list token) :=
  match toks with
  | Int z :: r => if (0 <=? z - b)%Z then Some (Z.to_nat (z - b), r) else None
  | _ => None
  end.
Fixpoint rd_subs (b : Z) (n : nat) (toks : list token) : option (idx * list token) :=
  match n with
  | O => Some ([], toks)
  | S n' => p <- rd_sub b toks ;; q <- rd_subs b n' (snd p) ;; Some (fst p :: fst q, snd q)
  end.
Definition rd_num (toks : list token) : option (D * list token) :=
  match toks with Num t :: r => Some (parse t, r) | _ => None end.
(* import_array: np.fromfile(fp, count=n, sep=" ") — the next n numbers, line structure ignored *)
Fixpoint rd_nums (n : nat) (toks : list token) : option (list D * list token) :=
  match n with
  | O => Some ([], toks)
  | S n' => p <- rd_num toks ;; q <- rd_nums n' (snd p) ;; Some (fst p :: fst q, snd q)
  end.
(* import_shape: the order, then that many sizes *)
Definition rd_shape (toks : list token) : option (shape * list token) :=
  p <- rd_nat toks ;; rd_nats (fst p) (snd p).
(* import_sparse_array: nz lines "subs... value" *)
Fixpoint rd_entries (b : Z) (N nz : nat) (toks : list token) : option (list idx * list D * list token) :=
  match nz with
  | O => Some ([], [], toks)
  | S nz' =>
      p <- rd_subs b N toks ;; v <- rd_num (snd p) ;; q <- rd_entries b N nz' (snd v) ;;
      Some (fst p :: fst (fst q), fst v :: snd (fst q), snd q)
  end.
(* the per-mode loop of the ktensor branch: skip the type line, shape, values, C-order reshape *)
Fixpoint rd_factors (n : nat) (toks : list token) : option (list (list (list D)) * list token) :=
  match n with
  | O => Some ([], toks)
  | S n' =>
      match toks with
      | Word _ :: r =>
          p <- rd_shape r ;;
          match fst p with
          | [m; c] =>
              v <- rd_nums (m * c) (snd p) ;; q <- rd_factors n' (snd v) ;;
              Some (reshapeC2 m c (fst v) :: fst q, snd q)
          | _ => None
          end
      | _ => None
      end
  end.

Definition import_tensor (toks : list token) : option obj :=
  p <- rd_shape toks ;; v <- rd_nums (tsize (fst p)) (snd p) ;;
  (* ttb.tensor(data, shape): F-order reshape of the 1-d array read *)
  Some (OTensor (tensor_of (fst p) (fst v))).

Definition import_sptensor (b : Z) (toks : list token) : option obj :=
  p <- rd_shape toks ;; nz <- rd_nat (snd p) ;; e <- rd_entries b (length (fst p)) (fst nz) (snd nz) ;;
  (* the sptensor constructor asserts that every subscript fits the shape *)
  if forallb (inb (fst p)) (fst (fst e)) then Some (OSptensor (mkSp (fst p) (fst (fst e)) (snd (fst e)))) else None.

Definition import_matrix (toks : list token) : option obj :=
  p <- rd_shape toks ;;
  match fst p with
  | [m; n] => v <- rd_nums (m * n) (snd p) ;; Some (OMatrix m n (reshapeC2 m n (fst v)))
  | s => v <- rd_nums (size s) (snd p) ;; Some (OArray s (fst v))     (* C-order reshape of the C-order listing *)
  end.

Definition import_ktensor (toks : list token) : option obj :=
  p <- rd_shape toks ;; r <- rd_nat (snd p) ;; w <- rd_nums (fst r) (snd r) ;;
  f <- rd_factors (length (fst p)) (snd w) ;;
  Some (OKtensor (mkK (fst w) (fst f))).

(* import_data(filename, index_base = b) *)
Definition import (b : Z) (toks : list token) : option obj :=
  match toks with
  | Word w :: r =>
      if String.eqb w "tensor"%string then import_tensor r
      else if String.eqb w "sptensor"%string then import_sptensor b r
      else if String.eqb w "matrix"%string then import_matrix r
      else if String.eqb w "ktensor"%string then import_ktensor r
      else None
  | _ => None
  end.

(* what export_data may be given: the class invariants of the four object kinds *)
Definition wf_obj (o : obj) : Prop :=
  match o with
  | OTensor X => wf_tensor X          (* = wf_dense X for every order >= 1; the tensor without modes holds no entry *)
  | OSptensor Sp =>
      length (ssubs Sp) = length (svals Sp) /\ Forall (fun i => inb (sshape Sp) i = true) (ssubs Sp)
  | OKtensor K => Forall (fun A => Forall (fun r => length r = krank K) A) (kfactors K)
  | OMatrix m n A => length A = m /\ Forall (fun r => length r = n) A
  | OArray s c => length c = size s /\ length s <> 2
  end.

End IO.

Arguments Word {T} s.
Arguments Int {T} z.
Arguments Num {T} t.
Arguments OTensor {D} X.
Arguments OSptensor {D} Sp.
Arguments OKtensor {D} K.
Arguments OMatrix {D} m n A.
Arguments OArray {D} s c.
