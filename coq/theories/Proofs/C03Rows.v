(* Proofs/C03Rows.v — bridge lemmas over the GENERATED row-set helpers tt_intersect_rows / tt_setdiff_rows /
   tt_ismember_rows (Gen/GenUtils.v, regenerated from pyttb_utils.py on every run) for DUPLICATE-FREE row lists
   (the subscript lists of well-formed sparse tensors).  Exact index contracts:

     tt_intersect_rows A B = the positions IN A of those rows of B that occur in A, listed in the order of B
     tt_setdiff_rows   A B = the positions in A of the rows of A that do not occur in B, ascending
     tt_ismember_rows  C B = for each row of C (all occurring in B) its position in B

   The only proofs that depend on the text of the generated functions are the three `..._nodup` theorems. *)
From Coq Require Import List ZArith Arith Bool Lia Permutation Sorted.
From PV Require Import Base.Index Np.NpZ Proofs.NpZProofs Proofs.UtilsProofs Gen.GenUtils Proofs.RowsProofs.
Import ListNotations.
Local Open Scope Z_scope.

(* ------------------------------------------------------------------------------------------ *)
(* sorted lists                                                                                *)
(* ------------------------------------------------------------------------------------------ *)
Lemma sorted_lt_ext (a b : vec) : StronglySorted Z.lt a -> StronglySorted Z.lt b ->
  (forall x, In x a <-> In x b) -> a = b.
Proof.
  revert b; induction a as [|x a IH]; intros [|y b] Ha Hb E.
  - reflexivity.
  - exfalso. apply (proj2 (E y)). cbn; auto.
  - exfalso. apply (proj1 (E x)). cbn; auto.
  - inversion Ha as [|? ? Ha' Hx]; subst. inversion Hb as [|? ? Hb' Hy]; subst.
    rewrite Forall_forall in Hx, Hy.
    assert (x = y).
    { destruct (proj1 (E x)) as [->|H1]; [cbn; auto|reflexivity|].
      destruct (proj2 (E y)) as [->|H2]; [cbn; auto|reflexivity|].
      specialize (Hx _ H2). specialize (Hy _ H1). lia. }
    subst y. f_equal. apply IH; auto. intros z. split; intros Hz.
    + destruct (proj1 (E z)) as [->|H1]; [cbn; auto| |auto]. specialize (Hx _ Hz). lia.
    + destruct (proj2 (E z)) as [->|H1]; [cbn; auto| |auto]. specialize (Hy _ Hz). lia.
Qed.

Lemma sorted_le_nodup_lt (a : vec) : Sorted Z.le a -> NoDup a -> StronglySorted Z.lt a.
Proof.
  intros Hs Hn. apply Sorted_StronglySorted in Hs; [|intros x y z; lia].
  induction a as [|x a IH]; [constructor|].
  inversion Hs as [|? ? Hs' Hx]; subst. inversion Hn as [|? ? Hni Hn']; subst.
  constructor; auto. rewrite Forall_forall in *. intros y Hy. specialize (Hx _ Hy).
  assert (x <> y) by (intros ->; contradiction). lia.
Qed.

Lemma seqz_sorted o n : StronglySorted Z.lt (map Z.of_nat (seq o n)).
Proof.
  revert o; induction n as [|n IH]; intros o; cbn; constructor; auto.
  rewrite Forall_forall. intros y Hy. apply in_map_iff in Hy as (k & <- & Hk). apply in_seq in Hk. lia.
Qed.

(* a list that is a permutation of 0..n-1: sorting it gives 0..n-1 *)
Lemma np_sort_iota keys n : Permutation keys (map Z.of_nat (seq 0 n)) -> np_sort keys = map Z.of_nat (seq 0 n).
Proof.
  intros HP. apply sorted_lt_ext.
  - apply sorted_le_nodup_lt; [apply np_sort_sorted|].
    eapply Permutation_NoDup; [symmetry; eapply perm_trans; [apply np_sort_perm|apply HP]|].
    apply strict_sorted_nodup, seqz_sorted.
  - apply seqz_sorted.
  - intros x. split; apply Permutation_in.
    + eapply perm_trans; [apply np_sort_perm|apply HP].
    + symmetry. eapply perm_trans; [apply np_sort_perm|apply HP].
Qed.

Lemma np_unique_iota keys n : Permutation keys (map Z.of_nat (seq 0 n)) -> np_unique keys = map Z.of_nat (seq 0 n).
Proof.
  intros HP. apply sorted_lt_ext; [apply np_unique_strict|apply seqz_sorted|].
  intros x. rewrite np_unique_in. split; apply Permutation_in; [apply HP|symmetry; apply HP].
Qed.

(* ------------------------------------------------------------------------------------------ *)
(* np.unique(m, axis=0, return_index=True) on duplicate-free rows, then [argsort(idx)]           *)
(* ------------------------------------------------------------------------------------------ *)
Definition tags (m : mat) : vec := map Z.of_nat (seq 0 (length m)).

Lemma ins_urow_perm p l : (forall q, In q l -> fst q <> fst p) -> Permutation (ins_urow p l) (p :: l).
Proof.
  induction l as [|q l IH]; intros H; cbn [ins_urow]; [apply Permutation_refl|].
  destruct (row_ltb (fst p) (fst q)); [apply Permutation_refl|].
  destruct (row_eqb (fst p) (fst q)) eqn:E.
  - apply row_eqb_spec in E. exfalso. apply (H q); cbn; auto.
  - eapply perm_trans; [apply perm_skip, IH|apply perm_swap]. intros r Hr. apply H. cbn; auto.
Qed.

Lemma urow_fold_perm (ps : list (vec * Z)) : NoDup (map fst ps) -> Permutation (fold_right ins_urow [] ps) ps.
Proof.
  induction ps as [|p ps IH]; intros Hn; cbn [fold_right]; [apply Permutation_refl|].
  cbn in Hn. inversion Hn as [|? ? Hni Hn']; subst.
  eapply perm_trans; [apply ins_urow_perm|apply perm_skip, IH; auto].
  intros q Hq Heq. apply Hni. rewrite <- Heq. apply in_map. eapply Permutation_in; [apply IH; auto|exact Hq].
Qed.

Lemma in_combine_tags (m : mat) o r z :
  In (r, z) (combine m (map Z.of_nat (seq o (length m)))) ->
  exists j, z = Z.of_nat (o + j) /\ (j < length m)%nat /\ r = nth j m [].
Proof.
  revert o; induction m as [|q m IH]; intros o H; cbn in H; [contradiction|].
  destruct H as [H|H].
  - inversion H; subst. exists 0%nat. split; [f_equal; lia|]. split; [cbn; lia|reflexivity].
  - apply IH in H as (j & -> & Hj & ->). exists (S j). split; [f_equal; lia|]. split; [cbn; lia|reflexivity].
Qed.

Lemma take_argsort_pairs (l : list (vec * Z)) (m : mat) :
  Permutation l (combine m (tags m)) -> np_take [] (map fst l) (np_argsort (map snd l)) = m.
Proof.
  intros HP. set (n := length m). set (keys := map snd l).
  assert (Hlen : length l = n).
  { rewrite (Permutation_length HP), combine_length. unfold tags. rewrite map_length, seq_length. unfold n. lia. }
  assert (HK : Permutation keys (map Z.of_nat (seq 0 n))).
  { unfold keys. eapply perm_trans; [apply Permutation_map, HP|].
    rewrite map_snd_combine; [apply Permutation_refl|]. unfold tags. now rewrite map_length, seq_length. }
  pose proof (np_sort_iota keys n HK) as Hsort. unfold np_sort in Hsort.
  unfold np_take, np_argsort. fold keys. set (s := isort_pairs (tagged keys)) in *.
  assert (Hs : Permutation s (tagged keys)) by apply isort_pairs_perm.
  assert (Hsl : length s = n).
  { rewrite (Permutation_length Hs), tagged_length. unfold keys. now rewrite map_length. }
  apply (nth_ext _ _ [] []); [now rewrite !map_length|].
  intros j Hj. rewrite !map_length, Hsl in Hj.
  rewrite (nth_indep _ [] (znth [] (map fst l) 0)) by (rewrite !map_length; lia).
  rewrite (map_nth (znth [] (map fst l))).
  rewrite (nth_indep _ 0 (snd (0, 0))) by (rewrite map_length; lia). rewrite (map_nth snd).
  destruct (nth j s (0, 0)) as [a b] eqn:Ep. cbn [snd].
  assert (Hin : In (a, b) s) by (rewrite <- Ep; apply nth_In; lia).
  assert (Ha : a = Z.of_nat j).
  { assert (E1 : nth j (map fst s) 0 = a).
    { rewrite (nth_indep _ 0 (fst (0, 0))) by (rewrite map_length; lia). rewrite (map_nth fst), Ep. reflexivity. }
    rewrite Hsort in E1. rewrite (nth_indep _ 0 (Z.of_nat 0)) in E1 by (rewrite map_length, seq_length; lia).
    rewrite map_nth, seq_nth in E1 by lia. cbn in E1. lia. }
  eapply Permutation_in in Hin; [|apply Hs].
  apply in_tagged in Hin as (k & Hk & Hb & Hf). cbn [fst snd] in Hb, Hf. subst b.
  rewrite znth_nat. unfold keys in Hk, Hf. rewrite map_length in Hk.
  rewrite (nth_indep _ [] (fst (@nil Z, 0))) by (rewrite map_length; lia). rewrite (map_nth fst).
  rewrite (nth_indep _ 0 (snd (@nil Z, 0))) in Hf by (rewrite map_length; lia). rewrite (map_nth snd) in Hf.
  unfold vec in *. destruct (nth k l (@nil Z, 0)) as [r z] eqn:Er. cbn [fst snd] in *.
  assert (Hrl : In (r, z) l) by (rewrite <- Er; apply nth_In; lia).
  eapply Permutation_in in Hrl; [|apply HP].
  unfold tags in Hrl. apply in_combine_tags in Hrl as (j' & Hz & Hj' & Hr). subst r.
  assert (j' = j) by lia. now subst j'.
Qed.

Lemma unique_rows_restore (m : mat) : NoDup m ->
  np_take [] (fst (np_unique_rows m)) (np_argsort (snd (np_unique_rows m))) = m.
Proof.
  intros Hn. unfold np_unique_rows. cbn [fst snd]. apply take_argsort_pairs. apply urow_fold_perm.
  unfold tags. rewrite map_fst_combine by (now rewrite map_length, seq_length). exact Hn.
Qed.

Lemma unique_rows_idx (m : mat) : NoDup m -> np_unique (snd (np_unique_rows m)) = tags m.
Proof.
  intros Hn. unfold np_unique_rows. cbn [snd]. apply np_unique_iota.
  eapply perm_trans; [apply Permutation_map, urow_fold_perm|].
  - rewrite map_fst_combine by (now rewrite map_length, seq_length). exact Hn.
  - rewrite map_snd_combine by (now rewrite map_length, seq_length). apply Permutation_refl.
Qed.

(* ------------------------------------------------------------------------------------------ *)
(* small facts about masks and the location function                                           *)
(* ------------------------------------------------------------------------------------------ *)
Definition loc (A : mat) (r : vec) : Z := match find_last r A with Some j => Z.of_nat j | None => -1 end.
Definition inrows (A : mat) (r : vec) : bool := is_some (find_last r A).
(* a row list the helpers treat as "has entries": either no row at all, or a positive number of cells *)
Definition okw (m : mat) : Prop := m = [] \/ 0 < np_size2 m.

Lemma np_mask_map {X Y} (f : X -> Y) (g : X -> bool) l : np_mask (map f l) (map g l) = map f (filter g l).
Proof. induction l as [|x l IH]; cbn; [reflexivity|]. destruct (g x); cbn; now rewrite IH. Qed.

Lemma np_mask_false {X} (a : list X) n : np_mask a (repeat false n) = [].
Proof. revert n; induction a as [|x a IH]; intros [|n]; cbn; auto. Qed.

Lemma filter_false {X} (l : list X) : filter (fun _ => false) l = [].
Proof. induction l; cbn; auto. Qed.

Lemma neg_full n : map (fun x_ : Z => x_ * -1) (np_full (Z.of_nat n) 1) = repeat (-1) n.
Proof. unfold np_full. rewrite Nat2Z.id. induction n as [|n IH]; cbn; [reflexivity|]. now rewrite IH. Qed.

Lemma map_const_repeat {X Y} (c : Y) (l : list X) : map (fun _ => c) l = repeat c (length l).
Proof. induction l; cbn; auto. now f_equal. Qed.

Lemma find_last_nil r : find_last r [] = None.
Proof. reflexivity. Qed.

(* tt_ismember_rows on every combination of empty / non-empty arguments *)
Theorem tt_ismember_rows_total (S T : mat) : okw S -> okw T ->
  exists matched, tt_ismember_rows S T = Ok (matched, map (loc T) S) /\
                  np_mask (map (loc T) S) matched = map (loc T) (filter (inrows T) S).
Proof.
  intros [->|HS] HT.
  - exists []. split; reflexivity.
  - destruct HT as [->|HT].
    + exists (repeat false (length S)). unfold tt_ismember_rows.
      destruct (Z.eqb_spec (np_size2 S) 0) as [E|_]; [lia|]. change (np_size2 [] =? 0) with true. cbv iota.
      unfold np_nrows, zlen. rewrite neg_full. unfold np_full. rewrite Nat2Z.id. split.
      * f_equal. f_equal. unfold loc. cbn [find_last find_last_from]. symmetry. apply map_const_repeat.
      * rewrite np_mask_false. unfold inrows. cbn [find_last find_last_from is_some]. now rewrite filter_false.
    + rewrite tt_ismember_rows_bridge by lia. unfold H_ismember. eexists. split; [reflexivity|].
      apply np_mask_map.
Qed.

Lemma okw_nil : okw [].
Proof. now left. Qed.

(* the "unique rows, first-occurrence index" preamble of both helpers *)
Lemma uniq_branch (m : mat) : NoDup m -> okw m ->
  exists U I, (if np_size2 m >? 0 then let u := np_unique_rows m in Ok (fst u, snd u) else Ok ([], [])) = Ok (U, I) /\
              np_take [] U (np_argsort I) = m /\ np_unique I = tags m.
Proof.
  intros Hn [->|Hw].
  - exists [], []. repeat split; reflexivity.
  - exists (fst (np_unique_rows m)), (snd (np_unique_rows m)).
    destruct (Z.gtb_spec (np_size2 m) 0) as [_|E]; [|lia]. split; [reflexivity|].
    split; [now apply unique_rows_restore|now apply unique_rows_idx].
Qed.

(* ------------------------------------------------------------------------------------------ *)
(* the bridges                                                                                 *)
(* ------------------------------------------------------------------------------------------ *)
Theorem tt_intersect_rows_nodup (A B : mat) : NoDup A -> NoDup B -> okw A -> okw B ->
  tt_intersect_rows A B = Ok (map (loc A) (filter (inrows A) B)).
Proof.
  intros HnA HnB HwA HwB. unfold tt_intersect_rows.
  destruct (uniq_branch A HnA HwA) as (UA & IA & EA & RA & _).
  destruct (uniq_branch B HnB HwB) as (UB & IB & EB & RB & _).
  match goal with |- bind ?x _ = _ => assert (E : x = Ok (UA, IA)) by exact EA; rewrite E; clear E end.
  cbn [bind].
  match goal with |- bind ?x _ = _ => assert (E : x = Ok (UB, IB)) by exact EB; rewrite E; clear E end.
  cbn [bind]. rewrite RA, RB.
  destruct (tt_ismember_rows_total B A HwB HwA) as (matched & E & Hm). rewrite E. cbn [bind]. now rewrite Hm.
Qed.

Theorem tt_setdiff_rows_nodup (A B : mat) : NoDup A -> NoDup B -> okw A -> okw B ->
  tt_setdiff_rows A B = Ok (filter (fun x => negb (zmem x (map (loc A) (filter (inrows A) B)))) (tags A)).
Proof.
  intros HnA HnB HwA HwB. unfold tt_setdiff_rows.
  destruct (uniq_branch A HnA HwA) as (UA & IA & EA & RA & UAI).
  destruct (uniq_branch B HnB HwB) as (UB & IB & EB & RB & _).
  match goal with |- bind ?x _ = _ => assert (E : x = Ok (UA, IA)) by exact EA; rewrite E; clear E end.
  cbn [bind].
  match goal with |- bind ?x _ = _ => assert (E : x = Ok (UB, IB)) by exact EB; rewrite E; clear E end.
  cbn [bind]. rewrite RA, RB.
  destruct (tt_ismember_rows_total B A HwB HwA) as (matched & E & Hm). rewrite E. cbn [bind].
  unfold np_setdiff1d. now rewrite Hm, UAI.
Qed.

(* ------------------------------------------------------------------------------------------ *)
(* reading the contracts: positions in a duplicate-free list                                    *)
(* ------------------------------------------------------------------------------------------ *)
Lemma find_last_some_in r A j : find_last r A = Some j -> (j < length A)%nat /\ nth j A [] = r.
Proof. intros E. pose proof (find_last_spec r A) as H. rewrite E in H. tauto. Qed.

Lemma find_last_none_notin r A : find_last r A = None -> ~ In r A.
Proof.
  intros E Hin. pose proof (find_last_spec r A) as H. rewrite E in H.
  apply (In_nth _ _ []) in Hin as (j & Hj & Hr). now apply (H j).
Qed.

Lemma find_last_nodup A j : NoDup A -> (j < length A)%nat -> find_last (nth j A []) A = Some j.
Proof.
  intros Hn Hj. destruct (find_last (nth j A []) A) as [k|] eqn:E.
  - apply find_last_some_in in E as [Hk Hr]. f_equal. now apply (proj1 (NoDup_nth A []) Hn).
  - exfalso. apply (find_last_none_notin _ _ E). now apply nth_In.
Qed.

Lemma inrows_spec A r : inrows A r = true <-> In r A.
Proof.
  unfold inrows. destruct (find_last r A) as [j|] eqn:E; cbn [is_some].
  - apply find_last_some_in in E as [Hj <-]. split; auto. intros _. now apply nth_In.
  - split; [discriminate|]. intros H. exfalso. now apply (find_last_none_notin _ _ E).
Qed.

(* A[tt_intersect_rows(A, B)] = the rows of B that occur in A, in the order of B *)
Lemma take_loc (A : mat) (C : list vec) : (forall r, In r C -> In r A) -> np_take [] A (map (loc A) C) = C.
Proof.
  intros H. unfold np_take. rewrite map_map. rewrite <- (map_id C) at 2. apply map_ext_in. intros r Hr.
  unfold loc. destruct (find_last r A) as [j|] eqn:E.
  - apply find_last_some_in in E as [Hj <-]. now rewrite znth_nat.
  - exfalso. apply (find_last_none_notin _ _ E). auto.
Qed.

Corollary intersect_rows_select (A B : mat) : NoDup A -> NoDup B -> okw A -> okw B ->
  exists idx, tt_intersect_rows A B = Ok idx /\ np_take [] A idx = filter (inrows A) B /\
              length idx = length (filter (inrows A) B) /\ (forall x, In x idx -> 0 <= x < zlen A).
Proof.
  intros HnA HnB HwA HwB. eexists. split; [now apply tt_intersect_rows_nodup|]. split; [|split].
  - apply take_loc. intros r Hr. apply filter_In in Hr as [_ Hr]. now apply inrows_spec.
  - apply map_length.
  - intros x Hx. apply in_map_iff in Hx as (r & <- & Hr). apply filter_In in Hr as [_ Hr].
    unfold inrows, loc in *. destruct (find_last r A) as [j|] eqn:E; [|discriminate].
    apply find_last_some_in in E as [Hj _]. unfold zlen. lia.
Qed.

(* the positions returned by tt_setdiff_rows, read as natural numbers *)
Lemma filter_map_comm {X Y} (f : X -> Y) (p : Y -> bool) l : filter p (map f l) = map f (filter (fun x => p (f x)) l).
Proof. induction l as [|x l IH]; cbn; [reflexivity|]. destruct (p (f x)); cbn; now rewrite IH. Qed.

Theorem setdiff_rows_positions (A B : mat) : NoDup A -> NoDup B -> okw A -> okw B ->
  tt_setdiff_rows A B =
  Ok (map Z.of_nat (filter (fun k => negb (existsb (row_eqb (nth k A [])) B)) (seq 0 (length A)))).
Proof.
  intros HnA HnB HwA HwB. rewrite tt_setdiff_rows_nodup by auto. f_equal. unfold tags.
  rewrite filter_map_comm. f_equal. apply filter_ext_in. intros k Hk. apply in_seq in Hk. f_equal.
  apply eq_true_iff_eq. rewrite zmem_spec, existsb_exists. split.
  - intros Hin. apply in_map_iff in Hin as (r & Hl & Hr). apply filter_In in Hr as [HrB Hr].
    unfold inrows, loc in *. destruct (find_last r A) as [j|] eqn:E; [|discriminate].
    apply find_last_some_in in E as [Hj Hn]. assert (j = k) by lia. subst j.
    exists r. split; auto. apply row_eqb_spec. auto.
  - intros (r & HrB & E). apply row_eqb_spec in E. subst r. apply in_map_iff. exists (nth k A []). split.
    + unfold loc. rewrite find_last_nodup by (auto; lia). reflexivity.
    + apply filter_In. split; auto. apply inrows_spec. apply nth_In. lia.
Qed.

Lemma take_positions {X} (d : X) (l : list X) (p : X -> bool) :
  np_take d l (map Z.of_nat (filter (fun k => p (nth k l d)) (seq 0 (length l)))) = filter p l.
Proof.
  unfold np_take. rewrite map_map.
  rewrite (map_ext _ (fun k => nth k l d)) by (intros k; apply znth_nat).
  induction l as [|x l IH]; [reflexivity|].
  cbn [length seq]. rewrite <- seq_shift. cbn [filter nth]. rewrite filter_map_comm.
  destruct (p x); cbn [map]; rewrite map_map; [f_equal|]; exact IH.
Qed.
