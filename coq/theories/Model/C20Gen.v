(* Model/C20Gen.v — executable models of pyttb's generators and aggregating constructors (definitions only).
   Source anchors: pyttb/tensor.py (tensor.from_function, tenones, tenzeros, tendiag, teneye),
   pyttb/sptensor.py (sptensor.from_aggregator, sptensor.from_function, sptenrand, sptendiag),
   pyttb/ktensor.py (ktensor.from_function).
   Everything random is an INPUT: the output of the user's function, the matrices of uniform draws. *)
From Coq Require Import List Arith ZArith Lia Bool.
From PV Require Import Base.Index Base.Sum Np.Array Model.Sparse Model.Repr.
Import ListNotations.

(* ---------------------------------------------------------------- rows: order, sort, unique *)
(* lexicographic order of subscript rows, first column most significant (np.unique(axis=0) order) *)
Fixpoint idx_ltb (i j : idx) : bool :=
  match i, j with
  | x :: i', y :: j' => (x <? y) || ((x =? y) && idx_ltb i' j')
  | [], _ :: _ => true
  | _, _ => false
  end.
Fixpoint ins_idx (i : idx) (l : list idx) : list idx :=
  match l with
  | [] => [i]
  | j :: r => if idx_ltb j i then j :: ins_idx i r else i :: l
  end.
Definition sort_idx (l : list idx) : list idx := fold_right ins_idx [] l.
Fixpoint dedup (l : list idx) : list idx :=
  match l with
  | [] => []
  | i :: r => if existsb (idx_eqb i) r then dedup r else i :: dedup r
  end.
(* np.unique(subs, axis=0): the distinct rows in ascending lexicographic order *)
Definition unique_rows (l : list idx) : list idx := sort_idx (dedup l).

(* the distinct rows in order of FIRST appearance (np.unique(.., return_index=True) + np.sort of the indices) *)
Definition dedup_first (l : list idx) : list idx := rev (dedup (rev l)).

Section Gen.
Context {V : Type} (v0 v1 : V) (vadd vmul : V -> V -> V) (isz : V -> bool).

(* ---------------------------------------------------------------- dense generators *)
(* np.ones(shape) / np.zeros(shape) as a logical array *)
Definition np_full (s : shape) (v : V) : dense V := mkDense s (repeat v (size s)).

(* tensor.from_function(f, shape) with out = f(shape), given as a logical array (its shape and its
   first-index-fastest listing; a 1-d vector has shape [n]): tensor(data, shape) checks the number of
   elements and reshapes in F order *)
Definition from_function (s : shape) (out : dense V) : option (dense V) :=
  if Nat.eqb (length (ddata out)) (size s) then Some (np_reshapeF v0 out s) else None.

Definition tenones (s : shape) : option (dense V) := from_function s (np_full s v1).
Definition tenzeros (s : shape) : option (dense V) := from_function s (np_full s v0).

(* ktensor.from_function(f, shape, R): weights all one, factor n = f((shape[n], R)) *)
Definition kfrom_function (R : nat) (outs : list (list (list V))) : ktensor V := mkK (repeat v1 R) outs.

(* shape rule of tendiag / sptendiag: (N,)*N without a shape, else max(N, dim) per requested mode *)
Definition diag_shape (N : nat) (so : option shape) : shape :=
  match so with None => repeat N N | Some s => map (Nat.max N) s end.
(* np.tile(np.arange(N)[:, None], (M,)): row k = (k, ..., k) *)
Definition diag_subs (N M : nat) : list idx := map (fun k => repeat k M) (seq 0 N).

(* tendiag: X = tenzeros(shape); X[subs] = elements (scatter, sequential writes) *)
Definition tendiag (e : list V) (so : option shape) : dense V :=
  let cs := diag_shape (length e) so in
  full v0 (mkSp cs (diag_subs (length e) (length cs)) e).

(* ---------------------------------------------------------------- aggregating constructor *)
(* the values whose subscript is i, in input order *)
Definition vals_at (i : idx) (subs : list idx) (vals : list V) : list V :=
  map snd (filter (fun e : idx * V => idx_eqb i (fst e)) (combine subs vals)).

(* sptensor.from_aggregator(subs, vals, shape, f):
   newsubs = unique rows; newvals[g] = f(values of group g); keep the groups whose value is non-zero *)
Definition from_aggregator (s : shape) (subs : list idx) (vals : list V) (f : list V -> V) : sparse V :=
  let us := unique_rows subs in
  let keep := filter (fun i => negb (isz (f (vals_at i subs vals)))) us in
  mkSp s keep (map (fun i => f (vals_at i subs vals)) keep).

(* shape inferred from the subscripts when none is given: max + 1 per column *)
Definition infer_shape (N : nat) (subs : list idx) : shape :=
  map (fun n => S (fold_right Nat.max 0 (map (fun i => nth n i 0) subs))) (seq 0 N).

(* with the guards of the code: equal counts, every subscript inside the shape *)
Definition from_aggregator_chk (so : option shape) (N : nat) (subs : list idx) (vals : list V) (f : list V -> V)
  : option (sparse V) :=
  let s := match so with Some s => s | None => infer_shape N subs end in
  if negb (Nat.eqb (length subs) (length vals)) then None
  else if negb (forallb (inb s) subs) then None
  else Some (from_aggregator s subs vals f).

(* sptendiag(elements, shape) = from_aggregator(diagonal subscripts, elements, shape rule, "sum") *)
Definition sptendiag (e : list V) (so : option shape) : sparse V :=
  let cs := diag_shape (length e) so in
  from_aggregator cs (diag_subs (length e) (length cs)) e (sumv v0 vadd).

(* ---------------------------------------------------------------- random sparse generator, draws as input *)
(* one uniform draw u = m / 2^53 (0 <= m < 2^53) scaled to a subscript of a mode of size d: floor(u * d) *)
Definition scale1 (d : nat) (m : Z) : nat := Z.to_nat (m * Z.of_nat d / 2 ^ 53).
Fixpoint scale_row (s : shape) (row : list Z) : idx :=
  match s, row with
  | d :: s', m :: r' => scale1 d m :: scale_row s' r'
  | _, _ => []
  end.
(* np.unique((U.dot(diag(shape))).astype(int), axis=0) *)
Definition cand (s : shape) (draw : list (list Z)) : list idx := unique_rows (map (scale_row s) draw).

(* while len(subs) < nonzeros and cnt < 10: subs = cand(next draw); pool = vstack(pool, next draw); cnt += 1
   returns the final candidate list and the number of draws demanded from the stream *)
Fixpoint redraw (fuel nz : nat) (s : shape) (cur : list idx) (draws : list (list (list Z))) : list idx * nat :=
  match fuel with
  | O => (cur, O)
  | S f =>
      if length cur <? nz then
        match draws with
        | d :: ds => let r := redraw f nz s (cand s d) ds in (fst r, S (snd r))
        | [] => (cur, 1)   (* stream exhausted: one more draw is DEMANDED (so a shorter captured stream disagrees) *)
        end
      else (cur, O)
  end.
Definition sprand_consumed (nz : nat) (s : shape) (draws : list (list (list Z))) : nat :=
  snd (redraw 10 nz s [] draws).
(* the candidate the loop ends with, truncated to the request (ALL there was before the repair of finding A-46) *)
Definition sprand_loop_subs (nz : nat) (s : shape) (draws : list (list (list Z))) : list idx :=
  firstn nz (fst (redraw 10 nz s [] draws)).
(* pool: the scaled rows of every consumed draw, stacked in the order drawn *)
Definition pool_rows (s : shape) (draws : list (list (list Z))) : list idx :=
  flat_map (fun d => map (scale_row s) d) draws.
(* the stored subscripts (repair of A-46, /repo bc5da93): the loop is unchanged; only when every consumed draw fell
   short (if len(subs) < nonzeros:) the result is taken from the distinct rows of ALL consumed draws,
     _, first = np.unique(pool, axis=0, return_index=True); subs = np.unique(pool[np.sort(first)[:nonzeros], :], axis=0)
   i.e. in order of first appearance, at most nz of them, stored in ascending order;
   then nonzeros = min(nonzeros, len(subs)); subs = subs[0:nonzeros] *)
Definition sprand_subs (nz : nat) (s : shape) (draws : list (list (list Z))) : list idx :=
  let r := redraw 10 nz s [] draws in
  if length (fst r) <? nz
  then unique_rows (firstn nz (dedup_first (pool_rows s (firstn (snd r) draws))))
  else sprand_loop_subs nz s draws.
(* np.array(list(np.ndindex(shape...))): EVERY subscript of the shape, last index fastest = ascending lexicographic order *)
Fixpoint all_rows (s : shape) : list idx :=
  match s with
  | [] => [[]]
  | d :: s' => flat_map (fun k => map (cons k) (all_rows s')) (seq 0 d)
  end.
(* the whole body after the request has been normalised, with the list `init` the loop STARTS from
   (subs = init; pool = subs): the redraw loop, the union fallback over init and every consumed draw, the truncation.
   init = [] is the ordinary request (sprand_subs, Proofs/C20Sat.v: sprand_subs_from_nil);
   a saturated request (repair of C20-N3, /repo 2b4b024) starts from all_rows shape with nz = prod(shape):
   the loop condition len(subs) < nonzeros is false at once, no draw is consumed, every subscript is stored *)
Definition sprand_subs_from (init : list idx) (nz : nat) (s : shape) (draws : list (list (list Z))) : list idx :=
  let r := redraw 10 nz s init draws in
  if length (fst r) <? nz
  then unique_rows (firstn nz (dedup_first (init ++ pool_rows s (firstn (snd r) draws))))
  else firstn nz (fst r).
Definition sprand_consumed_from (init : list idx) (nz : nat) (s : shape) (draws : list (list (list Z))) : nat :=
  snd (redraw 10 nz s init draws).
Definition sprand_init (sat : bool) (s : shape) : list idx := if sat then all_rows s else [].
(* stored subscripts / number of draws consumed for a normalised request (saturated, nz) *)
Definition sprand_req_subs (sat : bool) (nz : nat) (s : shape) (draws : list (list (list Z))) : list idx :=
  sprand_subs_from (sprand_init sat s) nz s draws.
Definition sprand_req_consumed (sat : bool) (nz : nat) (s : shape) (draws : list (list (list Z))) : nat :=
  sprand_consumed_from (sprand_init sat s) nz s draws.
(* sptensor.from_function(f, shape, nonzeros) after the request has been normalised to a count nz:
   vals = f((nnz, 1)) is an input (a list of the right length) *)
Definition sprand (nz : nat) (s : shape) (draws : list (list (list Z))) (vals : list V) : sparse V :=
  mkSp s (sprand_subs nz s draws) vals.
Definition sprand_req (sat : bool) (nz : nat) (s : shape) (draws : list (list (list Z))) (vals : list V) : sparse V :=
  mkSp s (sprand_req_subs sat nz s draws) vals.

(* ---- the request (after /repo 2b4b024, repair of C20-N3: a request EQUAL to the tensor size is admissible) ----
   saturated = False
   if nonzeros < 0 or nonzeros > prod(shape) or prod(shape) == 0: reject
   elif nonzeros == prod(shape): saturated = True; nonzeros = int(prod(shape))
   elif nonzeros < 1: nonzeros = int(ceil(prod(shape) * nonzeros))
   else: nonzeros = int(floor(nonzeros))
   The request is a rational p/q (q > 0); the comparisons of a Python float with an int are exact. pyttb forms the
   product prod(shape) * nonzeros in double arithmetic, so the ROUNDED product r = rn/rd is an input of the faithful
   model (norm_request_fl). Result: (saturated, count). A count of zero is admissible (repair C20-N2): the redraw loop
   does not run, the empty tensor is returned. *)
Definition zceil (n : Z) (d : positive) : Z := (- ((- n) / Zpos d))%Z.
Definition norm_request_fl (total : nat) (p : Z) (q : positive) (rn : Z) (rd : positive) : option (bool * nat) :=
  let t := Z.of_nat total in
  if (p <? 0)%Z || (t * Zpos q <? p)%Z || (t =? 0)%Z then None
  else if (p =? t * Zpos q)%Z then Some (true, total)
  else if (p <? Zpos q)%Z then Some (false, Z.to_nat (zceil rn rd))
  else Some (false, Z.to_nat (p / Zpos q)).
(* ... with the exact product total * p/q in place of the rounded one *)
Definition norm_request (total : nat) (p : Z) (q : positive) : option (bool * nat) :=
  norm_request_fl total p q (Z.of_nat total * p) q.
(* what the property asks of a request: ANY count up to the tensor size, the size included (a value below one is a
   density); a tensor without cells admits no request (pyttb's sparse tensor cannot have a mode of size zero: the
   constructor rejects it, cf. C20_sptendiag_guard) *)
Definition norm_request_spec (total : nat) (p : Z) (q : positive) : option nat :=
  let t := Z.of_nat total in
  if (p <? 0)%Z || (t * Zpos q <? p)%Z || (t =? 0)%Z then None
  else if (p <? Zpos q)%Z then Some (Z.to_nat (zceil (t * p) q))
  else Some (Z.to_nat (p / Zpos q)).

(* sptenrand(shape, density = p/q): the guard 0 < density <= 1, then (repair C20-N1)
   valid_nonzeros = int(floor(prod(shape) * density)) - an INTEGER count, handed to from_function
   (density 1 gives the size itself: the saturated branch).
   The double product r = rn/rd is again an input of the faithful model. *)
Definition sptenrand_guard (p : Z) (q : positive) : bool := (0 <? p)%Z && (p <=? Zpos q)%Z.
Definition sptenrand_count_fl (total : nat) (p : Z) (q : positive) (rn : Z) (rd : positive) : option (bool * nat) :=
  if sptenrand_guard p q then norm_request total (rn / Zpos rd) 1 else None.
Definition sptenrand_count_impl (total : nat) (p : Z) (q : positive) : option (bool * nat) :=
  sptenrand_count_fl total p q (Z.of_nat total * p) q.
(* what the property asks for: floor(total * density) entries for every density in (0, 1] (no tensor without cells) *)
Definition sptenrand_count_spec (total : nat) (p : Z) (q : positive) : nat :=
  Z.to_nat (Z.of_nat total * p / Zpos q).
Definition sptenrand_request_spec (total : nat) (p : Z) (q : positive) : option nat :=
  if sptenrand_guard p q && negb (Nat.eqb total 0) then Some (sptenrand_count_spec total p q) else None.

End Gen.

(* ---------------------------------------------------------------- the double product, rounded by the model itself *)
Local Open Scope Z_scope.
(* nearest integer to a/b (b > 0), ties to even *)
Definition rne (a b : Z) : Z :=
  let q := a / b in let r := a mod b in
  if 2 * r <? b then q else if b <? 2 * r then q + 1 else if Z.even q then q else q + 1.

(* 2^k as a pair of integer scales: 2^k = pow2p k / pow2n k *)
Definition pow2p (k : Z) : Z := 2 ^ (Z.max k 0).
Definition pow2n (k : Z) : Z := 2 ^ (Z.max (- k) 0).
(* n/d >= 2^k *)
Definition ge_pow2 (n d k : Z) : bool := d * pow2p k <=? n * pow2n k.
(* floor (log2 (n/d)) for n, d > 0 *)
Definition flog2 (n d : Z) : Z :=
  let k0 := Z.log2 n - Z.log2 d in if ge_pow2 n d k0 then k0 else k0 - 1.
(* the binary64 number nearest to n/d, as a fraction *)
Definition round64 (n : Z) (d : positive) : Z * positive :=
  if n <=? 0 then (0, 1%positive) else
  let e := flog2 n (Zpos d) - 52 in
  (rne (n * pow2n e) (Zpos d * pow2p e) * pow2p e, Z.to_pos (pow2n e)).

(* the request models with the product prod(shape) * p/q rounded to binary64 BY THE MODEL (nothing float enters as an input) *)
Definition norm_request_r64 (total : nat) (p : Z) (q : positive) : option (bool * nat) :=
  let r := round64 (Z.of_nat total * p) q in norm_request_fl total p q (fst r) (snd r).
Definition sptenrand_count_r64 (total : nat) (p : Z) (q : positive) : option (bool * nat) :=
  let r := round64 (Z.of_nat total * p) q in sptenrand_count_fl total p q (fst r) (snd r).
Local Close Scope Z_scope.

(* ---------------------------------------------------------------- teneye (entry formula, exact arithmetic on counts) *)
Fixpoint insert_all (x : nat) (l : list nat) : list (list nat) :=
  match l with
  | [] => [[x]]
  | y :: r => (x :: l) :: map (cons y) (insert_all x r)
  end.
Fixpoint perms (l : list nat) : list (list nat) :=
  match l with
  | [] => [[]]
  | x :: r => flat_map (insert_all x) (perms r)
  end.
(* p[2j-1] == p[2j] for j = 0 .. m/2-1 (index -1 is the last position) *)
Definition pairs_match (p : list nat) : bool :=
  let m := length p in
  forallb (fun j => Nat.eqb (nth ((2 * j + m - 1) mod m) p 0) (nth (2 * j) p 0)) (seq 0 (m / 2)).
(* numerator of A[i]: the number of the m! rearrangements of i whose consecutive pairs are equal; A[i] = count / m! *)
Definition teneye_count (i : idx) : nat := length (filter pairs_match (perms i)).

(* closed form of that numerator (the general entry formula; proved for subscripts with a value of odd multiplicity, for
   constant subscripts and for orders 2 and 4 - Proofs/C20TeneyeEntry.v; compared with teneye_count on every generated
   teneye case): with c_v the number of positions of i that hold the value v,
     teneye_count i = 0                                         if some c_v is odd,
     teneye_count i = 2^(m/2) * (m/2)! * prod_v (c_v - 1)!!     otherwise
   (2^(m/2) (m/2)! orderings of a perfect matching of the positions into equal-valued pairs, prod_v (c_v - 1)!! matchings) *)
Fixpoint oddfact (c : nat) : nat := match c with S (S c') => S c' * oddfact c' | _ => 1 end.
Definition teneye_formula (i : idx) : nat :=
  let vs := nodup Nat.eq_dec i in
  if forallb (fun v => Nat.even (count_occ Nat.eq_dec i v)) vs
  then 2 ^ (length i / 2) * fact (length i / 2) * fold_right Nat.mul 1 (map (fun v => oddfact (count_occ Nat.eq_dec i v)) vs)
  else 0.
