(* Model/C14Held.v — holders of another element type B (integer / float32 value arrays of a sparse tensor, cores and factor matrices of a
   Tucker tensor) converted entry by entry to the value ring V BEFORE any product: what sptensor.nvecs does since /repo 6aef7c8
   (tnt.astype(float64); finding C14-F4 repaired) and ttensor.nvecs since /repo 4b7dc0e (float64 copies of core and factors; finding
   C14-F5 repaired), and what tensor.nvecs does since /repo 08011d5 (t_double, Model/C14Unfold.v).  Definitions only. *)
From Coq Require Import List.
From PV Require Import Base.Index Np.Array Model.Sparse Model.Repr Model.C14Unfold.
Import ListNotations.

Section Held.
Context {B V : Type} (dbl : B -> V).
(* vals.astype(float64): subscripts and shape untouched *)
Definition sp_double (S : sparse B) : sparse V := mkSp (sshape S) (ssubs S) (map dbl (svals S)).
(* core.double() / factor.astype(float64) *)
Definition tt_double (T : ttensor B) : ttensor V := mkT (t_double dbl (tcore T)) (map (map (map dbl)) (tfactors T)).
End Held.
