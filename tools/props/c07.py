"""C07 — permute, reshape and squeeze are exact index maps (DESIGN §C07)."""
import itertools
import math
from vcheck import Case, gnlist, gz
import tgen

PROP = "C07"
LEVEL = "proof"
GEN_UNITS = []
COQ_TARGETS = ["Props/C07.vo", "Model/C07Harness.vo", "Model/Harness.vo"]
THEOREM_FILES = ["Props/C07.v"]
COQ_IMPORTS = ("From Coq Require Import List ZArith Bool.\n"
               "From PV Require Import Base.Index Base.Perm Np.Array Model.Sparse Model.Repr Model.Harness "
               "Model.C07Ops Model.C07Harness.\n")
RULE = ("permute: all N! orders for N<=4 (seeded sample for N=5) on shapes with distinct sizes (2,3,4,5), repeated sizes and "
        "singletons, for dense / sparse / Kruskal (rank 0..3) / Tucker (core <= 2x2x2x2, dense and sparse core) holders; reshape: "
        "every ordered factorisation (factors >= 2, plus variants with inserted 1s) of every element count <= 48, dense and sparse; "
        "sparse reshape of every non-empty mode subset (ascending and one shuffled order, also given as a bare int) for N<=4; "
        "squeeze: every shape with <= 8 cells and <= 4 modes, sparsity {0,1,some,all}; a small malformed stream (non-permutations, "
        "wrong element counts). non-trivial = more than one cell, at least one nonzero and not (identity order on a cubical shape)")
EXPLANATION = ("Theorems (Props/C07.v) are over the hand-written model Model/C07Ops.v, for all N, shapes, orders and any value "
               "type (Kruskal/Tucker: any commutative ring). The correspondence stream runs pyttb and the model on the same "
               "inputs and compares shape, denotation at every subscript, well-formedness and nnz in Coq.")
CORRESPONDENCE_ONLY = ["ttensor.permute with a sparse core (theorem covers the dense-core representation; the sparse core is "
                       "observed through its raw coordinate list and expanded by the harness)"]
ASSUMPTIONS = ["numpy transpose / F-order reshape / squeeze semantics as defined in Np/Array.v (np_transpose, np_reshapeF)"]


# ---------------------------------------------------------------------------------------- generators
def ordered_factorisations(n, minf=2):
    if n == 1:
        return [[]]
    out = []
    for d in range(minf, n + 1):
        if n % d == 0:
            for rest in ordered_factorisations(n // d, minf):
                out.append([d] + rest)
    return out


def with_ones(rng, f):
    f = list(f)
    for _ in range(rng.randint(1, 2)):
        f.insert(rng.randint(0, len(f)), 1)
    return f


def rand_matrix(rng, m, n, lo=-2, hi=3):
    return [[rng.randint(lo, hi) for _ in range(n)] for _ in range(m)]


def rand_sparse(rng, shp, fill=None):
    n = math.prod(shp)
    if fill is None:
        fill = rng.choice([0.0, 0.3, 0.6, 1.0])
    data = tgen.rand_dense(rng, shp, fill)
    if fill == 0.3 and n > 1 and rng.random() < 0.4:
        data = [0] * n
        data[rng.randrange(n)] = rng.choice([-2, 3])
    subs, vals = tgen.dense_to_sparse(shp, data, rng, rng.choice(["sorted", "reversed", "random"]))
    return subs, vals


PERM_SHAPES = [[3], [1], [2, 3], [3, 3], [1, 4], [1, 1], [2, 3, 4], [2, 2, 3], [3, 1, 2], [2, 2, 2], [1, 1, 3],
               [2, 3, 4, 5], [2, 3, 2, 3], [1, 2, 1, 3], [2, 1, 3, 4]]


def gen_cases(rng, tier):
    big = tier == "thorough"
    cases = []
    reps = 3 if big else 1
    # ---------------- permute, four holders
    shapes = [list(s) for s in PERM_SHAPES]
    if big:
        shapes += [tgen.rand_shape(rng, maxn=4, maxcells=96) for _ in range(10)]
    jobs = []
    for shp in shapes:
        for p in itertools.permutations(range(len(shp))):
            jobs.append((shp, list(p)))
    for shp in ([[2, 1, 3, 2, 2], [2, 3, 1, 2, 3]] if not big else [[2, 1, 3, 2, 2], [2, 3, 1, 2, 3], [3, 2, 2, 2, 2], [1, 2, 3, 4, 1]]):
        for _ in range(24 if big else 6):
            p = list(range(5))
            rng.shuffle(p)
            jobs.append((shp, p))
    for shp, p in jobs:
        n = math.prod(shp)
        ident = p == sorted(p)
        for _ in range(reps):
            data = tgen.rand_dense(rng, shp, rng.choice([0.6, 1.0]))
            nt = n > 1 and any(data) and not (ident and len(set(shp)) == 1)
            cases.append(Case("permute_d", {"shape": shp, "data": data, "p": p}, nt))
            subs, vals = rand_sparse(rng, shp)
            cases.append(Case("permute_sp", {"shape": shp, "subs": subs, "vals": vals, "p": p}, nt and bool(vals)))
            R = rng.choice([0, 1, 2, 3]) if rng.random() < 0.3 else rng.choice([2, 3])
            K = {"weights": [rng.choice([-2, -1, 1, 2, 3]) for _ in range(R)], "factors": [rand_matrix(rng, d, R) for d in shp]}
            cases.append(Case("permute_k", {"shape": shp, "K": K, "p": p}, nt and R > 0))
            cshape = [rng.randint(1, 2) for _ in shp]
            core = tgen.rand_dense(rng, cshape, rng.choice([0.5, 1.0]))
            T = {"cshape": cshape, "core": core, "factors": [rand_matrix(rng, d, c) for d, c in zip(shp, cshape)],
                 "sparse_core": rng.random() < 0.25}
            cases.append(Case("permute_t", {"shape": shp, "T": T, "p": p}, nt and any(core)))
    # ---------------- dense / sparse reshape over every factorisation
    counts = list(range(1, 49))
    for n in counts:
        facs = ordered_factorisations(n)
        facs = [f for f in facs if len(f) <= 5] or [[n]]
        if n == 1:
            facs = [[1]]
        extra = [with_ones(rng, f) for f in rng.sample(facs, min(len(facs), 3))]
        targets = facs + extra
        for tgt in targets:
            if not tgt:
                continue
            src = list(rng.choice(facs + extra))
            if not src:
                src = [1]
            data = tgen.rand_dense(rng, src, rng.choice([0.5, 1.0]))
            nt = n > 1 and any(data) and src != tgt
            cases.append(Case("reshape_d", {"shape": src, "data": data, "new": tgt}, nt))
            if big or rng.random() < 0.7:
                subs, vals = rand_sparse(rng, src)
                cases.append(Case("reshape_sp", {"shape": src, "subs": subs, "vals": vals, "new": tgt, "old": None}, nt and bool(vals)))
    # ---------------- sparse reshape of every non-empty mode subset
    rshapes = [[6], [4, 3], [2, 3, 4], [3, 1, 2], [2, 2, 3, 2], [1, 2, 1, 3], [2, 3, 4, 2], [3, 3, 2]]
    if big:
        rshapes += [tgen.rand_shape(rng, maxn=4, maxcells=72) for _ in range(12)]
    for shp in rshapes:
        N = len(shp)
        for r in range(1, N + 1):
            for comb in itertools.combinations(range(N), r):
                orders = [list(comb)]
                if r > 1:
                    q = list(comb)
                    rng.shuffle(q)
                    orders.append(q)
                    if big:
                        orders.append(list(comb)[::-1])
                for old in orders:
                    m = math.prod(shp[k] for k in old)
                    facs = ordered_factorisations(m) if m > 1 else [[1]]
                    picks = rng.sample(facs, min(len(facs), 4 if big else 2))
                    picks.append(with_ones(rng, rng.choice(facs)))
                    for tgt in picks:
                        if not tgt:
                            tgt = [1]
                        for fill in ([0.0, 0.5, 1.0] if big else [rng.choice([0.0, 0.4, 1.0])]):
                            subs, vals = rand_sparse(rng, shp, fill)
                            cases.append(Case("reshape_sp", {"shape": shp, "subs": subs, "vals": vals, "new": tgt, "old": old},
                                              bool(vals) and math.prod(shp) > 1))
                if r == 1:     # the documented bare-int form of old_modes
                    subs, vals = rand_sparse(rng, shp, 0.6)
                    cases.append(Case("reshape_sp", {"shape": shp, "subs": subs, "vals": vals, "new": [shp[comb[0]]],
                                                     "old": [comb[0]], "old_int": True}, bool(vals)))
    # ---------------- squeeze
    for shp in tgen.shapes_upto(8) + ([tuple(tgen.rand_shape(rng, maxn=5, maxcells=48)) for _ in range(40)] if big else
                                      [(2, 1, 3, 1, 2), (1, 1, 1, 1, 1), (1, 5, 1), (3, 1, 1, 4)]):
        shp = list(shp)
        n = math.prod(shp)
        for fill in [0.0, 0.5, 1.0]:
            data = tgen.rand_dense(rng, shp, fill)
            nt = n > 1 and any(data) and 1 in shp
            if fill > 0:
                cases.append(Case("squeeze_d", {"shape": shp, "data": data}, nt))
            subs, vals = tgen.dense_to_sparse(shp, data, rng, rng.choice(["sorted", "reversed", "random"]))
            cases.append(Case("squeeze_sp", {"shape": shp, "subs": subs, "vals": vals}, nt))
    # ---------------- malformed stream: rejected requests must be rejected by both
    for _ in range(60 if big else 20):
        shp = tgen.rand_shape(rng, maxn=4, maxcells=24)
        N = len(shp)
        bad = [rng.randint(0, N) for _ in range(rng.choice([N, N, N + 1, max(1, N - 1)]))]
        if sorted(bad) == list(range(N)) or all(b == 1 for b in bad):
            continue        # valid, or the all-ones shortcut of tensor.permute (A-28, reported under C19)
        data = tgen.rand_dense(rng, shp, 1.0)
        subs, vals = rand_sparse(rng, shp, 0.5)
        cases.append(Case("permute_d", {"shape": shp, "data": data, "p": bad}, True))
        cases.append(Case("permute_sp", {"shape": shp, "subs": subs, "vals": vals, "p": bad}, True))
        tgt = [math.prod(shp) + rng.choice([1, 2])]
        cases.append(Case("reshape_d", {"shape": shp, "data": data, "new": tgt}, True))
        cases.append(Case("reshape_sp", {"shape": shp, "subs": subs, "vals": vals, "new": tgt, "old": None}, True))
    return cases


# ---------------------------------------------------------------------------------------- pyttb side
def _mk_k(ttb, np, K, shape):
    R = len(K["weights"])
    fm = [np.array(f, dtype=float).reshape((d, R)) for f, d in zip(K["factors"], shape)]
    return ttb.ktensor([f.copy() for f in fm], np.array(K["weights"], dtype=float), copy=True)


def _mk_t(ttb, np, T, shape):
    core = tgen.mk_tensor(ttb, np, T["cshape"], T["core"])
    if T.get("sparse_core"):
        subs, vals = tgen.dense_to_sparse(T["cshape"], T["core"])
        core = tgen.mk_sptensor(ttb, np, T["cshape"], subs, vals)
    fm = [np.array(f, dtype=float).reshape((d, c)) for f, d, c in zip(T["factors"], shape, T["cshape"])]
    return ttb.ttensor(core, [f.copy() for f in fm], copy=True)


def _obs_core(np, core):
    """Tucker core -> dense observation; a sparse core is expanded from its RAW coordinate list by plain loops"""
    if hasattr(core, "subs"):
        o = tgen.obs_sparse(np, core)
        shape = o["shape"]
        data = [0] * math.prod(shape)
        for s, v in zip(o["subs"], o["vals"]):
            k, mul = 0, 1
            for x, d in zip(s, shape):
                k += x * mul
                mul *= d
            data[k] = v
        return {"shape": shape, "data": data, "sparse": True}
    return tgen.obs_dense(np, core)


def run_impl(c):
    import numpy as np
    import pyttb as ttb
    a = c.args
    try:
        if c.op == "permute_d":
            return {"ok": tgen.obs_dense(np, tgen.mk_tensor(ttb, np, a["shape"], a["data"]).permute(np.array(a["p"], dtype=int)))}
        if c.op == "permute_sp":
            S = tgen.mk_sptensor(ttb, np, a["shape"], a["subs"], a["vals"])
            return {"ok": tgen.obs_sparse(np, S.permute(np.array(a["p"], dtype=int)))}
        if c.op == "permute_k":
            K = _mk_k(ttb, np, a["K"], a["shape"])
            R = K.permute(np.array(a["p"], dtype=int))
            return {"ok": {"weights": [tgen.exact(x) for x in np.asarray(R.weights).ravel()],
                           "factors": [[[tgen.exact(x) for x in row] for row in np.asarray(f)] for f in R.factor_matrices]}}
        if c.op == "permute_t":
            T = _mk_t(ttb, np, a["T"], a["shape"])
            R = T.permute(np.array(a["p"], dtype=int))
            return {"ok": {"core": _obs_core(np, R.core), "factors": [tgen.obs_matrix(np, f) for f in R.factor_matrices]}}
        if c.op == "reshape_d":
            return {"ok": tgen.obs_dense(np, tgen.mk_tensor(ttb, np, a["shape"], a["data"]).reshape(tuple(a["new"])))}
        if c.op == "reshape_sp":
            S = tgen.mk_sptensor(ttb, np, a["shape"], a["subs"], a["vals"])
            if a["old"] is None:
                R = S.reshape(tuple(a["new"]))
            elif a.get("old_int"):
                R = S.reshape(tuple(a["new"]), int(a["old"][0]))
            else:
                R = S.reshape(tuple(a["new"]), np.array(a["old"], dtype=int))
            return {"ok": tgen.obs_sparse(np, R)}
        if c.op == "squeeze_d":
            R = tgen.mk_tensor(ttb, np, a["shape"], a["data"]).squeeze()
            return {"ok": tgen.obs_dense(np, R)} if isinstance(R, ttb.tensor) else {"scalar": tgen.exact(R)}
        if c.op == "squeeze_sp":
            R = tgen.mk_sptensor(ttb, np, a["shape"], a["subs"], a["vals"]).squeeze()
            return {"ok": tgen.obs_sparse(np, R)} if isinstance(R, ttb.sptensor) else {"scalar": tgen.exact(R)}
    except Exception as ex:
        return {"exc": type(ex).__name__, "msg": str(ex)[:200]}
    raise ValueError(c.op)


# ---------------------------------------------------------------------------------------- model side
def _gk(K):
    return tgen.gktensor(K["weights"], K["factors"])


def _gmat_list(fs):
    return "[" + "; ".join(tgen.gmatrix(f) for f in fs) + "]"


def _gk_shaped(K, shape):
    """rank-0 factor matrices have rows of length 0: write them as d empty rows"""
    fs = [f if f else [[] for _ in range(d)] for f, d in zip(K["factors"], shape)]
    return tgen.gktensor(K["weights"], fs)


def _gmatrix(m):
    if not m:
        return "(@nil (list Z))"
    return "[" + "; ".join(tgen.gzlist(r) for r in m) + "]"


def coq_check(c, o):
    a = c.args
    exc = "exc" in o
    if c.op == "permute_d":
        T = tgen.gdense(a["shape"], a["data"])
        if not exc and not tgen.all_int(o["ok"]["data"]):
            return "false"
        obs = "None" if exc else f"(Some {tgen.gdense(o['ok']['shape'], o['ok']['data'])})"
        return f"od_ok (permute_d 0%Z {T} {gnlist(a['p'])}) {obs}"
    if c.op == "reshape_d":
        T = tgen.gdense(a["shape"], a["data"])
        if not exc and not tgen.all_int(o["ok"]["data"]):
            return "false"
        obs = "None" if exc else f"(Some {tgen.gdense(o['ok']['shape'], o['ok']['data'])})"
        return f"od_ok (reshape_d 0%Z {T} {gnlist(a['new'])}) {obs}"
    if c.op in ("permute_sp", "reshape_sp"):
        S = tgen.gsparse(a["shape"], a["subs"], a["vals"])
        if not exc:
            ob = o["ok"]
            if not tgen.all_int(ob["vals"]) or ob["nnz"] != len(ob["subs"]):
                return "false"
            obs = f"(Some {tgen.gsparse(ob['shape'], ob['subs'], ob['vals'])})"
        else:
            obs = "None"
        if c.op == "permute_sp":
            return f"os_ok (permute_sp {S} {gnlist(a['p'])}) {obs}"
        if a["old"] is None:
            return f"os_ok (reshape_sp_all {S} {gnlist(a['new'])}) {obs}"
        return f"os_ok (reshape_sp {S} {gnlist(a['new'])} {gnlist(a['old'])}) {obs}"
    if c.op == "permute_k":
        K = _gk_shaped(a["K"], a["shape"])
        if exc:
            return f"ok_ok (permute_k {K} {gnlist(a['p'])}) None"
        ob = o["ok"]
        if not tgen.all_int(ob["weights"]) or not all(tgen.all_int(r) for f in ob["factors"] for r in f):
            return "false"
        oshape = [a["shape"][k] for k in a["p"]]
        return f"ok_ok (permute_k {K} {gnlist(a['p'])}) (Some {_gk_shaped(ob, oshape)})"
    if c.op == "permute_t":
        T = a["T"]
        G = f"(mkT {tgen.gdense(T['cshape'], T['core'])} {_gmat_list(T['factors'])})"
        if exc:
            return f"ot_ok (permute_t 0%Z {G} {gnlist(a['p'])}) None"
        ob = o["ok"]
        if not tgen.all_int(ob["core"]["data"]) or not all(tgen.all_int(r) for f in ob["factors"] for r in f):
            return "false"
        O = f"(mkT {tgen.gdense(ob['core']['shape'], ob['core']['data'])} {_gmat_list(ob['factors'])})"
        return f"ot_ok (permute_t 0%Z {G} {gnlist(a['p'])}) (Some {O})"
    if c.op == "squeeze_d":
        T = tgen.gdense(a["shape"], a["data"])
        if exc:
            return "false"
        if "scalar" in o:
            return f"sqd_ok (squeeze_d 0%Z {T}) (SqScalar {gz(o['scalar'])})" if isinstance(o["scalar"], int) else "false"
        if not tgen.all_int(o["ok"]["data"]):
            return "false"
        return f"sqd_ok (squeeze_d 0%Z {T}) (SqT {tgen.gdense(o['ok']['shape'], o['ok']['data'])})"
    if c.op == "squeeze_sp":
        S = tgen.gsparse(a["shape"], a["subs"], a["vals"])
        if exc:
            return "false"
        if "scalar" in o:
            return f"sqs_ok (squeeze_sp 0%Z {S}) (SqScalar {gz(o['scalar'])})" if isinstance(o["scalar"], int) else "false"
        ob = o["ok"]
        if not tgen.all_int(ob["vals"]) or ob["nnz"] != len(ob["subs"]):
            return "false"
        return f"sqs_ok (squeeze_sp 0%Z {S}) (SqT {tgen.gsparse(ob['shape'], ob['subs'], ob['vals'])})"
    raise ValueError(c.op)


# ---------------------------------------------------------------------------------------- brute-force oracle
def _lin(shape, sub):
    k, mul = 0, 1
    for x, d in zip(sub, shape):
        k += x * mul
        mul *= d
    return k


def _unlin(shape, k):
    out = []
    for d in shape:
        out.append(k % d)
        k //= d
    return out


def _sp_dict(ob):
    d = {}
    for s, v in zip(ob["subs"], ob["vals"]):
        if tuple(s) in d:
            return None
        if v == 0:
            return None
        d[tuple(s)] = v
    return d


def _den_k(K, i):
    tot = 0
    for r, w in enumerate(K["weights"]):
        t = w
        for f, x in zip(K["factors"], i):
            t *= f[x][r]
        tot += t
    return tot


def _den_t(cshape, core, factors, i):
    tot = 0
    for j in tgen.all_subs(cshape):
        t = core[_lin(cshape, j)]
        for f, x, y in zip(factors, i, j):
            t *= f[x][y]
        tot += t
    return tot


def _valid_perm(p, N):
    return sorted(p) == list(range(N))


def oracle(c, o):
    a = c.args
    shp = a["shape"]
    N = len(shp)
    if c.op.startswith("permute"):
        p = a["p"]
        if not _valid_perm(p, N):
            return None if "exc" in o else f"invalid order {p} accepted"
        if "exc" in o:
            return f"valid order {p} rejected: {o['exc']} {o.get('msg')}"
        nshape = [shp[k] for k in p]

        def src(i):           # i indexes the result; result[i] = X[j] with j[p[k]] = i[k]
            j = [0] * N
            for k in range(N):
                j[p[k]] = i[k]
            return j
        ob = o["ok"]
        if c.op == "permute_d":
            if ob["shape"] != nshape:
                return f"shape {ob['shape']} != {nshape}"
            for i in tgen.all_subs(nshape):
                if ob["data"][_lin(nshape, i)] != a["data"][_lin(shp, src(i))]:
                    return f"entry {i} of the result is not entry {src(i)} of the argument"
            return None
        if c.op == "permute_sp":
            d = _sp_dict(ob)
            din = {tuple(s): v for s, v in zip(a["subs"], a["vals"])}
            if d is None or ob["shape"] != nshape or ob["nnz"] != len(din):
                return "result ill-formed / wrong shape / wrong nnz"
            for i in tgen.all_subs(nshape):
                if d.get(tuple(i), 0) != din.get(tuple(src(i)), 0):
                    return f"entry {i} of the result is not entry {src(i)} of the argument"
            return None
        if c.op == "permute_k":
            if [len(f) for f in ob["factors"]] != nshape:
                return "wrong shape"
            for i in tgen.all_subs(nshape):
                if _den_k(ob, i) != _den_k(a["K"], src(i)):
                    return f"entry {i} of the result is not entry {src(i)} of the argument"
            return None
        if c.op == "permute_t":
            if [len(f) for f in ob["factors"]] != nshape:
                return "wrong shape"
            T = a["T"]
            for i in tgen.all_subs(nshape):
                if _den_t(ob["core"]["shape"], ob["core"]["data"], ob["factors"], i) != _den_t(T["cshape"], T["core"], T["factors"], src(i)):
                    return f"entry {i} of the result is not entry {src(i)} of the argument"
            return None
    if c.op == "reshape_d":
        if math.prod(a["new"]) != math.prod(shp):
            return None if "exc" in o else "element count changed but request accepted"
        if "exc" in o:
            return f"admissible reshape rejected: {o['exc']} {o.get('msg')}"
        if o["ok"]["shape"] != a["new"] or o["ok"]["data"] != a["data"]:
            return "F-order value list or shape differs"
        return None
    if c.op == "reshape_sp":
        old = a["old"] if a["old"] is not None else list(range(N))
        keep = [k for k in range(N) if k not in old]
        oshape = [shp[k] for k in old]
        if math.prod(a["new"]) != math.prod(oshape):
            return None if "exc" in o else "element count changed but request accepted"
        if "exc" in o:
            return f"admissible reshape rejected: {o['exc']} {o.get('msg')}"
        ob = o["ok"]
        nshape = [shp[k] for k in keep] + a["new"]
        d = _sp_dict(ob)
        din = {tuple(s): v for s, v in zip(a["subs"], a["vals"])}
        if d is None or ob["shape"] != nshape or ob["nnz"] != len(din):
            return "result ill-formed / wrong shape / wrong nnz"
        want = {}
        for s, v in din.items():
            t = [s[k] for k in keep] + _unlin(a["new"], _lin(oshape, [s[k] for k in old]))
            want[tuple(t)] = v
        return None if want == d else "an entry did not move to kept ++ ind2sub(new, sub2ind(old))"
    if c.op in ("squeeze_d", "squeeze_sp"):
        if "exc" in o:
            return f"squeeze raised {o['exc']}: {o.get('msg')}"
        keepi = [k for k, d in enumerate(shp) if d > 1]
        nshape = [shp[k] for k in keepi]
        if c.op == "squeeze_d":
            if not keepi:
                return None if o.get("scalar") == a["data"][0] else "scalar result differs from the single entry"
            if "ok" not in o or o["ok"]["shape"] != nshape or o["ok"]["data"] != a["data"]:
                return "squeezed tensor differs"
            return None
        din = {tuple(s): v for s, v in zip(a["subs"], a["vals"])}
        if not keepi:
            want = din.get(tuple([0] * N), 0)
            return None if o.get("scalar") == want else "scalar result differs from the single entry"
        if "ok" not in o:
            return "tensor expected"
        d = _sp_dict(o["ok"])
        want = {tuple(s[k] for k in keepi): v for s, v in din.items()}
        if d is None or o["ok"]["shape"] != nshape or d != want:
            return "squeezed sparse tensor differs"
        return None
    return None


# ---------------------------------------------------------------------------------------- known findings
TRIGGERS = {
    "squeeze_empty_all_singleton": lambda c: c.op == "squeeze_sp" and all(d == 1 for d in c.args["shape"]) and not c.args["subs"],
    "reshape_old_modes_int": lambda c: c.op == "reshape_sp" and bool(c.args.get("old_int")),
}


def _w_squeeze():
    import pyttb as ttb
    try:
        r = ttb.sptensor(shape=(1, 1, 1)).squeeze()
        return None if r == 0 else f"returned {r!r}"
    except Exception as ex:
        return f"sptensor(shape=(1,1,1)).squeeze() raised {type(ex).__name__}: {ex}"


def _w_reshape_int():
    import numpy as np
    import pyttb as ttb
    try:
        S = ttb.sptensor(np.array([[0, 0, 0], [1, 0, 2]]), np.array([[5.0], [6.0]]), (2, 1, 3))
        R = S.reshape((3,), 2)
        ok = tuple(int(x) for x in R.shape) == (2, 1, 3) and sorted(map(tuple, R.subs.tolist())) == [(0, 0, 0), (1, 0, 2)]
        return None if ok else f"wrong result shape={R.shape} subs={R.subs.tolist()}"
    except Exception as ex:
        return f"S.reshape((3,), 2) raised {type(ex).__name__}: {ex}"


WITNESSES = {"N-C07-1": _w_squeeze, "N-C07-2": _w_reshape_int}
