(* Props/C08g.v — C08, wave 4/5: the translator-GENERATED ktensor.update (Gen/GenKtensor4.v, regenerated from
   /repo/pyttb/ktensor.py on every run; two passes since /repo b9311d6) IS C08's state machine py_update (Model/C08Update.v) and hence
   computes the hand model k_update; the exact round-trip / frame theorems of Props/C08.v (C08_update_all_modes, C08_update_frame) and the
   atomicity theorem of Props/C08i.v (C08_update_rejected_unchanged) therefore hold for the generated code.
   Only statements, `exact`, Print Assumptions. *)
From Coq Require Import List ZArith Arith Bool.
From PV Require Import Base.Index Model.Repr Model.C08Kruskal Model.C08Update Np.NpZ Np.NpZ2 Np.NpZ3 Np.NpZ3c Np.NpZ3d Np.NpZ3e Np.NpZ4
  Model.W4Ktensor Gen.GenKtensor4 Proofs.C08Gen3.
Import ListNotations.
Local Open Scope Z_scope.

(* the generated update(modes, data) answers Ok EXACTLY on the requests the state machine accepts — with the same weights and stored
   entries — and raises EXACTLY on those it rejects, where the state machine leaves the receiver as it was (the generated function is
   functional: a raise loses the state; that the raise happens BEFORE the first assignment is what the second line says).
   Every ktz record, every list of integers as modes (unsorted, repeated, out of range, negative), every data length *)
Theorem C08_gen_update_state : forall (self : ktz) (modes data : vec),
  match ktensor_update self modes data with
  | Ok k' => py_update 0 modes data (to_K self) = (true, to_K k')
  | Err => py_update 0 modes data (to_K self) = (false, to_K self)
  end.
Proof. exact gen_update_state. Qed.
Print Assumptions C08_gen_update_state.

(* ... it raises iff the modes are not strictly ascending, or one of them is neither -1 nor a mode, or the data is too short for
   the blocks named — all decided on the request before anything is stored *)
Theorem C08_gen_update_rejects_iff : forall (self : ktz) (modes data : vec),
  ktensor_update self modes data = Err <-> py_strict_asc modes && py_validate (to_K self) modes data = false.
Proof. exact gen_update_rejects_iff. Qed.
Print Assumptions C08_gen_update_rejects_iff.

(* whenever the generated update(modes, data) answers, its result is — weights and every stored entry — the hand model:
   the data vector is consumed left to right, R entries for the weights, shape[k] * R entries (column-major) for factor k.
   Every ktz, any modes / components / data length (no hypothesis on the modes since b9311d6: modes below -1 are refused) *)
Theorem C08_gen_update_model : forall (self k' : ktz) (modes data : vec),
  ktensor_update self modes data = Ok k' ->
  to_K k' = k_update 0 (map mopt modes) data (to_K self).
Proof. exact gen_update_model. Qed.
Print Assumptions C08_gen_update_model.

(* all modes, weights first, exactly R * (sum(shape) + 1) numbers: the generated update ACCEPTS and is from_vector of the data *)
Theorem C08_gen_update_all_modes_accepted : forall (self : ktz) (data : vec),
  length data = (krank (to_K self) * (sum_nat (kshape (to_K self)) + 1))%nat ->
  exists k', ktensor_update self (-1 :: np_arange 0 (zlen (kt_factors self))) data = Ok k' /\
             to_K k' = k_from_vector 0 1 data (kshape (to_K self)) true.
Proof. exact gen_update_all_modes_accepted. Qed.
Print Assumptions C08_gen_update_all_modes_accepted.

(* all modes, weights first: the generated update IS from_vector of the data (exact vector round trip on the generated code) *)
Theorem C08_gen_update_all_modes : forall (self k' : ktz) (data : vec),
  ktensor_update self (-1 :: np_arange 0 (zlen (kt_factors self))) data = Ok k' ->
  length data = (krank (to_K self) * (sum_nat (kshape (to_K self)) + 1))%nat ->
  to_K k' = k_from_vector 0 1 data (kshape (to_K self)) true.
Proof. exact gen_update_all_modes. Qed.
Print Assumptions C08_gen_update_all_modes.

(* frame: weights / factors that are not named are untouched by the generated update *)
Theorem C08_gen_update_frame : forall (self k' : ktz) (modes data : vec),
  ktensor_update self modes data = Ok k' ->
  (not (In (-1) modes) -> kt_weights k' = kt_weights self) /\
  (forall j : nat, not (In (Z.of_nat j) modes) -> nth j (kt_factors k') [] = nth j (kt_factors self) []).
Proof. exact gen_update_frame. Qed.
Print Assumptions C08_gen_update_frame.

(* non-vacuity: 2 x 3 modes, two components; weights and factor 1 replaced, factor 0 kept; unsorted / repeated modes, short data,
   a mode that does not exist after a valid one, mode -2 refused *)
Example C08_example_gen_update :
  let k := mkkt [1; 1] [[[0; 0]; [0; 0]]; [[0; 0]; [0; 0]; [0; 0]]] in
  ktensor_update k [-1; 1] [11; 12; 5; 6; 7; 8; 9; 10] = Ok (mkkt [11; 12] [[[0; 0]; [0; 0]]; [[5; 8]; [6; 9]; [7; 10]]]) /\
  ktensor_update k [1; -1] [5; 6; 7; 8; 9; 10; 11; 12] = Err /\
  ktensor_update k [-1; 1] [11; 12; 5; 6; 7] = Err /\
  ktensor_update k [0; 0] [1; 2; 3; 4; 5; 6; 7; 8] = Err /\
  ktensor_update k [0; 5] [1; 2; 3; 4; 5; 6] = Err /\
  ktensor_update k [-2] [1; 2; 3; 4] = Err.
Proof. vm_compute. repeat split; reflexivity. Qed.
