(* Model/C01W5.v — fifth wave: Tucker tensors whose factor matrices are scipy coo matrices, and `ttm` over a LIST of modes
   for a dense or a sparse receiver, AS EXECUTED (pyttb/ttensor.py full; pyttb/tensor.py ttm; pyttb/sptensor.py ttm):

       ttensor.full():   Y = self.core.ttm(self.factor_matrices);  Y if it is a tensor else Y.to_tensor()
       X.ttm(list, dims): dims, vidx = tt_dimscheck(...);  Y = X.ttm(list[vidx[0]], dims[0]);
                          for k in 1..: Y = Y.ttm(list[vidx[k]], dims[k])          (Y changes its container on the way)
       tensor.ttm(U, n):  permute / reshape / `U @ data` / reshape / inverse permute — for a coo matrix U scipy computes
                          coo @ ndarray, an ndarray: the matrix product with U.toarray()
       sptensor.ttm(U, n): assert shape[n] == U.shape[1];  Xnt = self.to_sptenmat([n], cdims_cyclic="t");
                          Z = Xnt.double().dot(U.T);  Ynt = sptenmat.from_array(Z, Xnt.rdims, Xnt.cdims, siz).to_sptensor()
                          `if not isinstance(Z, np.ndarray) and Z.nnz <= 0.5 * prod(siz): return Ynt` else Ynt.to_tensor()
                          — for an ndarray U the product Z is an ndarray (Model/C01W3.v sp_ttm: always dense result),
                          for a coo matrix U it is scipy's sparse-sparse product: a sparse matrix, and the result
                          STAYS A SPARSE TENSOR when Z stores at most half as many entries as the result has cells.

   scipy's sparse product is not transliterated: `spdot` is a parameter of the model, and the theorems (Proofs/C01W5.v) hold for
   EVERY spdot that returns a well-formed coo matrix of the right shape denoting the matrix product (which entries it stores,
   in which order, whether it keeps duplicates or explicit zeros is left open — from_array sums / filters them).
   `spdot_ref` is one such function (row-major scan of the product, nonzero sums only), used for the generated cases.
   Definitions only. *)
From Coq Require Import List Arith Lia Bool.
From PV Require Import Base.Index Base.Perm Base.Sum Np.Array Model.Sparse Model.Repr Model.C07Ops Model.C01Conv Model.C01Unique
  Model.C01Coo Model.C02Spec Model.C02Dense Model.C01Ttm Model.C01W3.
Import ListNotations.

Section W5.
Context {V : Type} (v0 v1 : V) (vadd vmul : V -> V -> V) (isz : V -> bool).

(* a factor matrix as ttensor.__init__ / ttm admit it: np.ndarray or scipy.sparse.coo_matrix *)
Inductive factor := FDense (U : matrix (V:=V)) | FCoo (C : coo V).

(* C.toarray() as a row list *)
Definition coo_rows (C : coo V) : nat := nth 0 (coo_shape C) 0.
Definition coo_cols (C : coo V) : nat := nth 1 (coo_shape C) 0.
Definition coo_matrix (C : coo V) : matrix (V:=V) :=
  map (fun i => map (fun j => den_coo v0 vadd C [i; j]) (seq 0 (coo_cols C))) (seq 0 (coo_rows C)).
Definition fac_matrix (f : factor) : matrix (V:=V) := match f with FDense U => U | FCoo C => coo_matrix C end.

(* the result of a ttm call is a tensor or a sptensor *)
Inductive holder := HD (D : dense V) | HS (G : sparse V).
Definition holder_full (h : holder) : dense V := match h with HD D => D | HS G => full v0 G end.
Definition holder_shape (h : holder) : shape := match h with HD D => dshape D | HS G => sshape G end.

Section WithSpdot.
(* A.dot(B.T) of scipy sparse matrices A (R x I) and B (J x I) *)
Variable spdot : coo V -> coo V -> coo V.

(* sptensor.ttm(U, n) for a scipy coo matrix U *)
Definition sp_ttm_coo (G : sparse V) (C : coo V) (n : nat) : option holder :=
  if negb (nth n (sshape G) 0 =? coo_cols C) then None                        (* "Matrix shape doesn't match tensor shape" *)
  else
  match to_sptenmat_sorted_req vadd isz G (Some [n]) None (Some CycT) with        (* Xnt = self.to_sptenmat([n], cdims_cyclic="t") *)
  | None => None
  | Some Xnt =>
      let Z := spdot (stm_double Xnt) C in                                          (* Xnt.double().dot(U.T): scipy sparse *)
      let siz := set_nth (sshape G) n (coo_rows C) in
      match from_array_coo vadd isz Z (Some (stm_r Xnt)) (Some (stm_c Xnt)) siz with
      | None => None
      | Some Y =>
          let Ynt := sptenmat_to_sptensor Y in
          if 2 * length (coo_subs Z) <=? size siz then Some (HS Ynt)                (* Z.nnz <= 0.5 * prod(siz): stays sparse *)
          else Some (HD (full v0 Ynt))                                              (* Ynt.to_tensor() *)
      end
  end.

(* one ttm call: receiver tensor / sptensor x matrix ndarray / coo *)
Definition ttm_step (h : holder) (n : nat) (f : factor) : option holder :=
  match h, f with
  | HD D, _ => let U := fac_matrix f in Some (HD (impl_ttm_dense v0 vadd vmul D n U (nrows U) false))
  | HS G, FDense U => option_map HD (sp_ttm v0 vadd vmul isz G U n)
  | HS G, FCoo C => sp_ttm_coo G C n
  end.

(* the loop of X.ttm(list, dims) over the (mode, matrix) pairs tt_dimscheck delivers *)
Fixpoint ttm_chain (h : holder) (ps : list (nat * factor)) : option holder :=
  match ps with
  | [] => Some h
  | (n, f) :: ps' => match ttm_step h n f with Some h' => ttm_chain h' ps' | None => None end
  end.

(* ttensor.full() for a dense or sparse core and ndarray / coo factor matrices *)
Definition ttensor_full_fac (core : holder) (Fs : list factor) : option (dense V) :=
  match Fs with
  | [] => None
  | _ => option_map holder_full (ttm_chain core (combine (seq 0 (length Fs)) Fs))
  end.
End WithSpdot.

(* what the loop must compute: the subscript-level mode products one after the other *)
Definition ttm_pairs (X : dense V) (ps : list (nat * factor)) : dense V :=
  fold_left (fun Y p => ttm_mode v0 vadd vmul Y (fac_matrix (snd p)) (fst p)) ps X.

(* a well-formed coo matrix: 2-way shape, one value per position pair, positions inside the shape *)
Definition wf_coo (C : coo V) : Prop :=
  length (coo_shape C) = 2 /\ length (coo_subs C) = length (coo_data C) /\
  Forall (fun rc => inb (coo_shape C) rc = true) (coo_subs C).
(* what is assumed of scipy's product: a well-formed coo matrix of shape R x J reading as the matrix product *)
Definition spdot_spec (spdot : coo V -> coo V -> coo V) : Prop :=
  forall A B, wf_coo A -> wf_coo B -> coo_cols A = coo_cols B ->
    wf_coo (spdot A B) /\ coo_shape (spdot A B) = [coo_rows A; coo_rows B] /\
    forall r j, r < coo_rows A -> j < coo_rows B ->
      den_coo v0 vadd (spdot A B) [r; j] =
      sum_n v0 vadd (coo_cols A) (fun k => vmul (den_coo v0 vadd A [r; k]) (den_coo v0 vadd B [j; k])).

(* a reference product: the positions of the R x J result in row-major order whose sum is not zero *)
Definition spdot_ref (A B : coo V) : coo V :=
  let R := coo_rows A in let J := coo_rows B in
  let val := fun rj => sum_n v0 vadd (coo_cols A)
                         (fun k => vmul (den_coo v0 vadd A [nth 0 rj 0; k]) (den_coo v0 vadd B [nth 1 rj 0; k])) in
  let subs := filter (fun rj => negb (isz (val rj))) (rowmajor_subs R J) in
  mkCoo [R; J] subs (map val subs).

Definition fac_ok (f : factor) (cols : nat) : Prop :=
  match f with FDense _ => True | FCoo C => wf_coo C /\ coo_cols C = cols end.
Definition wf_holder (h : holder) : Prop := match h with HD D => wf_dense D | HS G => wf_sp isz G end.

End W5.

Arguments factor V : clear implicits.
Arguments holder V : clear implicits.
