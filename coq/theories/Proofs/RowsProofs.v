(* Proofs/RowsProofs.v — theorems about the GENERATED row-set helper tt_ismember_rows
   (Gen/GenUtils.v): location of each search row in the source, -1 when absent; with repeated
   source rows the LAST occurrence is reported. *)
From Coq Require Import List ZArith Arith Bool Lia.
From PV Require Import Np.NpZ Proofs.NpZProofs Gen.GenUtils.
Import ListNotations.
Local Open Scope Z_scope.

(* reference: index of the last row of [source] equal to [r] *)
Fixpoint find_last_from (r : vec) (source : mat) (k : nat) (acc : option nat) : option nat :=
  match source with
  | [] => acc
  | q :: rest => find_last_from r rest (S k) (if row_eqb r q then Some k else acc)
  end.
Definition find_last (r : vec) (source : mat) : option nat := find_last_from r source 0 None.

Definition H_ismember (search source : mat) : bvec * vec :=
  (map (fun r => is_some (find_last r source)) search,
   map (fun r => match find_last r source with Some j => Z.of_nat j | None => -1 end) search).

Lemma row_eqb_spec r q : row_eqb r q = true <-> r = q.
Proof.
  revert q; induction r as [|x r IH]; intros [|y q]; cbn; split; intros H; try discriminate; auto.
  - apply andb_true_iff in H as [H1 H2]. apply Z.eqb_eq in H1. apply IH in H2. congruence.
  - inversion H; subst. rewrite Z.eqb_refl. cbn. now apply IH.
Qed.

(* what find_last means *)
Lemma find_last_from_spec r source k acc :
  match find_last_from r source k acc with
  | Some j => (exists j', j = (k + j')%nat /\ (j' < length source)%nat /\ nth j' source [] = r /\
                 forall j'', (j' < j'' < length source)%nat -> nth j'' source [] <> r)
              \/ (acc = Some j /\ forall j'', (j'' < length source)%nat -> nth j'' source [] <> r)
  | None => acc = None /\ forall j'', (j'' < length source)%nat -> nth j'' source [] <> r
  end.
Proof.
  revert k acc; induction source as [|q rest IH]; intros k acc; cbn [find_last_from].
  - destruct acc as [j|]; [right|]; split; auto; cbn; intros; lia.
  - specialize (IH (S k) (if row_eqb r q then Some k else acc)).
    destruct (find_last_from r rest (S k) (if row_eqb r q then Some k else acc)) as [j|].
    + destruct IH as [(j' & -> & Hlt & Hn & Hl)|[Hacc Hno]].
      * left. exists (S j'). repeat split; cbn; try lia; auto.
        intros j'' Hj''. destruct j'' as [|j'']; [lia|]. cbn. apply Hl. lia.
      * destruct (row_eqb r q) eqn:E.
        -- inversion Hacc; subst. left. exists 0%nat. apply row_eqb_spec in E. repeat split; cbn; try lia; auto.
           intros j'' Hj''. destruct j'' as [|j'']; [lia|]. cbn. apply Hno. lia.
        -- right. split; auto. intros j'' Hj''. destruct j'' as [|j'']; cbn.
           ++ intros ->. rewrite (proj2 (row_eqb_spec r r) eq_refl) in E. discriminate.
           ++ apply Hno. cbn in Hj''. lia.
    + destruct IH as [Hacc Hno]. destruct (row_eqb r q) eqn:E; [discriminate|]. split; auto.
      intros j'' Hj''. destruct j'' as [|j'']; cbn.
      * intros ->. rewrite (proj2 (row_eqb_spec r r) eq_refl) in E. discriminate.
      * apply Hno. cbn in Hj''. lia.
Qed.

Theorem find_last_spec r source :
  match find_last r source with
  | Some j => (j < length source)%nat /\ nth j source [] = r /\
              forall j', (j < j' < length source)%nat -> nth j' source [] <> r
  | None => forall j, (j < length source)%nat -> nth j source [] <> r
  end.
Proof.
  unfold find_last. pose proof (find_last_from_spec r source 0 None) as H.
  destruct (find_last_from r source 0 None) as [j|].
  - destruct H as [(j' & -> & Hlt & Hn & Hl)|[Hacc _]]; [|discriminate]. cbn. auto.
  - now destruct H.
Qed.

(* ---- the scatter fold, read back position-wise ---- *)

Fixpoint last_assoc (k : Z) (ps : list (Z * Z)) (d : Z) : Z :=
  match ps with
  | [] => d
  | (i, v) :: r => last_assoc k r (if i =? k then v else d)
  end.

Lemma upd_nth_Z {A} (l : list A) i v k d : (i < length l)%nat ->
  nth k (upd l i v) d = if Nat.eqb k i then v else nth k l d.
Proof.
  revert i k; induction l as [|x l IH]; intros [|i] [|k] H; cbn in *; try lia; auto. apply IH. lia.
Qed.

Lemma upd_len {A} (l : list A) i v : length (upd l i v) = length l.
Proof. revert i; induction l as [|x l IH]; intros [|i]; cbn; auto. Qed.

Lemma scatter_nth (a : vec) idx vals k :
  length idx = length vals -> (forall i, In i idx -> 0 <= i < zlen a) -> (k < length a)%nat ->
  nth k (np_scatter a idx vals) 0 = last_assoc (Z.of_nat k) (combine idx vals) (nth k a 0).
Proof.
  revert a vals; induction idx as [|i idx IH]; intros a [|v vals] HL Hin Hk; cbn in HL; try discriminate; [reflexivity|].
  cbn [np_scatter combine last_assoc].
  assert (Hi : 0 <= i < zlen a) by (apply Hin; cbn; auto).
  rewrite IH.
  - f_equal. unfold zlen in Hi. rewrite upd_nth_Z by lia.
    destruct (Z.eqb_spec i (Z.of_nat k)) as [->|Hne].
    + now rewrite Nat2Z.id, Nat.eqb_refl.
    + destruct (Nat.eqb_spec k (Z.to_nat i)); [lia|reflexivity].
  - lia.
  - intros j Hj. unfold zlen. rewrite upd_len. apply Hin. cbn; auto.
  - now rewrite upd_len.
Qed.

Lemma scatter_const_nth (a : bvec) idx k :
  (forall i, In i idx -> 0 <= i < zlen a) -> (k < length a)%nat ->
  nth k (np_scatter_const a idx true) false = (nth k a false || existsb (fun i => i =? Z.of_nat k) idx).
Proof.
  unfold np_scatter_const. revert a; induction idx as [|i idx IH]; intros a Hin Hk; cbn [fold_left existsb].
  - now rewrite orb_false_r.
  - assert (Hi : 0 <= i < zlen a) by (apply Hin; cbn; auto). unfold zlen in Hi.
    rewrite IH.
    + rewrite upd_nth_Z by lia.
      destruct (Z.eqb_spec i (Z.of_nat k)) as [->|Hne].
      * rewrite Nat2Z.id, Nat.eqb_refl. cbn. now rewrite orb_true_r.
      * destruct (Nat.eqb_spec k (Z.to_nat i)); [lia|]. cbn. reflexivity.
    + intros j Hj. unfold zlen. rewrite upd_len. apply Hin. cbn; auto.
    + now rewrite upd_len.
Qed.

(* ---- the list of matching pairs, block by block ---- *)

Definition row_matches (i : nat) (r : vec) (source : mat) (o : nat) : list (Z * Z) :=
  flat_map (fun jq : nat * vec => if row_eqb r (snd jq) then [(Z.of_nat i, Z.of_nat (fst jq))] else [])
           (combine (seq o (length source)) source).

Definition all_pairs (search source : mat) (o : nat) : list (Z * Z) :=
  flat_map (fun ip : nat * vec => row_matches (fst ip) (snd ip) source 0) (combine (seq o (length search)) search).

Lemma match_pairs_eq search source :
  combine (fst (np_match_pairs search source)) (snd (np_match_pairs search source)) = all_pairs search source 0.
Proof.
  unfold np_match_pairs, all_pairs, row_matches. cbn [fst snd].
  match goal with |- combine (map fst ?l) (map snd ?l) = _ => generalize l end.
  intros l. induction l as [|[a b] l IH]; cbn; [reflexivity|]. now rewrite IH.
Qed.

Lemma last_assoc_app k ps qs d : last_assoc k (ps ++ qs) d = last_assoc k qs (last_assoc k ps d).
Proof. revert d; induction ps as [|[i v] ps IH]; intros d; cbn; auto. Qed.

Lemma last_assoc_other k ps d : (forall p, In p ps -> fst p <> k) -> last_assoc k ps d = d.
Proof.
  revert d; induction ps as [|[i v] ps IH]; intros d H; cbn; auto.
  destruct (Z.eqb_spec i k) as [E|_]; [exfalso; apply (H (i, v)); cbn; auto|].
  apply IH. intros; apply H; cbn; auto.
Qed.

Lemma row_matches_fst i r source o p : In p (row_matches i r source o) -> fst p = Z.of_nat i.
Proof.
  unfold row_matches. rewrite in_flat_map. intros ([j q] & _ & Hp). cbn in Hp.
  destruct (row_eqb r q); [|contradiction]. destruct Hp as [<-|[]]. reflexivity.
Qed.

(* within the block of row i, the last pair carries the last matching source index *)
Lemma last_assoc_row_matches i r source o d :
  last_assoc (Z.of_nat i) (row_matches i r source o) d =
  match find_last_from r source o None with Some j => Z.of_nat j | None => d end.
Proof.
  unfold row_matches.
  assert (G : forall source o d acc,
    last_assoc (Z.of_nat i)
      (flat_map (fun jq : nat * vec => if row_eqb r (snd jq) then [(Z.of_nat i, Z.of_nat (fst jq))] else [])
         (combine (seq o (length source)) source)) (match acc with Some j => Z.of_nat j | None => d end)
    = match find_last_from r source o acc with Some j => Z.of_nat j | None => d end).
  { clear. induction source as [|q rest IH]; intros o d acc; cbn [length seq combine flat_map find_last_from]; [reflexivity|].
    cbn [snd fst]. destruct (row_eqb r q) eqn:E.
    - cbn [app last_assoc]. rewrite Z.eqb_refl. apply (IH (S o) d (Some o)).
    - cbn [app]. apply IH. }
  apply (G source o d None).
Qed.

Lemma all_pairs_bounds search source o p : In p (all_pairs search source o) ->
  Z.of_nat o <= fst p < Z.of_nat (o + length search).
Proof.
  unfold all_pairs. rewrite in_flat_map. intros ([i r] & Hir & Hp). cbn [fst snd] in Hp.
  apply row_matches_fst in Hp. rewrite Hp. apply in_combine_l in Hir. apply in_seq in Hir. lia.
Qed.

Lemma last_assoc_all_pairs search source o k d : (o <= k < o + length search)%nat ->
  last_assoc (Z.of_nat k) (all_pairs search source o) d =
  match find_last (nth (k - o) search []) source with Some j => Z.of_nat j | None => d end.
Proof.
  revert o d; induction search as [|r search IH]; intros o d Hk; cbn in Hk; [lia|].
  unfold all_pairs. cbn [length seq combine flat_map fst snd]. rewrite last_assoc_app.
  fold (all_pairs search source (S o)).
  destruct (Nat.eq_dec k o) as [->|Hne].
  - rewrite Nat.sub_diag. cbn [nth]. rewrite last_assoc_row_matches. fold (find_last r source).
    apply last_assoc_other. intros p Hp. apply all_pairs_bounds in Hp. lia.
  - rewrite (last_assoc_other (Z.of_nat k) (row_matches o r source 0)).
    + rewrite IH by lia. replace (k - o)%nat with (S (k - S o)) by lia. reflexivity.
    + intros p Hp. apply row_matches_fst in Hp. lia.
Qed.

Lemma is_some_find_last_from r source o acc :
  is_some (find_last_from r source o acc) = is_some acc || existsb (row_eqb r) source.
Proof.
  revert o acc; induction source as [|q rest IH]; intros o acc; cbn [find_last_from existsb].
  - now rewrite orb_false_r.
  - rewrite IH. destruct (row_eqb r q); cbn [is_some orb]; [now rewrite orb_true_r|reflexivity].
Qed.

Lemma existsb_row_matches i r source o :
  existsb (fun x => x =? Z.of_nat i) (map fst (row_matches i r source o)) = existsb (row_eqb r) source.
Proof.
  unfold row_matches. revert o; induction source as [|q rest IH]; intros o; cbn [length seq combine flat_map existsb map]; [reflexivity|].
  cbn [snd fst]. destruct (row_eqb r q).
  - cbn [app map existsb fst]. now rewrite Z.eqb_refl.
  - cbn [app orb]. apply IH.
Qed.

Lemma existsb_none k (ps : list (Z * Z)) : (forall p, In p ps -> fst p <> k) -> existsb (fun x => x =? k) (map fst ps) = false.
Proof.
  induction ps as [|[i v] ps IH]; intros H; cbn; [reflexivity|].
  destruct (Z.eqb_spec i k) as [E|_]; [exfalso; apply (H (i, v)); cbn; auto|]. apply IH. intros; apply H; cbn; auto.
Qed.

Lemma existsb_all_pairs search source o k : (o <= k < o + length search)%nat ->
  existsb (fun i => i =? Z.of_nat k) (map fst (all_pairs search source o)) =
  is_some (find_last (nth (k - o) search []) source).
Proof.
  revert o; induction search as [|r search IH]; intros o Hk; cbn in Hk; [lia|].
  unfold all_pairs. cbn [length seq combine flat_map fst snd]. rewrite map_app, existsb_app.
  fold (all_pairs search source (S o)).
  unfold find_last. rewrite is_some_find_last_from. cbn [is_some orb].
  destruct (Nat.eq_dec k o) as [->|Hne].
  - rewrite Nat.sub_diag. cbn [nth]. rewrite existsb_row_matches.
    rewrite existsb_none; [now rewrite orb_false_r|]. intros p Hp. apply all_pairs_bounds in Hp. lia.
  - rewrite (existsb_none (Z.of_nat k) (row_matches o r source 0)).
    + cbn [orb]. rewrite IH by lia. unfold find_last. rewrite is_some_find_last_from. cbn [is_some orb].
      replace (k - o)%nat with (S (k - S o)) by lia. reflexivity.
    + intros p Hp. apply row_matches_fst in Hp. lia.
Qed.

(* ---- bridge: the generated function computes H_ismember ---- *)

Lemma np_full_length {A} n (v : A) : length (np_full n v) = Z.to_nat n.
Proof. unfold np_full. apply repeat_length. Qed.

Lemma nth_np_full {A} n (v d : A) k : (k < Z.to_nat n)%nat -> nth k (np_full n v) d = v.
Proof. unfold np_full. revert k; induction (Z.to_nat n) as [|m IH]; intros [|k] H; cbn; try lia; auto. apply IH. lia. Qed.

Lemma np_full_length_nat {A} n (v : A) : length (np_full (Z.of_nat n) v) = n.
Proof. rewrite np_full_length. apply Nat2Z.id. Qed.

Lemma nth_np_full_nat {A} n (v d : A) k : (k < n)%nat -> nth k (np_full (Z.of_nat n) v) d = v.
Proof. intros H. apply nth_np_full. now rewrite Nat2Z.id. Qed.

Theorem tt_ismember_rows_bridge search source :
  np_size2 search <> 0 -> np_size2 source <> 0 ->
  tt_ismember_rows search source = Ok (H_ismember search source).
Proof.
  intros Hs1 Hs2. unfold tt_ismember_rows, H_ismember.
  destruct (Z.eqb_spec (np_size2 search) 0); [contradiction|].
  destruct (Z.eqb_spec (np_size2 source) 0); [contradiction|].
  set (mp := np_match_pairs search source).
  assert (Hc : combine (fst mp) (snd mp) = all_pairs search source 0) by apply match_pairs_eq.
  assert (Hlen : length (fst mp) = length (snd mp)).
  { unfold mp, np_match_pairs. cbn [fst snd]. now rewrite !map_length. }
  clearbody mp.
  assert (Hf : fst mp = map fst (all_pairs search source 0)).
  { rewrite <- Hc. clear -Hlen. revert Hlen. generalize (snd mp). induction (fst mp) as [|a l IH]; intros [|b l'] H; cbn in *; try discriminate; auto. f_equal. apply IH. lia. }
  assert (Hb : forall i, In i (fst mp) -> 0 <= i < Z.of_nat (length search)).
  { intros i Hi. rewrite Hf in Hi. apply in_map_iff in Hi as (p & <- & Hp). apply all_pairs_bounds in Hp. cbn in Hp. lia. }
  unfold np_nrows, zlen. f_equal. f_equal.
  - (* matched *)
    apply (nth_ext _ _ false false).
    + unfold np_scatter_const. 
      assert (L : forall (idx : vec) (a : bvec), length (fold_left (fun acc i => upd acc (Z.to_nat i) true) idx a) = length a).
      { induction idx as [|i idx IH]; intros a; cbn; auto. now rewrite IH, upd_len. }
      rewrite L, np_full_length_nat, map_length. reflexivity.
    + intros k Hk.
      assert (Hk' : (k < length search)%nat).
      { unfold np_scatter_const in Hk.
        assert (L : forall (idx : vec) (a : bvec), length (fold_left (fun acc i => upd acc (Z.to_nat i) true) idx a) = length a).
        { induction idx as [|i idx IH]; intros a; cbn; auto. now rewrite IH, upd_len. }
        rewrite L, np_full_length_nat in Hk. exact Hk. }
      rewrite scatter_const_nth.
      * rewrite nth_np_full_nat by lia. cbn [orb]. rewrite Hf, existsb_all_pairs by lia. rewrite Nat.sub_0_r.
        rewrite (nth_indep _ false (is_some (find_last [] source))) by (now rewrite map_length).
        now rewrite (map_nth (fun r => is_some (find_last r source))).
      * intros i Hi. unfold zlen. rewrite np_full_length_nat. specialize (Hb i Hi). lia.
      * rewrite np_full_length_nat. lia.
  - (* results *)
    assert (Hneg : map (fun x_ : Z => x_ * -1) (np_full (Z.of_nat (length search)) 1) = np_full (Z.of_nat (length search)) (-1)).
    { unfold np_full. induction (Z.to_nat (Z.of_nat (length search))) as [|m IH]; cbn; [reflexivity|]. now rewrite IH. }
    rewrite Hneg.
    assert (Ls : forall (idx : vec) (vals a : vec), length (np_scatter a idx vals) = length a).
    { induction idx as [|i idx IH]; intros [|v vals] a; cbn; auto. now rewrite IH, upd_len. }
    apply (nth_ext _ _ 0 0).
    + rewrite Ls, np_full_length_nat, map_length. reflexivity.
    + intros k Hk. rewrite Ls, np_full_length_nat in Hk.
      rewrite scatter_nth; auto.
      * rewrite Hc, last_assoc_all_pairs by lia. rewrite Nat.sub_0_r, nth_np_full_nat by lia.
        rewrite (nth_indep _ 0 ((fun r => match find_last r source with Some j => Z.of_nat j | None => -1 end) [])) by (rewrite map_length; exact Hk).
        now rewrite (map_nth (fun r => match find_last r source with Some j => Z.of_nat j | None => -1 end)).
      * intros i Hi. unfold zlen. rewrite np_full_length_nat. specialize (Hb i Hi). lia.
      * rewrite np_full_length_nat. lia.
Qed.

(* the user-level statement: location of each search row, -1 if absent, last occurrence when repeated *)
Theorem tt_ismember_rows_spec search source :
  np_size2 search <> 0 -> np_size2 source <> 0 ->
  exists matched results, tt_ismember_rows search source = Ok (matched, results) /\
    length matched = length search /\ length results = length search /\
    forall i, (i < length search)%nat ->
      let r := nth i search [] in
      ((exists j, (j < length source)%nat /\ nth j source [] = r) ->
         nth i matched false = true /\
         exists j, nth i results 0 = Z.of_nat j /\ (j < length source)%nat /\ nth j source [] = r /\
                   forall j', (j < j' < length source)%nat -> nth j' source [] <> r) /\
      ((forall j, (j < length source)%nat -> nth j source [] <> r) ->
         nth i matched false = false /\ nth i results 0 = -1).
Proof.
  intros H1 H2. rewrite tt_ismember_rows_bridge by auto. unfold H_ismember.
  eexists; eexists; split; [reflexivity|]. rewrite !map_length. split; [reflexivity|]. split; [reflexivity|].
  intros i Hi. cbv zeta.
  rewrite (nth_indep _ false (is_some (find_last [] source))) by (now rewrite map_length).
  rewrite (map_nth (fun r => is_some (find_last r source))).
  rewrite (nth_indep _ 0 ((fun r => match find_last r source with Some j => Z.of_nat j | None => -1 end) [])) by (now rewrite map_length).
  rewrite (map_nth (fun r => match find_last r source with Some j => Z.of_nat j | None => -1 end)).
  match goal with |- context [find_last ?x source] => pose proof (find_last_spec x source) as Hs; destruct (find_last x source) as [j|] end;
    cbn [is_some]; split.
  - intros _. split; auto. exists j. destruct Hs as (Hj & Hn & Hl). auto.
  - intros Hno. destruct Hs as (Hj & Hn & _). exfalso. now apply (Hno j).
  - intros (j & Hj & Hn). exfalso. now apply (Hs j).
  - intros _. auto.
Qed.
