"""C01 — converting between representations preserves the tensor (DESIGN §C01)."""
import math
from vcheck import Case, gnlist, gzlist
import tgen
from props.c01_conv import (OPS as CONV_OPS, gen_cases_conv, run_conv, check_conv, oracle_conv, TRIGGERS, WITNESSES)
from props.c01_w3 import OPS3, gen_cases_w3, run_w3, check_w3, oracle_w3

PROP = "C01"
LEVEL = "proof"
GEN_UNITS = ["GenUtils", "GenUtils2"]     # C01_gather_wrap_dims_generated is stated over the generated gather_wrap_dims
COQ_TARGETS = ["Props/C01.vo", "Model/C01Harness.vo", "Model/Harness.vo"]
THEOREM_FILES = ["Props/C01.v"]
COQ_IMPORTS = ("From Coq Require Import List ZArith Bool.\n"
               "From PV Require Import Base.Index Base.Perm Np.Array Model.Sparse Model.Repr Model.Harness Model.C07Ops Model.C07Harness "
               "Model.C01Conv Model.C01Unique Model.C01Coo Model.C01W3 Model.C01Harness.\n")
RULE = ("dense<->sparse: all shapes with <= 8 cells (exhaustive) + seeded random shapes <= 5 modes / 96 cells; sparsity {0,1,some,all}; stored "
        "orders {sorted,reversed,random}; non-trivial = more than one cell and at least one nonzero; distinct = distinct (op,args); "
        "matricisation: every ordered partition of the modes into (rdims, cdims) for N<=4 (either side may be empty) + seeded sample "
        "for N=5, the rdims-only / cdims-only / fc / bc / t request forms, dense and sparse (sparsity {0,1,some,all}, stored orders "
        "{sorted,reversed,random}; the stored triples of the sptenmat are compared one by one, in stored order, with the transliterated "
        "unique + accumulate model); Kruskal ranks 0..3 on shapes <= 5 modes / 96 cells (1-way included); Tucker cores <= 2x2x2x2 "
        "(dense and sparse core; dense cores also against the transliterated permute/reshape/matmul ttm); sums of 1..4 parts of mixed "
        "kinds; a malformed stream of non-partitions; constructor streams tenmat(data, rdims, cdims, tshape) and sptenmat(subs, vals, "
        "rdims, cdims, tshape): every argument form, repeated positions, cancelling and explicit zeros, shuffled orders, and malformed "
        "requests (non-partitions, out-of-range modes and indices, wrong element count, 1-d / 3-d / empty data, regrouped matrix "
        "shapes) — the guard model must predict accept / reject / empty and the accepted object must convert back and forth as the "
        "model does; from_array of dense matrices and of scipy matrices given as raw triples (shuffled, split positions, stored zeros); "
        "third wave: memory layouts {C, strided view, negative strides, rotated axes} x copy {True, False} for tensor / tenmat / from_array / "
        "Kruskal and Tucker factors / sptensor(copy=False); the chain tensor -> to_tenmat -> tenmat() -> to_tensor -> to_sptensor -> "
        "to_sptenmat -> to_sptensor -> full (every step compared); stored zeros {some, all, none, nothing stored} in sparse tensors through "
        "every converter; sptenmat(copy=False) incl. malformed requests; forced N x 1 / 1 x N splits; sums with identical patterns, exact "
        "cancellation, second conversion and parts re-observed; unfoldings beyond 2^15 rows / columns with nonzeros in the last cells; "
        "Kruskal to_tenmat in every request form, factors of mixed element types; Tucker sparse cores in any stored order")
CORRESPONDENCE_ONLY = [
    "scipy: coo_matrix construction, toarray() (positions summed) and coo.dot(dense matrix) (matrix product) are modelled, not verified",
    "memory layout / element type of the arrays handed to constructors (C-contiguous, strided views, negative strides, rotated axes; "
    "int64 / float32 / float64 Kruskal factors): the Coq arrays are abstract F-order lists, so tensor(data, shape, copy) and the layout "
    "normalisation of tenmat / ktensor / ttensor / sptensor constructors are compared on generated inputs only",
    "sumtensor.full as executed (`result += part` dispatching on the part's class): the model adds the densified parts (C01_sum; the "
    "densifications are the proved ones); a second conversion of the same sumtensor and the parts afterwards are observed, not modelled",
    "sptensor.ttm over a LIST of modes other than the Tucker use (mode 0 then dense): single mode n is proved (C01_sptensor_ttm)",
    "sptensor.ttm result container (`Z.nnz <= 0.5 * prod(siz)` is never reached with a dense matrix: Z is an ndarray): modelled as the "
    "to_tensor() branch",
]
ASSUMPTIONS = ["numpy transpose / F-order reshape / scatter / nonzero semantics as defined in Np/Array.v and Model/Sparse.v",
               "np.unique(axis=0, return_inverse=True) orders rows lexicographically (first column most significant) and accumarray(func=sum) "
               "adds the values of equal rows in stored order: transliterated as insertion into a sorted accumulator (Model/C01Unique.v) "
               "and validated by the stored-order comparison of every generated sptenmat",
               "ndarray.nonzero() scans a matrix in row-major order; scipy coo_matrix.toarray() sums the values stored at one position",
               "constructor arguments are typed as numpy delivers them: subs an nnz x 2 array of non-negative integers, vals nnz values, "
               "mode lists of non-negative integers (negative indices are outside the nat-valued model)"]


def gen_cases(rng, tier):
    big = tier == "thorough"
    cases = gen_cases_conv(rng, tier) + gen_cases_w3(rng, tier)
    shapes = tgen.shapes_upto(8) + [tuple(tgen.rand_shape(rng, maxn=5, maxcells=96)) for _ in range(120 if big else 25)]
    for shp in shapes:
        n = math.prod(shp)
        fills = [0.0, 1.0, 0.4] + ([0.7] if big else [])
        for fill in fills:
            data = tgen.rand_dense(rng, shp, fill)
            if fill == 0.4 and n > 1 and rng.random() < 0.3:      # exactly one nonzero
                data = [0] * n
                data[rng.randrange(n)] = rng.choice([-2, 3])
            nt = n > 1 and any(data)
            cases.append(Case("to_sptensor", {"shape": list(shp), "data": data}, nt))
            for order in ("sorted", "reversed", "random"):
                subs, vals = tgen.dense_to_sparse(shp, data, rng, order)
                for op in ("sp_full", "sp_to_tensor", "sp_double"):
                    if op != "sp_full" and order == "reversed" and not big:
                        continue
                    cases.append(Case(op, {"shape": list(shp), "subs": subs, "vals": vals}, nt))
    return cases


def run_impl(c):
    import logging
    logging.disable(logging.WARNING)     # "selected no copy, but ... must copy" warnings of the constructors (layout streams)
    try:
        return _run_impl(c)
    finally:
        logging.disable(logging.NOTSET)


def _run_impl(c):
    if c.op in CONV_OPS:
        return run_conv(c)
    if c.op in OPS3:
        return run_w3(c)
    import numpy as np
    import pyttb as ttb
    a = c.args
    try:
        if c.op == "to_sptensor":
            T = tgen.mk_tensor(ttb, np, a["shape"], a["data"])
            S = T.to_sptensor()
            back = S.to_tensor()
            return {"ok": tgen.obs_sparse(np, S), "back": tgen.obs_dense(np, back)}
        S = tgen.mk_sptensor(ttb, np, a["shape"], a["subs"], a["vals"])
        if c.op == "sp_full":
            return {"ok": tgen.obs_dense(np, S.full())}
        if c.op == "sp_to_tensor":
            return {"ok": tgen.obs_dense(np, S.to_tensor())}
        if c.op == "sp_double":
            return {"ok": tgen.obs_dense(np, S.double())}
    except Exception as ex:
        return {"exc": type(ex).__name__, "msg": str(ex)[:200]}
    raise ValueError(c.op)


def coq_check(c, o):
    if c.op in CONV_OPS:
        return check_conv(c, o)
    if c.op in OPS3:
        return check_w3(c, o)
    a = c.args
    if "exc" in o:
        return "false"          # every request generated here is admissible
    if c.op == "to_sptensor":
        T = tgen.gdense(a["shape"], a["data"])
        ob = o["ok"]
        if not tgen.all_int(ob["vals"]) or not tgen.all_int(o["back"]["data"]):
            return "false"
        S = tgen.gsparse(ob["shape"], ob["subs"], ob["vals"])
        B = tgen.gdense(o["back"]["shape"], o["back"]["data"])
        nnz_ok = "true" if (ob["nnz"] == len(ob["subs"]) == len(ob["vals"])) else "false"
        return (f"sp_denotes {S} {T} && sp_denotes (to_sptensor 0%Z zisz {T}) {T} && "
                f"Nat.eqb (nnz {S}) (nnz (to_sptensor 0%Z zisz {T})) && dense_eqb {B} {T} && {nnz_ok}")
    S = tgen.gsparse(a["shape"], a["subs"], a["vals"])
    ob = o["ok"]
    if not tgen.all_int(ob["data"]):
        return "false"
    return f"dense_eqb (full 0%Z {S}) {tgen.gdense(ob['shape'], ob['data'])}"


def oracle(c, o):
    """brute-force: does pyttb's output denote the same array? (pure Python loops)"""
    if c.op in CONV_OPS:
        return oracle_conv(c, o)
    if c.op in OPS3:
        return oracle_w3(c, o)
    a = c.args
    if "exc" in o:
        return f"admissible conversion raised {o['exc']}: {o.get('msg')}"
    if c.op == "to_sptensor":
        ob = o["ok"]
        subs_all = tgen.all_subs(a["shape"])
        want = {tuple(s): v for s, v in zip(subs_all, a["data"]) if v != 0}
        got = {}
        for s, v in zip(ob["subs"], ob["vals"]):
            if tuple(s) in got:
                return f"duplicate subscript {s}"
            got[tuple(s)] = v
        if ob["shape"] != a["shape"] or got != want or ob["nnz"] != len(want):
            return f"sparse result {ob} does not denote the dense input"
        if o["back"]["data"] != a["data"] or o["back"]["shape"] != a["shape"]:
            return "dense -> sparse -> dense is not the identity"
        return None
    ob = o["ok"]
    subs_all = tgen.all_subs(a["shape"])
    d = {tuple(s): v for s, v in zip(a["subs"], a["vals"])}
    want = [d.get(tuple(s), 0) for s in subs_all]
    if ob["shape"] != a["shape"] or ob["data"] != want:
        return f"dense result {ob} does not denote the sparse input"
    return None
