(* Model/C08Kruskal.v — executable models of the Kruskal re-parameterisations of pyttb/ktensor.py
   (normalize, arrange, fixsigns, redistribute, extract, permute, tovec/from_vector/update, tolist,
   __add__/__sub__/__neg__/__mul__) on the shared record [ktensor V] of Model/Repr.v.
   Values: any type with ring operations plus an inverse; everything numpy computes with
   floating point that is not a ring operation is an ORACLE argument:
     nrm  : np.linalg.norm(column, ord=normtype)          pos x : x > 0      neg x : x < 0
     root : np.power(x, 1/N)                               srt w : np.argsort(w)[::-1]
     negcol: sign of the entry of largest magnitude is -1  (fixsigns)
   Definitions only; proofs are in Proofs/C08Proofs.v. *)
From Coq Require Import List Arith Lia Bool.
From PV Require Import Base.Index Base.Perm Base.Sum Np.Array Model.Sparse Model.Repr.
Import ListNotations.

Section K8.
Context {V : Type} (v0 v1 : V) (vadd vmul : V -> V -> V) (vopp vinv : V -> V).

Notation mat := (list (list V)).

(* ---- small numpy pieces ---- *)
Definition col (A : mat) (r : nat) : list V := map (fun row => nth r row v0) A.      (* A[:, r] *)
Fixpoint zipmul (a b : list V) : list V :=                                           (* a * b *)
  match a, b with x :: a', y :: b' => vmul x y :: zipmul a' b' | _, _ => [] end.
Definition scale_cols (cs : list V) (A : mat) : mat := map (fun row => zipmul row cs) A.   (* A @ diag(cs) *)
Fixpoint upd_nth {A} (n : nat) (f : A -> A) (l : list A) : list A :=
  match l, n with
  | [], _ => []
  | x :: l', 0 => f x :: l'
  | x :: l', S n' => x :: upd_nth n' f l'
  end.
Definition ones {A} (l : list A) : list V := map (fun _ => v1) l.
Fixpoint vpow (x : V) (n : nat) : V := match n with 0 => v1 | S n' => vmul x (vpow x n') end.
Definition vm1 : V := vopp v1.
Definition dot (a b : list V) : V := sumv v0 vadd (zipmul a b).

(* stable argsort for an arbitrary comparison (numpy's default sort is an insertion sort for n <= 16) *)
Section Argsort.
Variable leb : V -> V -> bool.
Fixpoint ins (p : V * nat) (l : list (V * nat)) : list (V * nat) :=
  match l with
  | [] => [p]
  | q :: l' => if leb (fst p) (fst q) then p :: l else q :: ins p l'
  end.
Definition isort (l : list (V * nat)) : list (V * nat) := fold_right ins [] l.
Definition tagged (l : list V) : list (V * nat) := combine l (seq 0 (length l)).
Definition argsort (l : list V) : list nat := map snd (isort (tagged l)).
Definition argsort_desc (l : list V) : list nat := rev (argsort l).                   (* np.argsort(w)[::-1] *)
End Argsort.

(* ---- component gather: weights[p], A[:, p] — arrange(permutation=p), extract(idx) ---- *)
Definition k_gather (p : list nat) (K : ktensor V) : ktensor V :=
  mkK (pick v0 p (kweights K)) (map (map (pick v0 p)) (kfactors K)).
Definition k_arrange_perm := k_gather.
Definition k_extract := k_gather.

(* ---- mode permutation: ktensor.permute(order) ---- *)
Definition k_permute (order : list nat) (K : ktensor V) : ktensor V :=
  mkK (kweights K) (pick [] order (kfactors K)).

(* ---- redistribute(mode): factor[mode][:, r] *= weights[r]; weights[r] = 1 ---- *)
Definition k_redistribute (n : nat) (K : ktensor V) : ktensor V :=
  mkK (ones (kweights K)) (upd_nth n (scale_cols (kweights K)) (kfactors K)).

(* ---- normalize ---- *)
Section Normalize.
(* srt w stands for np.argsort(w)[::-1] (numpy's sort is not stable on every platform: an oracle) *)
Variables (nrm : list V -> V) (pos neg : V -> bool) (root : V -> V) (srt : list V -> list nat).

(* normalize(mode=n): tmp = norm(A[:, r]); if tmp > 0: A[:, r] *= 1/tmp; weights[r] *= tmp *)
Definition col_norms (A : mat) (R : nat) : list V := map (fun r => nrm (col A r)) (seq 0 R).
Definition inv_pos (t : V) : V := if pos t then vinv t else v1.
Definition k_normalize_mode (n : nat) (K : ktensor V) : ktensor V :=
  let t := col_norms (nth n (kfactors K) []) (krank K) in
  mkK (zipmul (kweights K) t) (upd_nth n (scale_cols (map inv_pos t)) (kfactors K)).
Definition k_normalize_cols (K : ktensor V) : ktensor V :=
  fold_left (fun K n => k_normalize_mode n K) (seq 0 (length (kfactors K))) K.
(* idx = where(weights < 0); A0[:, idx] = -A0[:, idx]; weights[idx] = -weights[idx] *)
Definition sgn_neg (w : V) : V := if neg w then vm1 else v1.
Definition k_fix_neg (K : ktensor V) : ktensor V :=
  match kfactors K with
  | [] => K
  | A0 :: As => let s := map sgn_neg (kweights K) in mkK (zipmul (kweights K) s) (scale_cols s A0 :: As)
  end.
Inductive wfac := WNone | WMode (n : nat) | WAll.
Definition k_absorb (wf : wfac) (K : ktensor V) : ktensor V :=
  match wf with
  | WNone => K
  | WMode n => if n <? length (kfactors K) then k_redistribute n K else K
  | WAll => mkK (ones (kweights K)) (map (scale_cols (map root (kweights K))) (kfactors K))
  end.
Definition k_sort (K : ktensor V) : ktensor V :=
  if 1 <? krank K then k_gather (srt (kweights K)) K else K.
(* normalize(weight_factor, sort, normtype, mode): [nrm] is the norm of the requested type *)
Definition k_normalize (wf : wfac) (sort : bool) (mode : option nat) (K : ktensor V) : ktensor V :=
  match mode with
  | Some n => k_normalize_mode n K
  | None => let K1 := k_absorb wf (k_fix_neg (k_normalize_cols K)) in if sort then k_sort K1 else K1
  end.

(* arrange(weight_factor): normalize(); sort descending; optionally absorb into one factor *)
Definition k_arrange (wf : option nat) (K : ktensor V) : ktensor V :=
  let K1 := k_normalize WNone false None K in
  let K2 := k_gather (srt (kweights K1)) K1 in
  match wf with None => K2 | Some n => k_redistribute n K2 end.

(* tolist(mode) : normalize(weight_factor=mode) then the factor list;
   tolist()     : factors if all weights are 1, else A0 @ diag(sign w) and every A_n @ diag(|w|^(1/N)) *)
Variables (vsgn vabs : V -> V) (is_one : V -> bool).
Definition k_tolist_mode (n : nat) (K : ktensor V) : list mat := kfactors (k_normalize (WMode n) false None K).
Definition k_tolist (K : ktensor V) : list mat :=
  if forallb is_one (kweights K) then kfactors K
  else let d := map (fun w => root (vabs w)) (kweights K) in
       map (scale_cols d) (upd_nth 0 (scale_cols (map vsgn (kweights K))) (kfactors K)).
End Normalize.

(* ---- sign flips ---- *)
(* multiply column r of factor n by -1 where fl n r *)
Fixpoint flip_factors (fl : nat -> nat -> bool) (R : nat) (n : nat) (As : list mat) : list mat :=
  match As with
  | [] => []
  | A :: As' => scale_cols (map (fun r => if fl n r then vm1 else v1) (seq 0 R)) A :: flip_factors fl R (S n) As'
  end.
Definition k_flip (fl : nat -> nat -> bool) (K : ktensor V) : ktensor V :=
  mkK (kweights K) (flip_factors fl (krank K) 0 (kfactors K)).
Definition memb (n : nat) (l : list nat) : bool := existsb (Nat.eqb n) l.
Definition where_true (l : list bool) : list nat := filter (fun n => nth n l false) (seq 0 (length l)).

(* fixsigns(): per component, the modes whose largest-magnitude entry is negative; flip the first
   2*floor(k/2) of them *)
Variable negcol : list V -> bool.
Definition fs_modes (K : ktensor V) (r : nat) : list nat :=
  let negidx := where_true (map (fun A => negcol (col A r)) (kfactors K)) in
  firstn (2 * (length negidx / 2)) negidx.
Definition k_fixsigns (K : ktensor V) : ktensor V := k_flip (fun n r => memb n (fs_modes K r)) K.

(* fixsigns(other) — the CORRECT pairing rule (the MATLAB original; pyttb's off-by-one is finding A-29):
   both operands normalised; per component r < RB the modes are sorted by the score <A_n[:,r], B_n[:,r]>;
   c = number of negative scores; flip c modes if c is even, else c+1 if that loses less, else c-1 *)
Section FixOther.
Variables (neg : V -> bool) (leb : V -> V -> bool).
Definition fso_scores (A B : ktensor V) (r : nat) : list V :=
  map (fun n => dot (col (nth n (kfactors A) []) r) (col (nth n (kfactors B) []) r)) (seq 0 (length (kfactors A))).
Definition fso_endpt (s : list V) : nat :=          (* s sorted ascending *)
  let c := length (filter neg s) in
  if Nat.even c then c
  else if (c <? length s) && negb (leb (vopp (nth (c - 1) s v0)) (nth c s v0)) then c + 1 else c - 1.
Definition fso_modes (A B : ktensor V) (r : nat) : list nat :=
  if r <? krank B then
    let s := fso_scores A B r in
    let idx := argsort leb s in
    firstn (fso_endpt (pick v0 idx s)) idx
  else [].
Definition k_fixsigns_other_core (A B : ktensor V) : ktensor V := k_flip (fun n r => memb n (fso_modes A B r)) A.
End FixOther.

(* ---- algebra ---- *)
Fixpoint zip_rows (A B : mat) : mat :=           (* np.concatenate((A, B), axis=1) *)
  match A, B with a :: A', b :: B' => (a ++ b) :: zip_rows A' B' | _, _ => [] end.
Fixpoint zip_factors (As Bs : list mat) : list mat :=
  match As, Bs with A :: As', B :: Bs' => zip_rows A B :: zip_factors As' Bs' | _, _ => [] end.
Definition k_add (K L : ktensor V) : ktensor V := mkK (kweights K ++ kweights L) (zip_factors (kfactors K) (kfactors L)).
Definition k_neg (K : ktensor V) : ktensor V := mkK (map vopp (kweights K)) (kfactors K).
Definition k_sub (K L : ktensor V) : ktensor V := mkK (kweights K ++ map vopp (kweights L)) (zip_factors (kfactors K) (kfactors L)).
Definition k_scale (c : V) (K : ktensor V) : ktensor V := mkK (map (vmul c) (kweights K)) (kfactors K).

(* ---- vectorisation ---- *)
(* tovec: weights, then for every factor its columns one after the other *)
Definition cols (A : mat) (R : nat) : list (list V) := map (col A) (seq 0 R).
Definition vec_factor (R : nat) (A : mat) : list V := concat (cols A R).
Definition k_tovec (incl_weights : bool) (K : ktensor V) : list V :=
  (if incl_weights then kweights K else []) ++ concat (map (vec_factor (krank K)) (kfactors K)).
(* np.reshape(data[0 : m*R], (m, R), order="F") as a list of rows *)
Definition unvec_factor (m R : nat) (data : list V) : mat :=
  map (fun i => map (fun r => nth (i + m * r) data v0) (seq 0 R)) (seq 0 m).
Fixpoint unvec_factors (shape : list nat) (R : nat) (data : list V) : list mat :=
  match shape with
  | [] => []
  | m :: shape' => unvec_factor m R (firstn (m * R) data) :: unvec_factors shape' R (skipn (m * R) data)
  end.
Definition sum_nat (l : list nat) : nat := fold_right Nat.add 0 l.
(* from_vector(data, shape, contains_weights): R = len(data) / (sum(shape) [+1]) *)
Definition k_from_vector (data : list V) (shape : list nat) (contains_weights : bool) : ktensor V :=
  if contains_weights then
    let R := length data / (sum_nat shape + 1) in
    mkK (firstn R data) (unvec_factors shape R (skipn R data))
  else
    let R := length data / sum_nat shape in
    mkK (repeat v1 R) (unvec_factors shape R data).
(* update(modes, data): modes ascending, None = -1 (the weights) *)
Fixpoint k_update_loop (modes : list (option nat)) (data : list V) (K : ktensor V) : ktensor V :=
  match modes with
  | [] => K
  | None :: ms => let R := krank K in
                  k_update_loop ms (skipn R data) (mkK (firstn R data) (kfactors K))
  | Some k :: ms => let R := krank K in let m := nth k (kshape K) 0 in
                  k_update_loop ms (skipn (m * R) data)
                    (mkK (kweights K) (upd_nth k (fun _ => unvec_factor m R (firstn (m * R) data)) (kfactors K)))
  end.
Definition k_update := k_update_loop.

End K8.

