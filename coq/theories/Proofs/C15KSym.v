(* Proofs/C15KSym.v — wave 4: ktensor.issymmetric (Model/C15KSym.v) answers true exactly when all factor matrices are one
   matrix; then the denoted array is symmetric in all modes; the result of ktensor.symmetrize (body k15_core) passes it. *)
From Coq Require Import List Arith Lia Bool Permutation Ring.
From PV Require Import Base.Index Base.Perm Base.Sum Np.Array Model.Repr Model.Harness Model.C15Sym Model.C15K Model.C15KSym
  Proofs.C15Proofs Proofs.C15K.
Import ListNotations.

Lemma list_eqb_iff {A} (eqb : A -> A -> bool) : (forall a b, eqb a b = true <-> a = b) ->
  forall l1 l2, list_eqb eqb l1 l2 = true <-> l1 = l2.
Proof.
  intros H. induction l1 as [|x l1 IH]; intros [|y l2]; cbn; try (split; [discriminate|intros E; discriminate E]).
  - split; auto.
  - rewrite andb_true_iff, H, IH. split; [intros [-> ->]; reflexivity|intros E; inversion E; auto].
Qed.

Lemma nth_repeat_lt15 {A} (a d : A) m n : n < m -> nth n (repeat a m) d = a.
Proof. revert n. induction m as [|m IH]; intros [|n] H; cbn; auto; try lia. apply IH. lia. Qed.

Section KSP.
Variable V : Type.
Variable veqb : V -> V -> bool.
Hypothesis veqb_spec : forall a b, veqb a b = true <-> a = b.

Lemma kmat_eqb_iff (A B : list (list V)) : kmat_eqb veqb A B = true <-> A = B.
Proof. unfold kmat_eqb. apply list_eqb_iff. intros a b. now apply list_eqb_iff. Qed.

(* the test answers true exactly when every pair of factor matrices is equal *)
Lemma k_issym_pairs (K : ktensor V) :
  k_issym veqb K = true <->
  forall i j, i < j -> j < length (kfactors K) -> nth i (kfactors K) [] = nth j (kfactors K) [].
Proof.
  unfold k_issym, k_diffs_zero. set (fs := kfactors K). set (N := length fs).
  rewrite forallb_forall. split.
  - intros H i j Hij Hj. apply kmat_eqb_iff.
    assert (Hrow : In (map (fun j => kmat_eqb veqb (nth i fs []) (nth j fs [])) (seq (S i) (N - S i)))
                      (map (fun i => map (fun j => kmat_eqb veqb (nth i fs []) (nth j fs [])) (seq (S i) (N - S i))) (seq 0 N))).
    { apply in_map_iff. exists i. split; auto. apply in_seq. lia. }
    specialize (H _ Hrow). rewrite forallb_forall in H. apply H. apply in_map_iff. exists j. split; auto. apply in_seq. lia.
  - intros H row Hrow. apply in_map_iff in Hrow as (i & <- & Hi). apply in_seq in Hi.
    apply forallb_forall. intros b Hb. apply in_map_iff in Hb as (j & <- & Hj). apply in_seq in Hj.
    apply kmat_eqb_iff. apply H; lia.
Qed.

Theorem k_issym_identical (K : ktensor V) :
  k_issym veqb K = true <-> exists M, kfactors K = repeat M (length (kfactors K)).
Proof.
  rewrite k_issym_pairs. split.
  - intros H. destruct (kfactors K) as [|M fs] eqn:E; [exists []; reflexivity|]. exists M.
    apply (nth_ext _ _ [] []); [now rewrite repeat_length|]. intros j Hj.
    rewrite nth_repeat_lt15 by exact Hj. destruct j as [|j]; [reflexivity|]. symmetry. apply (H 0 (S j)); [apply Nat.lt_0_succ|exact Hj].
  - intros [M E] i j Hij Hj. rewrite E, !nth_repeat_lt15; auto; rewrite ?repeat_length in *; lia.
Qed.
End KSP.

(* ---- consequences for the property ---- *)
Section KSP2.
Variable V : Type.
Variables (v0 v1 : V) (vadd vmul vsub : V -> V -> V) (vopp vinv : V -> V) (veqb : V -> V -> bool).
Hypothesis Vring : ring_theory v0 v1 vadd vmul vsub vopp (@eq V).
Hypothesis veqb_spec : forall a b, veqb a b = true <-> a = b.

(* a Kruskal tensor that passes ktensor.issymmetric denotes an array invariant under every rearrangement of the subscripts *)
Theorem k_issym_sound (K : ktensor V) : k_issym veqb K = true ->
  forall i i', Permutation i i' -> den_k v0 v1 vadd vmul K i = den_k v0 v1 vadd vmul K i'.
Proof.
  intros H i i' P. apply (k_issym_identical V veqb veqb_spec) in H as [M E].
  destruct K as [w fs]. cbn [kfactors] in E. rewrite E.
  now apply (den_identical_factors_symmetric V v0 v1 vadd vmul vsub vopp Vring).
Qed.

(* "the result passes the symmetry test": whatever the (normalised) input, the body of ktensor.symmetrize returns a Kruskal
   tensor that passes ktensor.issymmetric *)
Theorem k15_core_passes_test (neg : V -> bool) (K1 : ktensor V) : kfactors K1 <> [] ->
  k_issym veqb (k15_core v0 v1 vadd vmul vopp vinv neg K1) = true.
Proof.
  intros Hne. destruct (kfactors K1) as [|A0 As] eqn:E; [contradiction|].
  destruct (k15_core_identical V v0 v1 vadd vmul vopp vinv neg K1 A0 As E) as (w & M & ->).
  apply (k_issym_identical V veqb veqb_spec). exists M. cbn [kfactors]. now rewrite repeat_length.
Qed.
End KSP2.
